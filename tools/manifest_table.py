"""Per-property claims (level actually reached).  Edited by hand as checks are built."""
_PROOF_NOTE = ("Trusted: pyvc (own VC generator) + z3/cvc5; library models of networkx/numpy (pyvc/tracksmodel.py, conformance-tested "
               "natively); declared heap shape of SolutionTracks; semantics assumptions of DESIGN.md 3.4; ghost forest theory "
               "(lemmas M2', M3 - Lean status in evidence.coverage.lemmas). ")

CHECKS = {
    "C02": {
        "category": "proof",
        "text": "Representation invariant of ActionHistory against a ghost timeline+cursor proved preserved by the real add_new_action/undo/redo "
                "for stacks of every length; Tracks.undo/redo and every user-action constructor proved to register exactly one history entry "
                "iff top-level (none when nested or refused).",
        "note": _PROOF_NOTE + "Conditional on C01 (assumed contract of Action.inverse). UserUpdateSegmentation not yet under contract.",
        "technique": "contract-based deductive verification (AST->VC, z3/cvc5), ghost timeline invariant",
    },
    "C03": {
        "category": "proof",
        "text": "Forest invariant (in<=1, out<=2, nodes have a time, edges strictly forward) proved preserved on every normal exit of the real "
                "user-action constructors over a fully symbolic graph; primitives used through contracts proved of their bodies.",
        "note": _PROOF_NOTE + "Entry state assumed to satisfy INV (Forest, track-id partition, lookup agreement). UserUpdateSegmentation not yet under contract.",
        "technique": "contract-based deductive verification (AST->VC, z3/cvc5), inductive state invariant",
    },
    "C11": {
        "category": "proof",
        "text": "Exceptional postcondition 'mutations, history entries and emissions unchanged' proved on every raising symbolic path of the "
                "user-action constructors and of the primitive actions (raises-iff clauses for the primitives).",
        "note": _PROOF_NOTE + "Argument typing (time/track id are ints) is a documented precondition. UserUpdateSegmentation not yet under contract.",
        "technique": "contract-based deductive verification (AST->VC, z3/cvc5), exceptional postconditions with ghost mutation counter",
    },
    "C20": {
        "category": "proof",
        "text": "Ghost emission log: exactly one refresh (carrying the new node for UserAddNode) on every normal top-level exit, none when nested, "
                "refused, or when undo/redo have nothing to do; proved for all paths of the real constructors and Tracks.undo/redo.",
        "note": _PROOF_NOTE + "Connected callbacks are not executed. UserUpdateSegmentation not yet under contract.",
        "technique": "contract-based deductive verification (AST->VC, z3/cvc5), ghost emission log",
    },
}

NOT_APPLICABLE = {
    "C14": "export followed by import is decided by third-party serialisers (pandas.to_csv/read_csv, geff.write/read_to_memory, json, numpy.save, zarr); "
           "a contract pair would have to assume exactly the fidelity it is meant to establish (DESIGN.md section 7, C14)",
}
