"""Per-property claims (level actually reached).  Edited by hand as checks are built."""
_PROOF_NOTE = ("Trusted: pyvc (own VC generator) + z3/cvc5; library models of networkx/numpy (pyvc/tracksmodel.py, conformance-tested "
               "natively); declared heap shape of SolutionTracks; semantics assumptions of DESIGN.md 3.4; ghost forest theory "
               "(lemmas M2', M3 - Lean status in evidence.coverage.lemmas). ")

CHECKS = {
    "C02": {
        "category": "proof",
        "text": "Representation invariant of ActionHistory against a ghost timeline+cursor proved preserved by the real add_new_action/undo/redo "
                "for stacks of every length; Tracks.undo/redo and every user-action constructor (all seven) proved to register exactly one history entry "
                "iff top-level (none when nested or refused).",
        "note": _PROOF_NOTE + "Conditional on C01 (assumed contract of Action.inverse). UserUpdateSegmentation is under contract at the level of abstract world states (contracts/paint.py); its pixel-level behaviour is cross-checked by the exhaustive paint-stroke enumeration.",
        "technique": "contract-based deductive verification (AST->VC, z3/cvc5), ghost timeline invariant",
    },
    "C03": {
        "category": "proof",
        "text": "Forest invariant (in<=1, out<=2, nodes have a time, edges strictly forward) proved preserved on every normal exit of the real "
                "user-action constructors over a fully symbolic graph; primitives used through contracts proved of their bodies.",
        "note": _PROOF_NOTE + "Entry state assumed to satisfy INV (Forest, track-id partition, lookup agreement). UserUpdateSegmentation composes sub-actions that each preserve INV (its own contract is at the level of abstract world states); native paint-stroke enumeration as cross-check.",
        "technique": "contract-based deductive verification (AST->VC, z3/cvc5), inductive state invariant",
    },
    "C11": {
        "category": "proof",
        "text": "Exceptional postcondition 'mutations, history entries and emissions unchanged' proved on every raising symbolic path of the "
                "user-action constructors (all seven; UserUpdateSegmentation with its rollback loop) and of the primitive actions (raises-iff clauses for the primitives).",
        "note": _PROOF_NOTE + "Argument typing (time/track id are ints) is a documented precondition. UserUpdateSegmentation is under contract at the level of abstract world states (contracts/paint.py); its pixel-level behaviour is cross-checked by the exhaustive paint-stroke enumeration. Its rollback on refusal (fix 8860333) is proved to end in the entry world for sub-action lists of every length.",
        "technique": "contract-based deductive verification (AST->VC, z3/cvc5), exceptional postconditions with ghost mutation counter",
    },
    "C20": {
        "category": "proof",
        "text": "Ghost emission log: exactly one refresh (carrying the new node for UserAddNode) on every normal top-level exit, none when nested, "
                "refused, or when undo/redo have nothing to do; proved for all paths of the seven real constructors and Tracks.undo/redo.",
        "note": _PROOF_NOTE + "Connected callbacks are not executed. UserUpdateSegmentation is under contract at the level of abstract world states (contracts/paint.py); its pixel-level behaviour is cross-checked by the exhaustive paint-stroke enumeration.",
        "technique": "contract-based deductive verification (AST->VC, z3/cvc5), ghost emission log",
    },
}

_PB = ("Level 'other' = proved obligations plus named bounded stand-ins (never counted as proved). ")
_MORE = {
    "C01": ("Round trip {INV & documented precondition} A; A.inverse(); inverse-of-inverse restores nodes, edges, registered feature values, segmentation and both "
            "lookups, proved for every primitive (incl. UpdateNodeSeg, with and without segmentation) with the real inverse() methods; 'invertible here' proved at "
            "every primitive call site of the six node/edge user actions; actions list records the applied sub-actions in order; real ActionGroup.inverse proved to "
            "return the reversed list of inverses for every length; composition by Lean lemma M4; UserUpdateSegmentation proved to record a chain of sub-actions from the entry world to the final world. Relabel walk body proved (attributes and lookups). Bounded: which sub-actions a paint stroke needs (exhaustive stroke enumeration).",
            "contract-based deductive verification (AST->VC, z3/cvc5) + Lean lemma M4 + bounded stand-in (walk)"),
    "C04": ("Local clauses T1/T2/has-id preserved by all six node/edge user actions on a symbolic forest; walk preconditions P1/P2 proved at every call site; exact "
            "rewrite 'ids change exactly below the relabelled node'; the relabel walk body proved against its contract (nested loops, ghost frontier); local=>global by Lean M2. "
            "Base case proved: the bulk assignment at construction labels every node with 1 + its component index (graph minus out-edges of dividing nodes), giving T1 and, by the Lean converse lemma, T2. "
            "Bounded: cross-check of walk and bulk assignment on all forests <= 5 (6) nodes.",
            "contract-based deductive verification (inductive invariant, ghost descendant closure) + Lean M2/M2'/M3 + bounded stand-ins"),
    "C05": ("Local clauses L1/L2/has-id/max preserved by all six node/edge user actions (after the repair of three genuine defects); local<=>global by Lean M1. "
            "Walk body proved (lineage rewritten for every node below the start). Base case proved: bulk assignment labels every node with 1 + the index of its weakly connected component (L1; L2 by the Lean converse lemma). "
            "Bounded: cross-check on small forests.", "contract-based deductive verification (inductive invariant, base case and step) + Lean M1 + bounded cross-check"),
    "C06": ("B1 (lookup = nodes carrying the id, as a bag) and B2 (maxima dominate => fresh ids) preserved by every user action; AddNode/DeleteNode bookkeeping proved with "
            "the real helpers inlined; bodies of get_track_neighbors (loop invariant over the lookup list) and has_track_id_at_time proved against their contracts. "
            "The four bookkeeping helpers are proved against bag specifications for node lists of every length, and the relabel walk is proved to re-establish B1 and raise the maxima. "
            "Bounded: cross-check of the queries and of the walk's lookups on all forests <= 5 nodes with every order of the lookup lists. Base case proved: after the bulk assignment the lookups list exactly the nodes per id and the maxima equal the number of ids.",
            "contract-based deductive verification (representation invariant of the lookups, bag model of the lookup lists) + bounded cross-checks"),
    "C07": ("S1/S2 preserved by every primitive (symbolic label video) and the six node/edge user actions; pixel-exact write clauses; inverse restores the array bit for bit. "
            "Bounded: paint-driven UserUpdateSegmentation by seeded random strokes and by every rectangular stroke up to 2x3 on two fixtures (exhaustive).", "contract-based deductive verification over a symbolic label array + bounded stand-in (paint strokes)"),
    "C08": ("Invariant R (stored = RP(attr name, node's mask in its own frame, scale[1:])) for every active key preserved by every primitive and six user actions; "
            "RegionpropsAnnotator.update proved to recompute exactly the active keys of exactly the action's node; the bulk path RegionpropsAnnotator.compute proved for every number of frames, regions and requested keys "
            "(every labelled node gets the measurement of its own mask for every requested active key, nothing else changes). Numeric formulas: assumed skimage model + native oracle.",
            "contract-based deductive verification with uninterpreted measurements (congruence schema) + native numeric oracle"),
    "C09": ("Invariant Q (stored iou = IOU(mask of source in its frame, mask of target in its frame)) preserved by every primitive and six user actions; EdgeAnnotator.update "
            "proved for AddEdge and UpdateNodeSeg; the bulk path (EdgeAnnotator.compute with _iou_update, incl. edges that skip frames) proved for every number of frames, nodes and edges. _compute_ious body and numeric value: assumed contract + native oracle.", "contract-based deductive verification with uninterpreted IoU + native numeric oracle"),
    "C10": ("Protection of time and every annotator key by UpdateNodeAttrs (raises-iff, enabled or not) and 'only active keys are written' by the annotators' update() proved. Switching proved for key lists of "
            "every length: (de)activation sets exactly the given flags, an unknown key raises KeyError with tables and FeatureDict unchanged, enable/disable add/remove exactly the given keys to/from the FeatureDict and request "
            "the bulk computation once iff recompute. "
            "Bounded: the values after enabling with recomputation (bulk compute) and whole interleavings with edits/undo/redo (seeded random).", "contract-based deductive verification (raises-iff, frame on active keys, table transformers with ghost key sets) + bounded stand-in"),
    "C12": ("flatten_name_map (the renaming step every importer goes through) proved for key mappings of every length with None / string / list values: "
            "the result is, in mapping order, exactly one (standard key, source column) pair per string item and one unrenamed (column, column) pair per listed column in the mapped order "
            "(two nested loop invariants over a ghost offset function; its monotonicity by an induction whose step is an obligation). "
            "validate_node_name_map proved: acceptance implies every required key mapped to a non-None value, position mapped or segmentation given, every mapped (also every listed) column present in the source under exactly that name; only ValueError is raised; validate_edge_name_map: the same column clause for edge properties. "
            "Everything else (pandas/geff loading, id renumbering, validation, graph construction) is a BOUNDED STAND-IN, DataFrame/CSV path only: exhaustive small tables incl. malformed variants "
            "(duplicate id, unknown parent, self link, missing column, mapping to a column that exists only in another letter case) vs the source table. GEFF store path not covered.",
            "contract-based deductive verification (nested loop invariants, ghost offset function) of the renaming and mapping-validation steps + bounded stand-in for the pandas path"),
    "C13": ("relabel_segmentation proved for every number of frames, pixels and table rows: nested loop invariants (np.unique over times, items of dict(zip(seg ids, node ids))) give 'source pixels of "
            "(time, seg id) carry node id (+1 iff some id is 0), background elsewhere, input untouched, graph shifted in place exactly once iff id 0'. Bounded: cross-check on every 2x3 array x <=3 detections; "
            "the builder's decision whether to relabel.", "contract-based deductive verification (nested loop invariants over symbolic arrays/columns) + bounded stand-in"),
    "C15": ("filter_graph_with_ancestors proved to return exactly the selection plus all ancestors (loop invariant over the set iteration, symbolic graph; closure/minimality "
            "lemma M5 in Lean). Writers (CSV rows, GEFF subgraph, chunk-wise masking): bounded stand-in on sampled forests/subsets with/without segmentation.",
            "contract-based deductive verification (loop invariant, transitive-closure model) + bounded stand-in for the writers"),
    "C16": ("Frame condition 'modifies nothing reachable from the tracks' decided by a may-alias analysis of the real AST of the exporters, savers and 27 queries (35 obligations), "
            "networkx views/accessors, attribute getters and np.asarray propagate the alias (only copies and freshly built containers are fresh); third-party callees assumed read-only; plus deep-snapshot bounded check.", "static frame analysis of the real AST (may-alias) + bounded stand-in"),
    "C17": ("_match_exact (functional spec), _match_fuzzy (step contract: never overwrites, each consumed column under exactly one new key), _map_remaining_to_self and the bodies of "
            "infer_node_name_map / infer_edge_name_map proved: every column used by exactly one key, a column spelled like a required key or seg_id mapped to it. "
            "The two display-name steps (_match_display_names_exact / _fuzzy, multi-column features included) are proved against the same step contract. build_display_name_mapping proved to produce only keys of the given features. Assumed: difflib / str.lower. "
            "Bounded: end-to-end cross-check with the real difflib on a vocabulary of similar/competing names.",
            "contract-based deductive verification (loop invariants with ghost owner maps; callers checked against step contracts) + bounded cross-check"),
    "C18": ("add_cand_edges proved for every number of frames/detections/gaps: three nested loop invariants give 'edge a->b iff b is in the frame right after a's and within the maximum distance' "
            "(KDTree query and sorted keys assumed as external contracts); nodes_from_segmentation, nodes_from_points_list (no scale) and _compute_node_frame_dict proved to create one node per detection with its time / seg id / "
            "area / centroid and exactly the frame->nodes mapping the edge proof relies on. _get_iou_dict / add_iou proved to give every candidate edge the IoU of its two masks (0 without overlap; _compute_ious assumed). The two composing functions are checked against the callees' contracts (all call-site preconditions discharged) and yield the property's statement. Bounded: multiseg IoU and an end-to-end cross-check on every placement of <=4 points in 4 frames and random label videos.",
            "contract-based deductive verification (nested loop invariants, uninterpreted distance predicate) + bounded stand-in"),
    "C19": ("ensure_unique_labels proved for every number of frames/pixels by a loop invariant over the real loop (both multiseg settings); relabel_segmentation_with_track_id proved for every graph and array: "
            "components are taken of the solution minus out-edges of dividing nodes, every pixel of a node's (time, seg id) carries 1 + its segment index, everything else background, inputs untouched "
            "(networkx copy/remove_edges_from/weakly_connected_components as assumed external contracts). Bounded: cross-check on all forests <= 4 (5) nodes.",
            "contract-based deductive verification (loop invariants over a symbolic label array and graph) + bounded cross-check"),
}
for _k, (_t, _tech) in _MORE.items():
    CHECKS[_k] = {"category": "other", "text": _PB + _t, "note": _PROOF_NOTE + "Bounded stand-ins and assumed contracts are listed in evidence.coverage.bounded_stand_ins / trusted_base.",
                  "technique": _tech}
CHECKS["C17"]["category"] = "proof"
CHECKS["C17"]["text"] = CHECKS["C17"]["text"][len(_PB):]
CHECKS["C17"]["note"] = ("Trusted: pyvc (own VC generator) + z3/cvc5; difflib.get_close_matches returns at most n of the possibilities; str.lower is a function; a list of distinct column names "
                         "is abstracted to its set. Every function of _name_mapping.py that the two pipelines use is under contract; the bounded run is a cross-check.")
CHECKS["C19"]["category"] = "proof"
CHECKS["C19"]["text"] = CHECKS["C19"]["text"][len(_PB):]
CHECKS["C19"]["note"] = ("Trusted: pyvc (own VC generator) + z3/cvc5; numpy label-array model (pyvc/arraymodel.py) and the networkx models of out_degree/copy/"
                         "remove_edges_from/weakly_connected_components (contracts/tracklabel.py); mathematical integers. Both anchored functions are under contract; "
                         "the bounded run is a cross-check, not part of the claim.")
CHECKS["C03"]["category"] = "other"
CHECKS["C03"]["text"] = _PB + CHECKS["C03"]["text"] + " The bodies of the two track-neighbour queries whose contracts the proofs use are proved too (C06 units); bounded cross-check of them on all small forests."
for _k in ("C02", "C11", "C20"):
    CHECKS[_k]["note"] = CHECKS[_k]["note"].replace("UserUpdateSegmentation not yet under contract.", "UserUpdateSegmentation is not under contract (see C07 bounded stand-in).")

NOT_APPLICABLE = {
    "C14": "export followed by import is decided by third-party serialisers (pandas.to_csv/read_csv, geff.write/read_to_memory, json, numpy.save, zarr); "
           "a contract pair would have to assume exactly the fidelity it is meant to establish (DESIGN.md section 7, C14)",
}
