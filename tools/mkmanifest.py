#!/opt/veriftools/pyvenv/bin/python
"""Regenerates MANIFEST.json from the table below (single source of truth), validates it."""
import json
import os
import sys

VERIF = os.path.dirname(os.path.dirname(os.path.abspath(__file__)))
sys.path.insert(0, VERIF)
from tools.manifest_table import CHECKS, NOT_APPLICABLE  # noqa: E402

props = [json.loads(l)["id"] for l in open(os.path.join(VERIF, "properties.jsonl"))]
checks = []
for pid in props:
    if pid not in CHECKS:
        continue
    c = CHECKS[pid]
    checks.append({
        "property_id": pid,
        "quick_cmd": f"./check {pid} --tier quick",
        "thorough_cmd": f"./check {pid} --tier thorough",
        "evidence_file": f"/verif/evidence/{pid}.json",
        "replay_cmd_template": f"./check {pid} --replay {{path}}",
        "engine": "pyvc",
        "level_claimed": {"category": c["category"], "text": c["text"], "design_ref": c.get("design_ref", "DESIGN.md section 7")},
        "level_note": c["note"],
        "technique": c["technique"],
    })
na = [{"property_id": p, "reason": NOT_APPLICABLE.get(p, "check not built yet (build in progress); see DESIGN.md section 7")}
      for p in props if p not in CHECKS]
m = {
    "version": 1,
    "setup_cmd": "./setup.sh",
    "hooks": {
        "guard": "FUNTRACKS_VERIF",
        "enable": "no hooks: contracts are sidecar files under /verif/contracts; /repo is parsed (ast) on every run, never instrumented",
        "baseline_off_cmd": "cd /repo && /venv/bin/python -m pytest -q -p no:cacheprovider --timeout=900",
        "source_commits": [],
        "add_only": True,
    },
    "engines": [{
        "name": "pyvc", "path": "/verif/pyvc", "serves_properties": sorted(CHECKS),
        "kind_free_text": "own deductive verifier: symbolic execution of the real Python AST of /repo/src against sidecar contracts "
                          "(requires/ensures/raises/loop invariants/ghost state), verification conditions discharged by z3 5.1 and cvc5; "
                          "graph-theory bridge lemmas in Lean 4/Mathlib; native harness only for counterexample replay and cross-checks",
    }],
    "checks": checks,
    "notes": "Exit codes of ./check: 0 held / 1 VIOLATION / 2 UNDECIDED (never reported as a violation) / 3 checker crash. "
             "Genuine defects repaired in /repo are listed in known_findings.json under 'fixed'.",
    "not_applicable": na,
}
json.dump(m, open(os.path.join(VERIF, "MANIFEST.json"), "w"), indent=1)
import jsonschema  # noqa: E402
jsonschema.validate(m, json.load(open("/root/.vp/MANIFEST.schema.json")))
print("MANIFEST.json written:", len(checks), "checks,", len(na), "not applicable")
