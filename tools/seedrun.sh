#!/bin/sh
# usage: tools/seedrun.sh <seed id> <property id>...   -- runs the checks against a scratch copy with the seeded patch
id=$1; shift
d=/tmp/seedrun/$id
[ -d $d/src ] || { mkdir -p $d; cp -r /repo/src $d/src; (cd $d && git apply --unsafe-paths -p1 --directory=. /verif/seeded/$id/patch.diff); }
for p in "$@"; do
  PYVC_REPO_SRC=$d/src PYVC_CACHE=$d/cache PYVC_NPROC=6 ./check $p > $d/check_$p.log 2>&1
  echo "$id/$p exit=$?" >> $d/check_$p.log
done
