#!/bin/sh
# Evaluates the seeded changes under seeded/ against scratch copies of /repo/src (one per seed), in parallel.
# usage: tools/seed_eval.sh "C01:C01 C02:C02 C03:C03,C06 ..."   (seed id : comma separated property checks)
here=$(cd "$(dirname "$0")/.." && pwd)
cd "$here"
for spec in $1; do
  id=${spec%%:*}; props=$(echo ${spec#*:} | tr ',' ' ')
  (
    d=/tmp/seedrun/$id
    rm -rf $d; mkdir -p $d; cp -r /repo/src $d/src
    (cd $d && git apply --unsafe-paths -p1 --directory=. "$here/seeded/$id/patch.diff") || echo "PATCH FAILED $id" > $d/status
    for p in $props; do
      PYVC_REPO_SRC=$d/src PYVC_CACHE=$d/cache PYVC_NPROC=4 ./check $p > $d/check_$p.log 2>&1
      echo "$id/$p exit=$?" >> $d/check_$p.log
    done
  ) &
done
wait
for spec in $1; do id=${spec%%:*}; for f in /tmp/seedrun/$id/check_*.log; do echo "== $f"; grep -E "^VIOLATION|^UNDECIDED" $f | cut -c1-220 | sort | uniq -c | head -6; tail -n 2 $f | cut -c1-200; done; done
