#!/bin/sh
# Re-checks the Lean bridge lemmas (theory/lean/Forest.lean): no sorry/axiom, lean exit 0.
cd "$(dirname "$0")/../theory/lean" || exit 1
if grep -nE "\b(sorry|admit|native_decide)\b|^axiom " Forest.lean; then echo "lean: forbidden keyword"; exit 1; fi
lean Forest.lean > lean_check.log 2>&1
rc=$?
if [ $rc -ne 0 ] || grep -q "error" lean_check.log; then echo "lean: FAILED"; cat lean_check.log | head -20; exit 1; fi
echo "lean: Forest.lean checked (exit 0, no sorry)"
