"""TrackAnnotator._handle_update_track_ids - proof of the attribute part of contract K1 (DESIGN.md 5.3).

The real nested loops (BFS by levels with one shared `still_in_tracklet` flag) are verified against
   tid' = \\n. below(start,n) & tid(n) = old ? new : tid(n)
   lid' = \\n. update_lineage & below(start,n) ? new_lid : lid(n)        everything else unchanged
with two inductive invariants (outer `while`, inner `for`) over ghost state:
   Vis            nodes processed so far           FrC / FrX   current-level rest / next level (as sets)
   pc / px        position witnesses tying the ghost sets to the real lists curr_nodes / next_nodes
K1 seen nodes lie below start; visited, FrC, FrX pairwise disjoint      K2 start visited or in the frontier
K3 visited is closed under E up to the frontier                          K4 a seen node other than start has its parent visited
K5/K6 attributes = entry attributes rewritten on Vis                     K7 flag => every visited node had the old id
K8 not flag => no frontier node has the old id                           K9 flag => a level is a single node or holds no old id
At exit the frontier is empty, so Vis is closed under E and contains start; Vis = below(start,.) is lemma M3'
(Lean: closed_set_eq_below).
Lookup half: K10/K11 describe the two node lists the loops collect (as bags); after the loops the real
_update_tracklet_bookkeeping / _update_lineage_bookkeeping are executed with their four leaf helpers used through the
contracts of contracts/bookkeeping.py, and B1 (lookup = nodes per id) plus the raised maxima are proved at exit.
"""
from __future__ import annotations

import z3

from pyvc import theory as T
from pyvc.spec import Contract, LoopSpec
from pyvc.terms import AND, IMP, OR, Bool, Int, Key, Sym, Val, VNone, forall, is_VInt, is_VNone, iv, to_z3
from pyvc.tracksmodel import a_, b_, k_
from pyvc.values import Instance, SymList
from pyvc.verify import call_real, repo

from . import bookkeeping as BK
from . import common as C

TA = "funtracks.annotators._track_annotator.TrackAnnotator"
WALK = f"{TA}._handle_update_track_ids"
j_ = z3.Int("j!w")
n_ = z3.Int("n!w")


class Ghost:
    """ghost state shared by the two loop specifications"""

    def __init__(self, ctx, W, start, old, new, upd, newl):
        self.ctx, self.W = ctx, W
        self.s, self.o, self.nw, self.upd, self.newl = start, old, new, upd, newl
        self.v0 = W.st.v
        self.A0 = W.st.v.A
        self.bel = C.below_of(None, W) if False else None

    def fresh(self, names):
        ctx = self.ctx
        for nm in names:
            if nm in ("Vis", "FrC", "FrX"):
                setattr(self, nm, ctx.fresh_fun(nm, Int, Bool))
            else:
                setattr(self, nm, ctx.fresh_fun(nm, Int, Int))


def k_clauses(G, K, v, Fr, flag, levels):
    """the K invariants for frontier predicate Fr; levels = [(size term, member predicate)] for K9"""
    E, N = v.E, v.N
    s, o = G.s, G.o
    t0 = lambda n: G.A0(n, K.trk)
    bel, Vis = G.bel, G.Vis
    out = [
        ("K1.visited-below-start", forall([n_], IMP(Vis(n_), AND(bel(s, n_), N(n_))))),
        ("K1.frontier-below-start-and-unvisited", forall([n_], IMP(Fr(n_), AND(bel(s, n_), N(n_), z3.Not(Vis(n_)))))),
        ("K2.start-seen", OR(Vis(s), Fr(s))),
        ("K3.visited-closed-up-to-frontier", forall([a_, b_], IMP(AND(Vis(a_), E(a_, b_)), OR(Vis(b_), Fr(b_))))),
        ("K4.parents-of-seen-nodes-visited", forall([n_], IMP(AND(OR(Vis(n_), Fr(n_)), n_ != s), AND(v.idg(n_) == 1, Vis(v.par(n_)))))),
        ("K56.attributes-rewritten-exactly-on-visited",
         forall([a_, k_], v.A(a_, k_) == z3.If(AND(k_ == K.lk, G.upd, Vis(a_)), G.newl,
                                              z3.If(AND(k_ == K.trk, Vis(a_), t0(a_) == o), G.nw, G.A0(a_, k_))))),
        # K7-K9 relate the flag to the old id; they matter (and P1/P2 are assumed) only when the id really changes
        ("K7.flag=>visited-had-old-id", IMP(AND(G.nw != o, flag), forall([n_], IMP(Vis(n_), t0(n_) == o)))),
        ("K8.not-flag=>no-old-id-in-frontier", IMP(AND(G.nw != o, z3.Not(flag)), forall([n_], IMP(Fr(n_), t0(n_) != o)))),
    ]
    for idx, (size, mem) in enumerate(levels):
        out.append((f"K9.flag=>level{idx}-single-or-no-old-id", IMP(AND(G.nw != o, flag), OR(size <= 1, forall([n_], IMP(mem(n_), t0(n_) != o))))))
    return out


def bag_clauses(G, K, fr):
    """K10/K11: the two node lists handed to the bookkeeping helpers, as bags"""
    bT, bL = fr.env["tracklet_nodes"], fr.env["lineage_nodes"]
    t0 = lambda n: G.A0(n, K.trk)
    return [
        ("K10.tracklet-nodes-are-visited-nodes-with-the-old-id-each-once",
         AND(bT.n >= 0, forall([n_], AND(bT.bag(n_) >= 0, bT.bag(n_) <= 1, IMP(bT.bag(n_) == 1, AND(G.Vis(n_), t0(n_) == G.o)))))),
        ("K10.every-relabelled-node-is-listed", IMP(G.nw != G.o, forall([n_], IMP(AND(G.Vis(n_), t0(n_) == G.o), bT.bag(n_) == 1)))),
        ("K11.lineage-nodes-are-the-visited-nodes-each-once-iff-lineage-is-updated",
         AND(bL.n >= 0, forall([n_], bL.bag(n_) == z3.If(AND(G.upd, G.Vis(n_)), 1, 0)))),
    ]


def fresh_bags(I, fr):
    for nm in ("tracklet_nodes", "lineage_nodes"):
        fr.env[nm] = BK.BagList.fresh(I.ctx, nm)


def link(name, L, lo, mem, pos):
    """the ghost set `mem` is exactly the elements L[lo..], without repetition (pos = index witness)"""
    return [
        (f"link.{name}.elements-in-set", forall([j_], IMP(AND(j_ >= lo, j_ < L.n), AND(mem(L.get(j_).e), pos(L.get(j_).e) == j_)))),
        (f"link.{name}.set-in-elements", forall([n_], IMP(mem(n_), AND(pos(n_) >= lo, pos(n_) < L.n, L.get(pos(n_)).e == n_)))),
    ]


_dummy = z3.Function("dummy!walk", Int, Int)


def as_list(I, v):
    if isinstance(v, list) and not v:
        return SymList(z3.IntVal(0), lambda i: Sym(_dummy(i)), elem_sort=Int)
    return I.to_symseq(v)


def flag_term(fr):
    f = fr.env["still_in_tracklet"]
    return f.e if isinstance(f, Sym) else z3.BoolVal(bool(f))


class OuterLoop(LoopSpec):
    props = ("C04", "C05", "C01")
    list_sorts = {"curr_nodes": Int, "next_nodes": Int}

    def __init__(self, G):
        self.G = G

    def enter(self, I, fr, it):
        G = self.G
        s = G.s
        for nm in ("tracklet_nodes", "lineage_nodes"):
            if not isinstance(fr.env[nm], BK.BagList):
                fr.env[nm] = BK.BagList.empty(I.ctx)
        # initially nothing is visited and the frontier is [start]
        G.Vis = lambda n: z3.BoolVal(False)
        G.FrC = lambda n: n == s
        G.pc = lambda n: z3.IntVal(0)
        G.FrX = lambda n: z3.BoolVal(False)
        G.px = lambda n: z3.IntVal(0)

    def havoc(self, I, fr, it, i, assigned):
        # lists mutated through append/extend are modified although never assigned
        super().havoc(I, fr, it, i, assigned)
        fresh_bags(I, fr)
        I.ctx.state.havoc(I.ctx, ["A"])
        self.G.fresh(["Vis", "FrC", "pc"])
        self.G.FrX = lambda n: z3.BoolVal(False)

    def inv(self, I, fr, it, i):
        G = self.G
        Cl = as_list(I, fr.env["curr_nodes"])
        v = I.ctx.state.v
        return link("curr", Cl, z3.IntVal(0), G.FrC, G.pc) + \
            k_clauses(G, G.W.K, v, G.FrC, flag_term(fr), [(Cl.n, G.FrC)]) + bag_clauses(G, G.W.K, fr)

    def ghost_step(self, I, fr, it, i):
        # curr_nodes = next_nodes: the next level becomes the current one
        G = self.G
        G.FrC, G.pc = G.FrX, G.px
        G.FrX = lambda n: z3.BoolVal(False)

    def at_exit(self, I, fr, it):
        # M3' (Lean closed_set_eq_below, superset direction): a set that contains start and is closed under E
        # contains every descendant of start
        G = self.G
        v = I.ctx.state.v
        I.ctx.assume(IMP(AND(G.Vis(G.s), forall([a_, b_], IMP(AND(G.Vis(a_), v.E(a_, b_)), G.Vis(b_)))),
                         forall([n_], IMP(G.bel(G.s, n_), G.Vis(n_)))), "lemma.M3'")


class InnerLoop(LoopSpec):
    props = ("C04", "C05", "C01")
    list_sorts = {"next_nodes": Int}

    def __init__(self, G):
        self.G = G

    def enter(self, I, fr, it):
        self.Cl = it  # curr_nodes is not assigned inside the inner loop
        self.G.FrX = lambda n: z3.BoolVal(False)
        self.G.px = lambda n: z3.IntVal(0)

    def havoc(self, I, fr, it, i, assigned):
        super().havoc(I, fr, it, i, (assigned | {"next_nodes"}) - {"curr_nodes"})
        fresh_bags(I, fr)
        I.ctx.state.havoc(I.ctx, ["A"])
        self.G.fresh(["Vis", "FrC", "FrX", "px"])
        # pc is not changed by the inner loop (positions in curr_nodes)

    def inv(self, I, fr, it, i):
        G = self.G
        X = as_list(I, fr.env["next_nodes"])
        v = I.ctx.state.v
        Fr = lambda n: OR(G.FrC(n), G.FrX(n))
        rest = it.n - i
        return link("curr", it, i, G.FrC, G.pc) + link("next", X, z3.IntVal(0), G.FrX, G.px) + \
            [("K1.levels-disjoint", forall([n_], z3.Not(AND(G.FrC(n_), G.FrX(n_)))))] + \
            k_clauses(G, G.W.K, v, Fr, flag_term(fr), [(z3.If(i == 0, it.n, z3.IntVal(0)), G.FrC), (X.n, G.FrX)]) + \
            [("K9.flag-and-progress=>current-level-was-single", IMP(AND(G.nw != G.o, flag_term(fr), i > 0), it.n <= 1)),
             ("next-level-empty-at-level-start", IMP(i == 0, X.n == 0))] + bag_clauses(G, G.W.K, fr)

    def ghost_step(self, I, fr, it, i):
        G = self.G
        v = I.ctx.state.v
        n = it.get(i).e
        Vis0, FrC0, FrX0, px0 = G.Vis, G.FrC, G.FrX, G.px
        X = as_list(I, fr.env["next_nodes"])
        base = X.n - v.od(n)  # length of next_nodes before the successors of n were appended
        G.Vis = lambda m: OR(Vis0(m), m == n)
        G.FrC = lambda m: AND(FrC0(m), m != n)
        G.FrX = lambda m: OR(FrX0(m), v.E(n, m))
        G.px = lambda m: z3.If(AND(v.E(n, m), z3.Not(FrX0(m))), base + z3.If(m == v.c1(n), 0, 1), px0(m))


class BookkeepingStub(Contract):
    """_update_tracklet_bookkeeping / _update_lineage_bookkeeping: bounded stand-in (native/walk_bounded.py);
    here they only havoc the lookups and maxima"""

    def __init__(self, W, name):
        self.W = W
        self.qualname = f"{TA}.{name}"

    def apply(self, I, args, kw):
        C.havoc_components(I, self.W, ["T2N", "maxT"] if "tracklet" in self.qualname else ["L2N", "maxL"])
        return None


class WalkBody(Contract):
    qualname = WALK
    props = ("C04", "C05", "C01")

    def run(self, I, cfg):
        ctx = I.ctx
        W = C.world(I, has_seg=False, inv=("forest",))
        K, v0 = W.K, W.st.v
        start = ctx.fresh("start", Int)
        old = T.tid(v0, K, start)
        new = ctx.fresh("new_tid", Val)
        newl = ctx.fresh("new_lid", Val)
        ctx.assume(AND(is_VInt(new), OR(is_VInt(newl), is_VNone(newl))))
        bel = C.below_of(I, W)
        tidf = lambda n: T.tid(v0, K, n)
        # requires of contract K1
        ctx.assume(v0.N(start))
        ctx.assume(forall([a_], IMP(v0.N(a_), z3.Not(is_VNone(tidf(a_))))))  # every node has a track id
        ctx.assume(OR(new == old, AND(
            forall([a_, b_], IMP(AND(bel(start, a_), v0.E(a_, b_), tidf(a_) == old, tidf(b_) == old), v0.od(a_) == 1)),   # P1
            forall([a_, b_], IMP(AND(bel(start, a_), v0.E(a_, b_), tidf(a_) != old), tidf(b_) != old)))))                # P2
        same = ctx.fresh("keeps_id", Bool)
        upd = AND(z3.Not(is_VNone(newl)), W.act["lineage"])
        G = Ghost(ctx, W, start, old, new, upd, newl)
        G.bel = bel
        acls = repo().get_class("funtracks.actions.update_track_id.UpdateTrackIDs")
        action = Instance(acls, {"tracks": W.tracks, "start_node": Sym(start), "old_tracklet_id": Sym(old), "new_tracklet_id": Sym(new),
                                 "new_lineage_id": Sym(newl), "old_lineage_id": Sym(T.lid(v0, K, start))})
        ctx.loopspecs[(WALK, 0)] = OuterLoop(G)
        ctx.loopspecs[(WALK, 1)] = InnerLoop(G)
        # lookup half of contract K1: the lookups agree with the graph at entry (B1) ...
        cT, cL = W.ta.fields["tracklet_id_to_nodes"], W.ta.fields["lineage_id_to_nodes"]
        for lbl, f in T.B1(v0, K, cT, "trk"):
            ctx.assume(f, "pre." + lbl)
        for lbl, f in T.B1(v0, K, cL, "lin"):
            ctx.assume(IMP(upd, f), "pre." + lbl)
        # ... and the subtree below start carries one lineage id, which is the action's old_lineage_id
        ctx.assume(IMP(upd, forall([a_], IMP(bel(start, a_), T.lid(v0, K, a_) == T.lid(v0, K, start)))), "pre.one-lineage-id-below-start")
        mT0, mL0 = W.maxT(), W.maxL()
        snapL0 = cL.snapshot()
        # the two _update_*_bookkeeping bodies are executed; the four leaf helpers are used through their contracts
        # (proved of their real bodies for node lists of every length in contracts/bookkeeping.py)
        BK.install(I)
        s0 = C.Snap(W, I)
        out = call_real(I, WALK, [W.ta, action])
        q = "_handle_update_track_ids"
        if out[0] != "return":
            ctx.oblige(f"{q}/no-exception", False, props=self.props)
            return out
        v1 = W.st.v
        below = lambda n: bel(start, n)
        # when new == old the walk rewrites old ids by the same value: the formula below still describes it
        ctx.oblige(f"{q}/ensures:track-ids-rewritten-exactly-below-start",
                   forall([a_], v1.A(a_, K.trk) == z3.If(AND(below(a_), tidf(a_) == old), new, tidf(a_))), props=("C04", "C01"))
        ctx.oblige(f"{q}/ensures:lineage-ids-rewritten-for-every-node-below-start-iff-lineage-enabled",
                   forall([a_], v1.A(a_, K.lk) == z3.If(AND(upd, below(a_)), newl, v0.A(a_, K.lk))), props=("C05", "C01", "C10"))
        ctx.oblige(f"{q}/ensures:other-attributes-unchanged",
                   forall([a_, k_], IMP(AND(k_ != K.trk, k_ != K.lk), v1.A(a_, k_) == v0.A(a_, k_))), props=("C04", "C16"))
        s1 = C.Snap(W, I)
        for lbl, f in C.unchanged(s0, s1, ["N", "E", "Ae"]):
            ctx.oblige(f"{q}/ensures:{lbl}", f, props=("C04", "C03"))
        # lookup half of contract K1
        P6 = ("C06", "C01", "C04")
        same_objs = W.ta.fields["tracklet_id_to_nodes"] is cT and W.ta.fields["lineage_id_to_nodes"] is cL
        ctx.oblige(f"{q}/ensures:lookup-objects-kept", z3.BoolVal(same_objs), props=P6)
        for lbl, f in T.B1(v1, K, cT, "trk"):
            ctx.oblige(f"{q}/ensures:{lbl}(track-lookup-lists-exactly-the-nodes-per-id-again)", f, props=P6)
        ctx.oblige(f"{q}/ensures:max-tracklet-id-raised-to-the-new-id", W.maxT() == z3.If(iv(new) > mT0, iv(new), mT0), props=P6)
        for lbl, f in T.B1(v1, K, cL, "lin"):
            ctx.oblige(f"{q}/ensures:{lbl}(lineage-lookup-agrees-again-when-lineage-is-updated)", IMP(upd, f), props=("C06", "C01", "C05"))
        ctx.oblige(f"{q}/ensures:lineage-lookup-untouched-when-lineage-is-not-updated", IMP(z3.Not(upd), C.same_cache(snapL0, cL.snapshot())), props=("C06", "C05"))
        ctx.oblige(f"{q}/ensures:max-lineage-id-raised-iff-lineage-is-updated", W.maxL() == z3.If(AND(upd, iv(newl) > mL0), iv(newl), mL0), props=("C06", "C05"))
        return out


def units():
    from pyvc.verify import Unit
    return [Unit(WalkBody())]
