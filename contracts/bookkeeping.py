"""C06 - the bookkeeping helpers of TrackAnnotator on node lists of every length.

A node list handed to the helpers (tracklet_nodes / lineage_nodes collected by the relabel walk) is a BagList:
bag(n) = multiplicity of n, length; it can be appended to and - when no node occurs twice - iterated in some order.
The lookups are the bag model of pyvc/tracksfactory.py (key(i), cnt(i, n), ln(i)).

Leaf helper contracts (proved of the real bodies below, used at their call sites inside the walk):
  _remove_from_{tracklet,lineage}_bookkeeping(nodes, id)   requires bag <= 1
        id is no key: nothing changes (the code warns)
        else  cnt'(i,n) = cnt(i,n) - [i = id and bag(n) > 0 and cnt(id,n) > 0];  key'(i) = key(i) and not (i = id and list empty)
  _add_to_tracklet_bookkeeping(nodes, id)   cnt'(i,n) = cnt(i,n) + [i = id] * bag(n);  key' = key + {id};  max' = max(max, id)
  _add_to_lineage_bookkeeping(nodes, id)    requires bag <= 1
        cnt'(i,n) = (i = id and bag(n) > 0 and cnt(id,n) = 0) ? 1 : cnt(i,n);  key' = key + {id};  max' = max(max, id)
"""
from __future__ import annotations

import z3

from pyvc.core import Unsupported
from pyvc.spec import Contract, LoopSpec
from pyvc.terms import AND, IMP, OR, Bool, Int, Sym, Val, forall, iv, to_z3
from pyvc.tracksfactory import CacheList, CacheModel
from pyvc.values import Instance, ModelObj, SymList
from pyvc.verify import call_real, repo

TA = "funtracks.annotators._track_annotator.TrackAnnotator"
i_, n_, j_ = z3.Ints("i!k n!k j!k")


class BagList(ModelObj):
    """an append-only list of nodes as a bag: bag(n) multiplicity, n = length"""

    type_names = ("list",)

    def __init__(self, ctx, bag=None, n=None, name="nodes"):
        self.ctx = ctx
        self.bag = bag if bag is not None else ctx.fresh_fun(name + "_bag", Int, Int)
        self.n = n if n is not None else ctx.fresh(name + "_len", Int)
        self._enum = None

    @staticmethod
    def empty(ctx):
        b = BagList(ctx, n=z3.IntVal(0))
        ctx.assume(forall([n_], b.bag(n_) == 0))
        return b

    @staticmethod
    def fresh(ctx, name="nodes"):
        b = BagList(ctx, name=name)
        b.facts()
        return b

    def facts(self):
        ctx = self.ctx
        w = ctx.fresh("some_node", Int)
        ctx.assume(AND(self.n >= 0, forall([n_], self.bag(n_) >= 0)), "bag")
        ctx.assume(forall([n_], IMP(self.bag(n_) > 0, self.n > 0)), "bag")
        ctx.assume(IMP(self.n > 0, self.bag(w) > 0), "bag")

    def do_append(self, I, x):
        xe = to_z3(x, Int)
        old = self.bag
        self.bag = self.ctx.fresh_fun("nodes_bag", Int, Int)
        self.ctx.assume(forall([n_], self.bag(n_) == old(n_) + z3.If(n_ == xe, 1, 0)))
        self.n = z3.simplify(self.n + 1)
        self._enum = None

    def m_len(self, I):
        return Sym(self.n)

    def m_truthy(self, I):
        return I.ctx.branch(self.n > 0, "node list non-empty")

    def m_iter(self, I):
        """an enumeration of the bag - only meaningful when no node occurs twice (guarded by that condition)"""
        if self._enum is None:
            ctx = self.ctx
            seq = ctx.fresh_fun("nodes_seq", Int, Int)
            pos = ctx.fresh_fun("nodes_pos", Int, Int)
            nodup = forall([n_], self.bag(n_) <= 1)
            ctx.assume(IMP(nodup, forall([j_], IMP(AND(j_ >= 0, j_ < self.n), AND(self.bag(seq(j_)) > 0, pos(seq(j_)) == j_)))), "bag.order")
            ctx.assume(IMP(nodup, forall([n_], IMP(self.bag(n_) > 0, AND(pos(n_) >= 0, pos(n_) < self.n, seq(pos(n_)) == n_)))), "bag.order")
            self._enum = (seq, pos)
        seq, pos = self._enum
        out = SymList(self.n, lambda j: Sym(seq(j)), elem_sort=Int)
        out.pos, out.baglist = pos, self
        return out


def cache_extend_bag(cl: CacheList, nodes):
    """cache[id].extend(nodes) for a BagList"""
    if not isinstance(nodes, BagList):
        raise Unsupported("cache list extend with this value")
    c, i, ctx = cl.c, cl.i, nodes.ctx
    oc, ol = c.cnt, c.ln
    a, m = z3.Ints("a!x m!x")
    c.cnt = ctx.fresh_fun(c.name + "_cnt", Int, Int, Int)
    c.ln = ctx.fresh_fun(c.name + "_len", Int, Int)
    ctx.assume(forall([a, m], c.cnt(a, m) == oc(a, m) + z3.If(a == i, nodes.bag(m), 0)))
    ctx.assume(forall([a], c.ln(a) == ol(a) + z3.If(a == i, nodes.n, 0)))
    c.facts(ctx)
    ctx.ghost["muts"] = ctx.ghost.get("muts", 0) + 1


# ------------------------------------------------------------------------------------------------ specifications
def remove_spec(c0, c1, bag, idt):
    """(key0,cnt0,ln0) -> (key1,cnt1,ln1) of _remove_from_*_bookkeeping"""
    k0, n0, _ = c0
    k1, n1, _ = c1
    took = lambda i, n: AND(i == idt, bag(n) > 0, n0(idt, n) > 0)
    return [
        ("id-not-a-key=>nothing-changes", IMP(z3.Not(k0(idt)), AND(forall([i_], k1(i_) == k0(i_)), forall([i_, n_], n1(i_, n_) == n0(i_, n_))))),
        ("listed-nodes-removed-once-from-the-id's-list", IMP(k0(idt), forall([i_, n_], n1(i_, n_) == n0(i_, n_) - z3.If(took(i_, n_), 1, 0)))),
        ("key-dropped-iff-its-list-became-empty", IMP(k0(idt), forall([i_], k1(i_) == AND(k0(i_), z3.Not(AND(i_ == idt, forall([n_], n1(idt, n_) == 0))))))),
    ]


def add_tracklet_spec(c0, c1, bag, idt, m0, m1):
    k0, n0, _ = c0
    k1, n1, _ = c1
    return [
        ("nodes-added-to-the-id's-list", forall([i_, n_], n1(i_, n_) == n0(i_, n_) + z3.If(i_ == idt, bag(n_), 0))),
        ("id-is-a-key", forall([i_], k1(i_) == OR(k0(i_), i_ == idt))),
        ("maximum-raised", m1 == z3.If(idt > m0, idt, m0)),
    ]


def add_lineage_spec(c0, c1, bag, idt, m0, m1):
    k0, n0, _ = c0
    k1, n1, _ = c1
    return [
        ("absent-nodes-added-once", forall([i_, n_], n1(i_, n_) == z3.If(AND(i_ == idt, bag(n_) > 0, n0(idt, n_) == 0), 1, n0(i_, n_)))),
        ("id-is-a-key", forall([i_], k1(i_) == OR(k0(i_), i_ == idt))),
        ("maximum-raised", m1 == z3.If(idt > m0, idt, m0)),
    ]


HELPERS = {
    "_remove_from_tracklet_bookkeeping": ("tracklet_id_to_nodes", None, "remove"),
    "_remove_from_lineage_bookkeeping": ("lineage_id_to_nodes", None, "remove"),
    "_add_to_tracklet_bookkeeping": ("tracklet_id_to_nodes", "max_tracklet_id", "add_tracklet"),
    "_add_to_lineage_bookkeeping": ("lineage_id_to_nodes", "max_lineage_id", "add_lineage"),
}


def spec_of(kind, c0, c1, bag, idt, m0, m1):
    if kind == "remove":
        return remove_spec(c0, c1, bag, idt)
    if kind == "add_tracklet":
        return add_tracklet_spec(c0, c1, bag, idt, m0, m1)
    return add_lineage_spec(c0, c1, bag, idt, m0, m1)


# ------------------------------------------------------------------------------------------------ loop invariants
class RemoveLoop(LoopSpec):
    """for node in nodes: if node in cache[id]: cache[id].remove(node)   (k nodes handled)"""

    props = ("C06", "C01")

    def __init__(self, cache, idt, c0):
        self.cache, self.idt, self.c0 = cache, idt, c0

    def havoc(self, I, fr, it, i, assigned):
        fr.env.pop("node", None)
        self.cache.havoc(I.ctx)

    def inv(self, I, fr, it, k):
        c, idt = self.cache, self.idt
        k0, n0, _ = self.c0
        bag, pos = it.baglist.bag, it.pos
        return [("keys-unchanged-inside-the-loop", forall([i_], c.key(i_) == k0(i_))),
                ("first-k-listed-nodes-removed-once", forall([i_, n_], c.cnt(i_, n_) == n0(i_, n_) - z3.If(AND(i_ == idt, bag(n_) > 0, pos(n_) < k, n0(idt, n_) > 0), 1, 0)))]


class AddLineageLoop(LoopSpec):
    """for node in nodes: if node not in cache[id]: cache[id].append(node)"""

    props = ("C06", "C01")

    def __init__(self, cache, idt, c0):
        self.cache, self.idt, self.c0 = cache, idt, c0

    def enter(self, I, fr, it):
        self.c_entry = self.cache.snapshot()  # after the possible `cache[id] = []`

    def havoc(self, I, fr, it, i, assigned):
        fr.env.pop("node", None)
        self.cache.havoc(I.ctx)

    def inv(self, I, fr, it, k):
        c, idt = self.cache, self.idt
        k0, n0, _ = self.c_entry
        bag, pos = it.baglist.bag, it.pos
        return [("keys-unchanged-inside-the-loop", forall([i_], c.key(i_) == k0(i_))),
                ("first-k-absent-nodes-added-once", forall([i_, n_], c.cnt(i_, n_) == z3.If(AND(i_ == idt, bag(n_) > 0, pos(n_) < k, n0(idt, n_) == 0), 1, n0(i_, n_))))]


# ------------------------------------------------------------------------------------------------ contracts
def annotator(ctx):
    cls = repo().get_class(TA)
    cT, cL = CacheModel(ctx, "T2N"), CacheModel(ctx, "L2N")
    mT, mL = ctx.fresh("maxT", Int), ctx.fresh("maxL", Int)
    ta = Instance(cls, {"tracklet_id_to_nodes": cT, "lineage_id_to_nodes": cL, "max_tracklet_id": Sym(mT), "max_lineage_id": Sym(mL)})
    return ta


class Helper(Contract):
    props = ("C06", "C01")

    def __init__(self, fn):
        self.fn = fn
        self.qualname = f"{TA}.{fn}"

    # verification form: the real body against the specification
    def run(self, I, cfg):
        ctx = I.ctx
        ctx.ghost.setdefault("muts", 0)
        I.cache_extend_symbolic = cache_extend_bag
        field, mfield, kind = HELPERS[self.fn]
        ta = annotator(ctx)
        cache = ta.fields[field]
        nodes = BagList.fresh(ctx)
        if kind != "add_tracklet":
            ctx.assume(forall([n_], nodes.bag(n_) <= 1), "pre.no-node-twice")
        idt = ctx.fresh("id", Int)
        c0 = cache.snapshot()
        m0 = to_z3(ta.fields[mfield], Int) if mfield else None
        other = ta.fields["lineage_id_to_nodes" if field.startswith("tracklet") else "tracklet_id_to_nodes"]
        o0 = other.snapshot()
        if kind == "remove":
            ctx.loopspecs[(self.qualname, 0)] = RemoveLoop(cache, idt, c0)
        elif kind == "add_lineage":
            ctx.loopspecs[(self.qualname, 0)] = AddLineageLoop(cache, idt, c0)
        out = call_real(I, self.qualname, [ta, nodes, Sym(idt)], {})
        q = self.fn
        if out[0] != "return":
            ctx.oblige(f"C06/{q}/no-exception", False, props=self.props, note=str(out[1]))
            return out
        m1 = to_z3(ta.fields[mfield], Int) if mfield else None
        for lbl, f in spec_of(kind, c0, cache.snapshot(), nodes.bag, idt, m0, m1):
            ctx.oblige(f"C06/{q}/ensures:{lbl}", f, props=self.props)
        same_other = other.snapshot()[0] is o0[0] and other.snapshot()[1] is o0[1]
        ctx.oblige(f"C06/{q}/ensures:the-other-lookup-and-both-field-objects-untouched",
                   z3.BoolVal(same_other and ta.fields[field] is cache), props=self.props)
        return out

    # call-site form
    def apply(self, I, args, kw):
        ctx = I.ctx
        ta, nodes, idv = args
        field, mfield, kind = HELPERS[self.fn]
        cache = ta.fields[field]
        if not isinstance(nodes, BagList):
            raise Unsupported("bookkeeping helper on a concrete node list (inline the real body instead)")
        idt = to_z3(idv, Int)
        tag = f"call:{I.call_site_id(self.fn)}"
        if kind != "add_tracklet":
            ctx.oblige(f"{tag}/requires:no-node-twice", forall([n_], nodes.bag(n_) <= 1), kind="pre", props=self.props)
        c0 = cache.snapshot()
        m0 = to_z3(ta.fields[mfield], Int) if mfield else None
        cache.havoc(ctx)
        m1 = None
        if mfield:
            m1 = ctx.fresh(mfield, Int)
            ta.fields[mfield] = Sym(m1)
        for lbl, f in spec_of(kind, c0, cache.snapshot(), nodes.bag, idt, m0, m1):
            ctx.assume(f, "cache." + cache.name)
        ctx.ghost["muts"] = ctx.ghost.get("muts", 0) + 1
        return None


def units():
    from pyvc.verify import Unit
    return [Unit(Helper(fn), {}) for fn in HELPERS]


def install(I):
    """use the leaf helpers through their contracts (callers with symbolic node lists: the relabel walk)"""
    I.cache_extend_symbolic = cache_extend_bag
    for fn in HELPERS:
        c = Helper(fn)
        I.ctx.contracts[c.qualname] = c
