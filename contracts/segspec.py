"""Segmentation-related clauses of the primitive contracts (C07, C08, C09) and the seg invariants.

S1  every node labels at least one pixel of its own frame          (witness: pixwit)
S2  every non-zero label belongs to a node and sits in that node's frame
R   active regionprops key k:  A(n,k) = RP[Seg](rpname(k), time(n), n, spacing)   (normalised as the code stores it)
Q   iou active:                Ae(a,b,iou) = IOU[Seg](time(a), a, time(b), b)
"""
from __future__ import annotations

import z3

from pyvc import theory as T
from pyvc.segmodel import PixCore, PixSet, as_pixcore, rp_fun
from pyvc.terms import AND, IMP, OR, Bool, Int, Key, Pix, Sym, Val, VInt, VNone, forall, is_VNone, iv, lit, to_z3
from pyvc.tracksmodel import a_, b_, k_

from . import common as C

p_ = z3.Const("p!q", Pix)
t_ = z3.Int("t!q")
is_tuple = z3.Function("is_tuple", Val, Bool)


def stored(e):
    """what _regionprops_update stores for a measured value: tuples become lists, then _set_node_attr's normalisation"""
    return C.norm_val(z3.If(is_tuple(e), C.tolist(e), e))


def rp_keys(W):
    """[(key term, active flag, regionprops attribute atom)] of the RegionpropsAnnotator of this world"""
    out = []
    names = {str(k.e) if isinstance(k, Sym) else k: v for k, v in W.rp.fields["regionprops_names"].items}
    for k, (feat, act) in W.rp.fields["all_features"].items:
        ke = to_z3(k, Key)
        nm = names[str(k.e) if isinstance(k, Sym) else k]
        out.append((ke, to_z3(act, Bool), lit(nm) if isinstance(nm, str) else to_z3(nm, Key)))
    return out


def spacing_term(W):
    sc = W.scale
    return z3.If(sc.is_none, VNone, W.spacing_tuple)


def R_value(ctx, W, v, k, rpn, n):
    _, rp, _, _ = rp_fun(ctx, v.Seg)
    return stored(rp(rpn, T.tm(v, W.K, n), n, spacing_term(W)))


def S_invariants(ctx, W, v):
    K = W.K
    wit = ctx.fresh_fun("pixwit", Int, Pix)
    return [
        ("C07.S1", forall([a_], IMP(v.N(a_), v.Seg(T.tm(v, K, a_), wit(a_)) == a_))),
        ("C07.S2", forall([t_, p_], IMP(v.Seg(t_, p_) != 0, AND(v.N(v.Seg(t_, p_)), T.tm(v, K, v.Seg(t_, p_)) == t_)))),
        ("C07.zero-is-background", z3.Not(v.N(0))),
    ]


def S_goals(W, v):
    """S1 with an existential (for obligations), S2"""
    K = W.K
    return [
        ("C07.S1", forall([a_], IMP(v.N(a_), z3.Exists([p_], v.Seg(T.tm(v, K, a_), p_) == a_))), ("C07",)),
        ("C07.S2", forall([t_, p_], IMP(v.Seg(t_, p_) != 0, AND(v.N(v.Seg(t_, p_)), T.tm(v, K, v.Seg(t_, p_)) == t_))), ("C07",)),
        ("C07.zero-is-background", z3.Not(v.N(0)), ("C07",)),
    ]


def R_clauses(ctx, W, v):
    out = []
    for ke, act, rpn in rp_keys(W):
        out.append((f"C08.R[{rpn}]", forall([a_], IMP(AND(v.N(a_), act), v.A(a_, ke) == R_value(ctx, W, v, ke, rpn, a_))), ("C08",)))
    return out


def Q_clause(ctx, W, v):
    _, _, io, _ = rp_fun(ctx, v.Seg)
    K = W.K
    return [("C09.Q", forall([a_, b_], IMP(AND(v.E(a_, b_), W.act["iou"]),
                                          v.Ae(a_, b_, W.iou_key) == io(T.tm(v, K, a_), a_, T.tm(v, K, b_), b_))), ("C09",))]


# ---------------------------------------------------------------------------------- AddNode
def add_node_requires(W, s0, env):
    core = as_pixcore(env["pixels"])
    has, at = C.dict_view(env["attributes"])
    node = to_z3(env["node"], Int)
    K = W.K
    return [
        ("pixels-lie-in-the-node's-frame", IMP(has(K.tk), core.t == iv(C.norm_val(at(K.tk)))), ("C07", "C01")),
        ("paints-onto-background(documented)", forall([p_], IMP(core.mem(p_), s0.v.Seg(core.t, p_) == 0)), ("C07", "C01")),
        ("node-id-is-not-the-background-label", node != 0, ("C07",)),
        ("node-is-new", z3.Not(s0.v.N(node)), ("C07",)),
        ("at-least-one-pixel", z3.Exists([p_], core.mem(p_)), ("C07",)),
        ("time-is-given", has(K.tk), ("C07",)),
    ]


def add_node_seg(W, s0, s1, env, node):
    px = env.get("pixels")
    if px is None:
        return [(lbl, f, ("C07", "C01")) for lbl, f in C.unchanged(s0, s1, ["Seg"])]
    core = as_pixcore(px)
    return [("pixels-set-to-the-node-id", forall([t_, p_], s1.v.Seg(t_, p_) == z3.If(AND(t_ == core.t, core.mem(p_)), node, s0.v.Seg(t_, p_))), ("C07", "C01"))]


def add_node_attrs(W, s0, s1, env, node, ctx):
    """A' including the regionprops recomputation for the new node (incremental path)"""
    keys = rp_keys(W)
    v1 = s1.v
    K = W.K

    def clauses(has, at):
        _, rp, _, _ = rp_fun(ctx, v1.Seg)
        # node's mask in the new array is empty?  (then the annotator stores None)
        empty = forall([p_], v1.Seg(T.tm(v1, K, node), p_) != node)
        base = lambda a, k: z3.If(AND(a == node, has(k)), C.norm_val(at(k)), s0.v.A(a, k))
        expr = base(a_, k_)
        for ke, act, rpn in reversed(keys):
            val = z3.If(empty, VNone, stored(rp(rpn, iv(base(node, K.tk)), node, spacing_term(W))))
            expr = z3.If(AND(a_ == node, k_ == ke, act), val, expr)
        return [("attrs-of-node-set-and-measurements-recomputed", forall([a_, k_], v1.A(a_, k_) == expr), ("C01", "C08"))]
    return clauses


# ---------------------------------------------------------------------------------- DeleteNode
def pixels_of(W, s0, node):
    t = T.tm(s0.v, W.K, node)
    Seg0 = s0.v.Seg
    return PixSet.of(t, lambda p: Seg0(t, p) == node)


def delete_node_seg(W, s0, s1, env, node):
    px = env.get("pixels")
    core = as_pixcore(px) if px is not None else as_pixcore(pixels_of(W, s0, node))
    return [("pixels-set-to-background", forall([t_, p_], s1.v.Seg(t_, p_) == z3.If(AND(t_ == core.t, core.mem(p_)), 0, s0.v.Seg(t_, p_))), ("C07", "C01"))]


# ---------------------------------------------------------------------------------- AddEdge
def add_edge_iou(W, s0, s1, u, w, ctx):
    K = W.K

    def clauses(has, at):
        v0, v1 = s0.v, s1.v
        _, _, io, ov = rp_fun(ctx, v0.Seg)
        val = io(T.tm(v0, K, u), u, T.tm(v0, K, w), w)
        base = z3.If(AND(a_ == u, b_ == w, has(k_)), at(k_), v0.Ae(a_, b_, k_))
        expr = z3.If(AND(a_ == u, b_ == w, k_ == W.iou_key, W.act["iou"]), val, base)
        return [("edge-attrs-and-iou", forall([a_, b_, k_], v1.Ae(a_, b_, k_) == expr), ("C01", "C09"))]
    return clauses
