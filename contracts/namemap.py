"""C17 - funtracks.import_export._name_mapping: the matching steps as set transformers.

A list of distinct column names is abstracted to its set (membership array) - exact for `x in l`, `l.copy()`,
`l.remove(x)` and `len(l) == 0` on distinct lists; the order of the list is dropped (no clause below depends on it).
The mapping is a symbolic dict Key -> Val (str values are VKey).

Step contract shared by the matching steps (L0, M0 -> L1, M1), with a ghost owner(c) for every consumed column:
  S1  L1 is a subset of L0, the argument list itself is not modified
  S2  dom(M0) is a subset of dom(M1) and M1 = M0 on dom(M0)                      (never overwrites)
  S3  a consumed column c (in L0, not in L1) is the value of the new key owner(c)
  S4  a new key k holds a consumed column c with owner(c) = k                     (no column under two keys)
  S5  new keys come from the target fields
_match_exact additionally (functional spec):
  E1  c stays in the list  <=>  c in L0 and not (c is a target field not yet mapped)
  E2  every target field that was not mapped and names a column is now mapped to exactly that column
"""
from __future__ import annotations

import z3

from pyvc.core import Unsupported
from pyvc.spec import Contract, LoopSpec
from pyvc.terms import AND, IMP, OR, Bool, Int, Key, Sym, Val, VKey, forall, to_z3
from pyvc.values import BuiltinExc, ModelObj, PyRaise, SymDict, SymList
from pyvc.verify import call_real

NM = "funtracks.import_export._name_mapping"
c_ = z3.Const("c!n", Key)
k_ = z3.Const("k!n", Key)
j_ = z3.Int("j!n")
lower = z3.Function("str_lower", Key, Key)
KeySet = z3.ArraySort(Key, Bool)


class DistinctList(ModelObj):
    """a list of pairwise distinct strings, abstracted to its set"""

    type_names = ("list",)
    set_like = True
    esort = Key

    def __init__(self, mem):
        self.mem = mem

    def has(self, x):
        return z3.Select(self.mem, to_z3(x, Key))

    def do_copy(self, I):
        return DistinctList(self.mem)

    def m_contains(self, I, x):
        return Sym(self.has(x))

    def do_remove(self, I, x):
        if not I.ctx.branch(self.has(x), "element in list"):
            raise PyRaise(BuiltinExc("ValueError", ("list.remove(x): x not in list",)))
        self.mem = z3.Store(self.mem, to_z3(x, Key), z3.BoolVal(False))

    def m_len(self, I):
        ctx = I.ctx
        n = ctx.fresh("len", Int)
        w = ctx.fresh("some_elem", Key)
        ctx.assume(n >= 0)
        ctx.assume(IMP(n > 0, z3.Select(self.mem, w)))
        ctx.assume(IMP(n == 0, forall([c_], z3.Not(z3.Select(self.mem, c_)))))
        return Sym(n)

    def m_truthy(self, I):
        n = self.m_len(I)
        return I.ctx.branch(n.e > 0, "list non-empty")


class StrOps(ModelObj):
    def __init__(self, s):
        self.s = s

    def do_lower(self, I):
        return Sym(lower(self.s))


def _key_attr(I, sym, name):
    from pyvc.values import BoundModel
    if name == "lower":
        return BoundModel(StrOps(sym.e), "lower")
    raise AttributeError(name)


def get_close_matches(I, args, kw):
    """difflib.get_close_matches(word, possibilities, n, cutoff): a list of at most n of the possibilities (assumed)"""
    poss = args[1]
    from pyvc.values import ImageKeys
    if not isinstance(poss, ImageKeys):
        raise Unsupported("get_close_matches possibilities")
    n = kw.get("n", args[2] if len(args) > 2 else 3)
    ctx = I.ctx
    ln = ctx.fresh("nclose", Int)
    F = ctx.fresh_fun("close_match", Int, Key)
    ctx.assume(AND(ln >= 0, ln <= to_z3(n, Int)))
    ctx.assume(forall([j_], IMP(AND(j_ >= 0, j_ < ln), poss.d.dom(F(j_)))))
    return SymList(ln, lambda j: Sym(F(j)), elem_sort=Key)


class MatchLoop(LoopSpec):
    """for field in target_fields  (Done = the fields seen so far, ghost):
       S1..S5 (and E1/E2 for the exact step) relative to the entry list L0 and mapping M0"""

    props = ("C17",)

    def __init__(self, W, exact):
        self.W, self.exact = W, exact

    def enter(self, I, fr, it):
        ctx = I.ctx
        self.T = it
        self.Done = z3.K(Key, z3.BoolVal(False))
        self.w = ctx.fresh("seen_at", z3.ArraySort(Key, Int))
        self.owner = ctx.fresh("owner", z3.ArraySort(Key, Key))

    def havoc(self, I, fr, it, i, assigned):
        ctx = I.ctx
        for nm in ("field", "lower_map", "closest", "best_match"):
            fr.env.pop(nm, None)
        fr.env["props_left"].mem = ctx.fresh("L", KeySet)
        m = fr.env["mapping"]
        m.dom = ctx.fresh("M_dom", KeySet)
        m.val = ctx.fresh("M_val", z3.ArraySort(Key, Val))
        self.Done = ctx.fresh("Done", KeySet)
        self.w = ctx.fresh("seen_at", z3.ArraySort(Key, Int))
        self.owner = ctx.fresh("owner", z3.ArraySort(Key, Key))

    def ghost_step(self, I, fr, it, i):
        f = to_z3(it.get(i), Key)
        m = fr.env["mapping"]
        newly = AND(z3.Select(m.dom, f), z3.Not(z3.Select(self.dom_before, f)))
        val = z3.Select(m.val, f)
        # a key mapped in this iteration owns the column it was given
        from pyvc.terms import kv
        self.owner = z3.If(newly, z3.Store(self.owner, kv(val), f), self.owner)
        self.w = z3.If(z3.Select(self.Done, f), self.w, z3.Store(self.w, f, i))
        self.Done = z3.Store(self.Done, f, z3.BoolVal(True))

    def inv(self, I, fr, it, i):
        W = self.W
        L, M = fr.env["props_left"].mem, fr.env["mapping"]
        self.dom_before = M.dom
        S = z3.Select
        Done, own = self.Done, self.owner
        new = lambda k: AND(S(M.dom, k), z3.Not(S(W.M0dom, k)))
        used = lambda c: AND(S(W.L0, c), z3.Not(S(L, c)))
        out = [
            ("ghost.seen-fields", AND(forall([j_], IMP(AND(j_ >= 0, j_ < i), S(Done, to_z3(it.get(j_), Key)))),
                                      forall([c_], IMP(S(Done, c_), AND(S(self.w, c_) >= 0, S(self.w, c_) < i, to_z3(it.get(S(self.w, c_)), Key) == c_))))),
            ("S1.list-shrinks", forall([c_], IMP(S(L, c_), S(W.L0, c_)))),
            ("S1.argument-list-not-modified", z3.BoolVal(W.Lin.mem is W.L0)),
            ("S2.never-overwrites", forall([k_], IMP(S(W.M0dom, k_), AND(S(M.dom, k_), S(M.val, k_) == S(W.M0val, k_))))),
            ("S3.consumed-column-is-the-value-of-its-owner", forall([c_], IMP(used(c_), AND(new(S(own, c_)), S(M.val, S(own, c_)) == VKey(c_))))),
            ("S4.new-key-holds-one-consumed-column", forall([k_], IMP(new(k_), z3.Exists([c_], AND(used(c_), S(M.val, k_) == VKey(c_), S(own, c_) == k_))))),
            ("S5.new-keys-are-target-fields", forall([k_], IMP(new(k_), S(Done, k_)))),
        ]
        if self.exact:
            out += [
                ("E1.list-minus-the-newly-mapped-fields", forall([c_], S(L, c_) == AND(S(W.L0, c_), z3.Not(AND(S(Done, c_), z3.Not(S(W.M0dom, c_))))))),
                ("E2.field-naming-a-column-is-mapped-to-it", forall([c_], IMP(AND(S(Done, c_), z3.Not(S(W.M0dom, c_)), S(W.L0, c_)), AND(S(M.dom, c_), S(M.val, c_) == VKey(c_))))),
                ("E3.only-such-fields-are-added", forall([k_], IMP(new(k_), AND(S(Done, k_), S(W.L0, k_))))),
            ]
        return out


class World:
    pass


class MatchStep(Contract):
    props = ("C17",)
    sym_attr = {"Key": _key_attr}

    def __init__(self, fn):
        self.fn = fn
        self.qualname = f"{NM}.{fn}"
        self.ext = {"difflib.get_close_matches": get_close_matches}

    def run(self, I, cfg):
        ctx = I.ctx
        W = World()
        T = SymList.fresh(ctx, "target_fields", Key)
        Lin = DistinctList(ctx.fresh("L0", KeySet))
        M = SymDict.fresh(ctx, "M0", Key, Val)
        W.Lin, W.L0, W.M0dom, W.M0val = Lin, Lin.mem, M.dom, M.val
        spec = MatchLoop(W, self.fn == "_match_exact")
        ctx.loopspecs[(self.qualname, 0)] = spec
        out = call_real(I, self.qualname, [T, Lin, M], {})
        q = self.fn
        if out[0] != "return":
            ctx.oblige(f"C17/{q}/no-exception", False, props=self.props, note=str(out[1]))
            return out
        res = out[1]
        ok = isinstance(res, DistinctList) and res is not Lin
        ctx.oblige(f"C17/{q}/ensures:returns-a-new-list", z3.BoolVal(ok), props=self.props)
        if not ok:
            return out
        S = z3.Select
        L1 = res.mem
        own = spec.owner
        inT = lambda c: z3.Exists([j_], AND(j_ >= 0, j_ < T.n, to_z3(T.get(j_), Key) == c))
        new = lambda k: AND(S(M.dom, k), z3.Not(S(W.M0dom, k)))
        used = lambda c: AND(S(W.L0, c), z3.Not(S(L1, c)))
        cl = [
            ("S1.list-shrinks", forall([c_], IMP(S(L1, c_), S(W.L0, c_)))),
            ("S1.argument-list-not-modified", z3.BoolVal(Lin.mem is W.L0)),
            ("S2.never-overwrites", forall([k_], IMP(S(W.M0dom, k_), AND(S(M.dom, k_), S(M.val, k_) == S(W.M0val, k_))))),
            ("S3.consumed-column-is-the-value-of-its-owner", forall([c_], IMP(used(c_), AND(new(S(own, c_)), S(M.val, S(own, c_)) == VKey(c_))))),
            ("S4.new-key-holds-one-consumed-column", forall([k_], IMP(new(k_), z3.Exists([c_], AND(used(c_), S(M.val, k_) == VKey(c_), S(own, c_) == k_))))),
            ("S5.new-keys-are-target-fields", forall([k_], IMP(new(k_), inT(k_)))),
        ]
        if self.fn == "_match_exact":
            cl += [
                ("E1.column-stays-iff-not-a-newly-mapped-field", forall([c_], S(L1, c_) == AND(S(W.L0, c_), z3.Not(AND(inT(c_), z3.Not(S(W.M0dom, c_))))))),
                ("E2.field-naming-a-column-is-mapped-to-it", forall([c_], IMP(AND(inT(c_), z3.Not(S(W.M0dom, c_)), S(W.L0, c_)), AND(S(M.dom, c_), S(M.val, c_) == VKey(c_))))),
                ("E3.only-such-fields-are-added", forall([k_], IMP(new(k_), AND(inT(k_), S(W.L0, k_))))),
            ]
        for lbl, f in cl:
            ctx.oblige(f"C17/{q}/ensures:{lbl}", f, props=self.props)
        return out


class MapRemaining(Contract):
    qualname = f"{NM}._map_remaining_to_self"
    props = ("C17",)

    def run(self, I, cfg):
        ctx = I.ctx
        Lin = DistinctList(ctx.fresh("L0", KeySet))
        L0 = Lin.mem
        out = call_real(I, self.qualname, [Lin], {})
        q = "_map_remaining_to_self"
        if out[0] != "return":
            ctx.oblige(f"C17/{q}/no-exception", False, props=self.props)
            return out
        res = out[1]
        ok = isinstance(res, SymDict)
        ctx.oblige(f"C17/{q}/ensures:returns-a-dict", z3.BoolVal(ok), props=self.props)
        if ok:
            S = z3.Select
            ctx.oblige(f"C17/{q}/ensures:exactly-the-remaining-columns-each-mapped-to-itself",
                       forall([c_], AND(S(res.dom, c_) == S(L0, c_), IMP(S(L0, c_), (S(res.val, c_) == c_) if res.vsort == Key else (S(res.val, c_) == VKey(c_))))), props=self.props)
            ctx.oblige(f"C17/{q}/ensures:argument-list-not-modified", z3.BoolVal(Lin.mem is L0), props=self.props)
        return out


uses = z3.Function("uses", Val, Key, Bool)  # the value (a column name or a list of column names) contains column c
meta_ftype = z3.Function("meta_feature_type", Val, Key)
STEPS = {
    "_match_exact": ("target_fields", "proved"),
    "_match_fuzzy": ("target_fields", "proved"),
    "_match_display_names_exact": ("display", "proved"),
    "_match_display_names_fuzzy": ("display", "proved"),
}


class MetaVal(ModelObj):
    """feature metadata (a dict): only .get("feature_type") is read here"""

    def __init__(self, e):
        self.e = e

    def do_get(self, I, k, default=None):
        if k == "feature_type":
            return Sym(meta_ftype(self.e))
        raise Unsupported(f"feature metadata key {k!r}")


class DisplayMap(ModelObj):
    """build_display_name_mapping(features): display name -> (feature key, index); only its feature keys matter here"""

    type_names = ("dict",)

    def __init__(self, featdom, nonempty):
        self.featdom, self.nonempty = featdom, nonempty

    def m_truthy(self, I):
        return I.ctx.branch(self.nonempty, "display-name mapping non-empty")


class BuildDisplayAssumed(Contract):
    qualname = f"{NM}.build_display_name_mapping"

    def apply(self, I, args, kw):
        feats = args[0]
        from pyvc.values import AssocDict
        if (isinstance(feats, dict) and not feats) or (isinstance(feats, AssocDict) and not feats.items):
            return DisplayMap(z3.K(Key, z3.BoolVal(False)), z3.BoolVal(False))
        return DisplayMap(feats.dom, I.ctx.fresh("display_map_nonempty", Bool))


def _rebind(I, old, new):
    for fr in I.frames:
        for nm, v in list(fr.env.items()):
            if v is old:
                fr.env[nm] = new


class StepAtCallSite(Contract):
    """a matching step used from the two infer_*_name_map pipelines: S1..S5 (E1..E3 for the exact step) - proved of the
    real bodies of _match_exact / _match_fuzzy (MatchStep) and of _match_display_names_exact / _fuzzy (DisplayExact; there
    S5 reads 'a new key is the feature key of some display name', which build_display_name_mapping - assumed - turns
    into 'a new key is a feature key')"""

    def __init__(self, fn):
        self.fn = fn
        self.qualname = f"{NM}.{fn}"

    def apply(self, I, args, kw):
        ctx = I.ctx
        kind, _ = STEPS[self.fn]
        if kind == "target_fields":
            T, L, M = args[0], args[1], args[2]
        else:
            L, D, M = args[0], args[1], args[2]
        from pyvc.values import AssocDict
        if (isinstance(M, dict) and not M) or (isinstance(M, AssocDict) and not M.items):
            new = SymDict.empty(ctx, "mapping", Key, Val)
            _rebind(I, M, new)
            M = new
        if not (isinstance(L, DistinctList) and isinstance(M, SymDict)):
            raise Unsupported(f"matching step arguments {type(L).__name__} {type(M).__name__}")
        S = z3.Select
        L0, M0dom, M0val = L.mem, M.dom, M.val
        L1 = DistinctList(ctx.fresh("L", KeySet))
        M.dom, M.val = ctx.fresh("M_dom", KeySet), ctx.fresh("M_val", z3.ArraySort(Key, Val))
        own = ctx.fresh("owner", z3.ArraySort(Key, Key))
        newk = lambda k: AND(S(M.dom, k), z3.Not(S(M0dom, k)))
        used = lambda c: AND(S(L0, c), z3.Not(S(L1.mem, c)))
        tag = "step." + self.fn
        ctx.assume(forall([c_], IMP(S(L1.mem, c_), S(L0, c_))), tag)
        ctx.assume(forall([k_], IMP(S(M0dom, k_), AND(S(M.dom, k_), S(M.val, k_) == S(M0val, k_)))), tag)
        if kind == "target_fields":
            if isinstance(T, list):
                T = I.to_symseq(T)
            inT = lambda c: z3.Exists([j_], AND(j_ >= 0, j_ < T.n, to_z3(T.get(j_), Key) == c))
            ctx.assume(forall([c_], IMP(used(c_), AND(newk(S(own, c_)), S(M.val, S(own, c_)) == VKey(c_)))), tag)
            ctx.assume(forall([k_], IMP(newk(k_), z3.Exists([c_], AND(used(c_), S(M.val, k_) == VKey(c_), S(own, c_) == k_)))), tag)
            ctx.assume(forall([k_], IMP(newk(k_), inT(k_))), tag)
            if self.fn == "_match_exact":
                ctx.assume(forall([c_], S(L1.mem, c_) == AND(S(L0, c_), z3.Not(AND(inT(c_), z3.Not(S(M0dom, c_)))))), tag)
                ctx.assume(forall([c_], IMP(AND(inT(c_), z3.Not(S(M0dom, c_)), S(L0, c_)), AND(S(M.dom, c_), S(M.val, c_) == VKey(c_)))), tag)
                ctx.assume(forall([k_], IMP(newk(k_), AND(inT(k_), S(L0, k_)))), tag)
        else:
            if not isinstance(D, DisplayMap):
                raise Unsupported("display-name mapping argument")
            ctx.assume(forall([c_], IMP(used(c_), AND(newk(S(own, c_)), uses(S(M.val, S(own, c_)), c_)))), tag)
            ctx.assume(forall([k_, c_], IMP(AND(newk(k_), uses(S(M.val, k_), c_)), AND(used(c_), S(own, c_) == k_))), tag)
            ctx.assume(forall([k_], IMP(newk(k_), S(D.featdom, k_))), tag)
        ctx.ghost.setdefault("steps", []).append({"fn": self.fn, "L0": L0, "L1": L1.mem, "own": own, "T": T if kind == "target_fields" else None})
        return L1


class Pipeline(Contract):
    """infer_node_name_map / infer_edge_name_map: every source column is used exactly once"""

    props = ("C17",)
    sym_attr = {"Key": _key_attr}

    def __init__(self, fn):
        self.fn = fn
        self.qualname = f"{NM}.{fn}"

    def run(self, I, cfg):
        ctx = I.ctx
        for fn in STEPS:
            c = StepAtCallSite(fn)
            ctx.contracts[c.qualname] = c
        ctx.contracts[BuildDisplayAssumed.qualname] = BuildDisplayAssumed()
        x = z3.Const("x!u", Key)
        ctx.assume(forall([x, c_], uses(VKey(x), c_) == (x == c_)), "uses")
        cols = DistinctList(ctx.fresh("columns", KeySet))
        C0 = cols.mem
        feats = SymDict.fresh(ctx, "available_features", Key, Val, wrap=lambda e: MetaVal(e))
        ctx.ghost["key_terms"] = []
        S = z3.Select
        if self.fn == "infer_node_name_map":
            req = SymList.fresh(ctx, "required_features", Key)
            out = call_real(I, self.qualname, [cols, req, feats], {})
        else:
            out = call_real(I, self.qualname, [cols, feats], {})
        q = self.fn
        if out[0] != "return":
            ctx.oblige(f"C17/{q}/no-exception", False, props=self.props, note=str(out[1]))
            return out
        M = out[1]
        ok = isinstance(M, SymDict)
        ctx.oblige(f"C17/{q}/ensures:returns-the-mapping", z3.BoolVal(ok), props=self.props)
        if not ok:
            return out
        steps = ctx.ghost.get("steps", [])
        own = lambda c: c
        for st in reversed(steps):
            prev = own
            own = (lambda st, prev: lambda c: z3.If(AND(S(st["L0"], c), z3.Not(S(st["L1"], c))), S(st["own"], c), prev(c)))(st, prev)
        ctx.oblige(f"C17/{q}/ensures:argument-list-not-modified", z3.BoolVal(cols.mem is C0), props=self.props)
        ctx.oblige(f"C17/{q}/ensures:every-column-is-used-by-some-key", forall([c_], IMP(S(C0, c_), AND(S(M.dom, own(c_)), uses(S(M.val, own(c_)), c_)))), props=self.props)
        ctx.oblige(f"C17/{q}/ensures:no-column-is-used-by-two-keys-and-only-columns-are-used",
                   forall([k_, c_], IMP(AND(S(M.dom, k_), uses(S(M.val, k_), c_)), AND(S(C0, c_), own(c_) == k_))), props=self.props)
        if self.fn == "infer_node_name_map":
            from pyvc.terms import lit
            inreq = lambda c: OR(c == lit("seg_id"), z3.Exists([j_], AND(j_ >= 0, j_ < req.n, to_z3(req.get(j_), Key) == c)))
            T0 = steps[0].get("T") if steps else None
            if T0 is not None:
                inT0 = lambda c: z3.Exists([j_], AND(j_ >= 0, j_ < T0.n, to_z3(T0.get(j_), Key) == c))
                ctx.lemma(f"C17/{q}/lemma:required-keys-and-seg_id-are-the-first-step's-target-fields", forall([c_], IMP(inreq(c_), inT0(c_))), props=self.props)
                ctx.lemma(f"C17/{q}/lemma:first-step-maps-a-column-spelled-like-a-target-field-to-it-and-later-steps-keep-it",
                          forall([c_], IMP(AND(S(C0, c_), inT0(c_)), AND(S(M.dom, c_), S(M.val, c_) == VKey(c_)))), props=self.props)
            # universal introduction by hand: an arbitrary column c0, with the two lemmas instantiated at c0
            c0 = ctx.fresh("any_column", Key)
            if T0 is not None:
                ctx.assume(IMP(inreq(c0), inT0(c0)), "lemma-instance")
                ctx.assume(IMP(AND(S(C0, c0), inT0(c0)), AND(S(M.dom, c0), S(M.val, c0) == VKey(c0))), "lemma-instance")
            ctx.oblige(f"C17/{q}/ensures:column-spelled-like-a-required-key-or-seg_id-is-mapped-to-it",
                       IMP(AND(S(C0, c0), inreq(c0)), AND(S(M.dom, c0), S(M.val, c0) == VKey(c0))), props=self.props)
        ctx.oblige(f"C17/{q}/ensures:some-matching-step-ran(non-vacuity)", z3.BoolVal(len(steps) >= 1), props=self.props, note=str([s["fn"] for s in steps]))
        return out


# ------------------------------------------------------------------------------------------------ _match_display_names_exact
i_ = z3.Int("i!n")
S_ = z3.Select


def enum_of(ctx, mem, name):
    """an enumeration without repetition of the set `mem` (Key -> Bool): (n, at, pos)"""
    n = ctx.fresh(name + "_n", Int)
    at = ctx.fresh_fun(name + "_at", Int, Key)
    pos = ctx.fresh_fun(name + "_pos", Key, Int)
    ctx.assume(n >= 0)
    ctx.assume(z3.ForAll([j_], IMP(AND(j_ >= 0, j_ < n), AND(S_(mem, at(j_)), pos(at(j_)) == j_)), patterns=[at(j_)]), "enum")
    # instantiate for every element the membership is asked about (not only where pos(c) already occurs)
    ctx.assume(z3.ForAll([c_], IMP(S_(mem, c_), AND(pos(c_) >= 0, pos(c_) < n, at(pos(c_)) == c_)), patterns=[S_(mem, c_)]), "enum")
    return n, at, pos


def _distinct_iter(self, I):
    n, at, pos = enum_of(I.ctx, self.mem, "props")
    out = SymList(n, lambda j: Sym(at(j)), elem_sort=Key)
    out.pos, out.mem0 = pos, self.mem
    return out


DistinctList.m_iter = _distinct_iter


class DisplayDict(ModelObj):
    """display name -> (feature key, index)"""

    type_names = ("dict",)

    def __init__(self, ctx):
        self.ctx = ctx
        self.dom = ctx.fresh("D_dom", KeySet)
        self.dk = ctx.fresh("D_key", z3.ArraySort(Key, Key))
        self.di = ctx.fresh("D_idx", z3.ArraySort(Key, Int))
        self._enum = None

    def m_contains(self, I, k):
        return Sym(S_(self.dom, to_z3(k, Key)))

    def m_getitem(self, I, k):
        ke = to_z3(k, Key)
        if not I.guard(S_(self.dom, ke), "display name known"):
            raise PyRaise(BuiltinExc("KeyError", (k,)))
        return (Sym(S_(self.dk, ke)), Sym(S_(self.di, ke)))

    def do_items(self, I):
        if self._enum is None:
            self._enum = enum_of(I.ctx, self.dom, "dnames")
        n, at, pos = self._enum
        out = SymList(n, lambda j: (Sym(at(j)), (Sym(S_(self.dk, at(j))), Sym(S_(self.di, at(j))))))
        out.comp_table = self
        return out

    # as the source of a dict comprehension over .items()
    esort = Key

    @property
    def mem(self):
        return self.dom

    def comp_item(self, x):
        return (Sym(x), (Sym(S_(self.dk, x)), Sym(S_(self.di, x))))

    def single(self, k, i):
        """every display name of feature key k has index i"""
        nm = z3.Const("name!n", Key)
        return forall([nm], IMP(AND(S_(self.dom, nm), S_(self.dk, nm) == k), S_(self.di, nm) == i))

    def is_single(self, c):
        """every display name of c's feature key has c's index"""
        nm = z3.Const("name!n", Key)  # its own bound variable: `c` may mention k_ or c_
        return forall([nm], IMP(AND(S_(self.dom, nm), S_(self.dk, nm) == S_(self.dk, c)), S_(self.di, nm) == S_(self.di, c)))


class MultiDict(ModelObj):
    """feature key -> {index -> column}"""

    type_names = ("dict",)

    def __init__(self, ctx):
        self.ctx = ctx
        self.fresh()

    def fresh(self):
        ctx = self.ctx
        self.has1 = ctx.fresh("mv_has1", KeySet)
        self.has2 = ctx.fresh_fun("mv_has2", Key, Int, Bool)
        self.val = ctx.fresh_fun("mv_val", Key, Int, Key)

    @staticmethod
    def empty(ctx):
        d = MultiDict(ctx)
        d.has1 = z3.K(Key, z3.BoolVal(False))
        ctx.assume(forall([k_, i_], z3.Not(d.has2(k_, i_))))
        return d

    def m_contains(self, I, k):
        return Sym(S_(self.has1, to_z3(k, Key)))

    def do_get(self, I, k, default=None):
        return InnerView(self, to_z3(k, Key), maybe_missing=True)

    def m_getitem(self, I, k):
        ke = to_z3(k, Key)
        if not I.guard(S_(self.has1, ke), "feature key in multi_value_matches"):
            raise PyRaise(BuiltinExc("KeyError", (k,)))
        return InnerView(self, ke)

    def m_setitem(self, I, k, v):
        from pyvc.values import AssocDict
        if not ((isinstance(v, dict) and not v) or (isinstance(v, AssocDict) and not v.items)):
            raise Unsupported("only `d[key] = {}` is modelled")
        ke = to_z3(k, Key)
        h2 = self.has2
        self.has1 = z3.Store(self.has1, ke, z3.BoolVal(True))
        self.has2 = self.ctx.fresh_fun("mv_has2", Key, Int, Bool)
        self.ctx.assume(forall([k_, i_], self.has2(k_, i_) == AND(h2(k_, i_), k_ != ke)))

    def do_items(self, I):
        n, at, pos = enum_of(I.ctx, self.has1, "mvkeys")
        out = SymList(n, lambda j: (Sym(at(j)), InnerView(self, at(j))))
        out.mpos, out.mat, out.md = pos, at, self
        return out


class InnerView(ModelObj):
    type_names = ("dict",)

    def __init__(self, d, k, maybe_missing=False):
        self.d, self.k, self.maybe = d, k, maybe_missing

    def present(self, i):
        return AND(S_(self.d.has1, self.k), self.d.has2(self.k, i))

    def m_contains(self, I, i):
        return Sym(self.present(to_z3(i, Int)))

    def m_setitem(self, I, i, v):
        d, ctx, k = self.d, self.d.ctx, self.k
        ie, ve = to_z3(i, Int), to_z3(v, Key)
        h2, vl = d.has2, d.val
        d.has2, d.val = ctx.fresh_fun("mv_has2", Key, Int, Bool), ctx.fresh_fun("mv_val", Key, Int, Key)
        ctx.assume(forall([k_, i_], d.has2(k_, i_) == OR(h2(k_, i_), AND(k_ == k, i_ == ie))))
        ctx.assume(forall([k_, i_], d.val(k_, i_) == z3.If(AND(k_ == k, i_ == ie), ve, vl(k_, i_))))

    def m_getitem(self, I, i):
        ie = to_z3(i, Int)
        if not I.guard(self.present(ie), "index in inner dict"):
            raise PyRaise(BuiltinExc("KeyError", (i,)))
        return Sym(self.d.val(self.k, ie))

    def m_truthy(self, I):
        ctx = I.ctx
        r, w = ctx.fresh("inner_nonempty", Bool), ctx.fresh("some_idx", Int)
        ctx.assume(IMP(r, self.present(w)))
        ctx.assume(IMP(z3.Not(r), forall([i_], z3.Not(self.present(i_)))))
        return ctx.branch(r, "inner dict non-empty")

    def do_keys(self, I):
        return InnerKeys(self)


class InnerKeys(ModelObj):
    def __init__(self, iv_):
        self.iv = iv_

    def m_iter(self, I):
        return self


def sorted_inner_keys(I, args, kw):
    v = args[0]
    if not isinstance(v, InnerKeys) or kw:
        raise Unsupported("sorted() of this value")
    ctx, iv_ = I.ctx, v.iv
    m = ctx.fresh("n_idx", Int)
    Sx = ctx.fresh_fun("sorted_idx", Int, Int)
    sp = ctx.fresh_fun("sorted_pos", Int, Int)
    ctx.assume(m >= 0)
    ctx.assume(forall([j_], IMP(AND(j_ >= 0, j_ < m), AND(iv_.present(Sx(j_)), sp(Sx(j_)) == j_))), "sorted")
    ctx.assume(forall([i_], IMP(iv_.present(i_), AND(sp(i_) >= 0, sp(i_) < m, Sx(sp(i_)) == i_))), "sorted")
    jj = z3.Int("jj!n")
    ctx.assume(forall([j_, jj], IMP(AND(j_ >= 0, j_ < jj, jj < m), Sx(j_) < Sx(jj))), "sorted")
    return SymList(m, lambda j: Sym(Sx(j)), elem_sort=Int)


class MappingDict(SymDict):
    """the mapping: a value is a column name (VKey) or a list of column names (an opaque Val lv with uses(lv, c) <=> c is in the list)"""

    def m_setitem(self, I, k, v):
        if isinstance(v, SymList):
            ctx = I.ctx
            lv = ctx.fresh("list_value", Val)
            ctx.assume(forall([c_], uses(lv, c_) == z3.Exists([j_], AND(j_ >= 0, j_ < v.n, to_z3(v.get(j_), Key) == c_))), "listvalue")
            x = z3.Const("x!lv", Key)
            ctx.assume(forall([x], lv != VKey(x)), "listvalue")
            v = Sym(lv)
        return SymDict.m_setitem(self, I, k, v)


class DisplayLoop1(LoopSpec):
    """for prop in importable_props"""

    props = ("C17",)

    def __init__(self, W):
        self.W = W

    def enter(self, I, fr, it):
        self.it = it
        if not isinstance(fr.env["multi_value_matches"], MultiDict):
            fr.env["multi_value_matches"] = MultiDict.empty(I.ctx)

    def havoc(self, I, fr, it, i, assigned):
        ctx = I.ctx
        for nm in ("prop", "feature_key", "idx", "is_multi_value", "closest", "_"):
            fr.env.pop(nm, None)
        fr.env["props_left"].mem = ctx.fresh("L", KeySet)
        m = fr.env["mapping"]
        m.dom, m.val = ctx.fresh("M_dom", KeySet), ctx.fresh("M_val", z3.ArraySort(Key, Val))
        fr.env["multi_value_matches"].fresh()
        if isinstance(self.W.G, GhostTarget):
            self.W.G.fresh()

    def ghost_step(self, I, fr, it, i):
        # lemma (proved here, then available to the preservation obligations): the `any(...)` over the display names says
        # whether the column's feature is multi-valued
        im = fr.env.get("is_multi_value")
        W = self.W
        prop = to_z3(it.get(i), Key)
        if im is not None:
            D = W.D
            fkv, ixv = to_z3(fr.env["feature_key"], Key), to_z3(fr.env["idx"], Int)
            imf = im.e if isinstance(im, Sym) else z3.BoolVal(bool(im))
            I.ctx.lemma(f"{I.frames[-1].qualname}/lemma:is_multi_value <=> the-feature-has-another-index", imf == z3.Not(D.single(fkv, ixv)), props=self.props)
            if isinstance(W.G, GhostTarget):
                # the column was consumed in this iteration: remember what it was matched to
                G = W.G
                dname = to_z3(fr.env["_"], Key)
                G.gk, G.gi, G.gd = z3.Store(G.gk, prop, fkv), z3.Store(G.gi, prop, ixv), z3.Store(G.gd, prop, dname)

    def inv(self, I, fr, it, i):
        return display_clauses(self.W, fr.env["props_left"].mem, fr.env["mapping"], fr.env["multi_value_matches"], it.pos, i)


class ExactTarget:
    """exact step: a column is matched by the display name spelled like it"""

    def __init__(self, D):
        self.D = D

    def fk(self, c):
        return S_(self.D.dk, c)

    def ix(self, c):
        return S_(self.D.di, c)

    def dn(self, c):
        return c

    def matched(self, c):
        return S_(self.D.dom, c)


class GhostTarget:
    """fuzzy step: the display name / feature key / index a consumed column was matched to (ghost maps, set when it is consumed)"""

    def __init__(self, ctx, D):
        self.ctx, self.D = ctx, D
        self.fresh()

    def fresh(self):
        ctx = self.ctx
        self.gk = ctx.fresh("tgt_key", z3.ArraySort(Key, Key))
        self.gi = ctx.fresh("tgt_idx", z3.ArraySort(Key, Int))
        self.gd = ctx.fresh("tgt_name", z3.ArraySort(Key, Key))

    def fk(self, c):
        return S_(self.gk, c)

    def ix(self, c):
        return S_(self.gi, c)

    def dn(self, c):
        return S_(self.gd, c)

    def matched(self, c):
        D = self.D
        return AND(S_(D.dom, self.dn(c)), S_(D.dk, self.dn(c)) == self.fk(c), S_(D.di, self.dn(c)) == self.ix(c))


def display_clauses(W, PL, M, MV, pos, i):
    from pyvc.terms import kv
    D, G = W.D, W.G
    proc = lambda c: AND(S_(W.L0, c), pos(c) < i)
    new = lambda k: AND(S_(M.dom, k), z3.Not(S_(W.M0dom, k)))
    fk, ix = G.fk, G.ix
    single_used = lambda c: AND(new(fk(c)), S_(M.val, fk(c)) == VKey(c))
    multi_used = lambda c: AND(MV.has2(fk(c), ix(c)), MV.val(fk(c), ix(c)) == c)
    consumed = lambda c: AND(proc(c), G.matched(c), OR(single_used(c), multi_used(c)))
    cm = lambda k: kv(S_(M.val, k))
    mvv = lambda k, i: MV.val(k, i)
    return [
        ("A1a.new-single-keys-hold-one-processed-matched-column-of-their-own",
         forall([k_], IMP(new(k_), AND(S_(M.val, k_) == VKey(cm(k_)), proc(cm(k_)), G.matched(cm(k_)), fk(cm(k_)) == k_, z3.Not(S_(PL, cm(k_))))))),
        ("A1b.new-single-keys-belong-to-single-valued-features", forall([k_], IMP(new(k_), D.single(k_, ix(cm(k_)))))),
        ("A2.never-overwrites", forall([k_], IMP(S_(W.M0dom, k_), AND(S_(M.dom, k_), S_(M.val, k_) == S_(W.M0val, k_))))),
        ("A3a.multi-entries-hold-processed-matched-columns-of-their-key-and-index",
         forall([k_, i_], IMP(MV.has2(k_, i_), AND(proc(mvv(k_, i_)), G.matched(mvv(k_, i_)), fk(mvv(k_, i_)) == k_, ix(mvv(k_, i_)) == i_, S_(MV.has1, k_), z3.Not(S_(PL, mvv(k_, i_))))))),
        ("A3b.multi-keys-are-not-in-the-mapping", forall([k_, i_], IMP(MV.has2(k_, i_), z3.Not(S_(M.dom, k_))))),
        ("A3c.multi-entries-belong-to-multi-valued-features", forall([k_, i_], IMP(MV.has2(k_, i_), z3.Not(D.single(k_, i_))))),
        ("A4.every-multi-key-has-an-entry", forall([k_], IMP(S_(MV.has1, k_), z3.Exists([i_], MV.has2(k_, i_))))),
        ("A5.remaining = columns-not-consumed", forall([c_], S_(PL, c_) == AND(S_(W.L0, c_), z3.Not(consumed(c_))))),
        ("argument-list-not-modified", z3.BoolVal(W.Lin.mem is W.L0)),
    ]


class DisplayLoop2(LoopSpec):
    """for feature_key, idx_to_prop in multi_value_matches.items()"""

    props = ("C17",)

    def __init__(self, W):
        self.W = W

    def enter(self, I, fr, it):
        m = fr.env["mapping"]
        self.Mmid = (m.dom, m.val)
        self.MV = it.md
        self.mv_snapshot = (it.md.has1, it.md.has2, it.md.val)
        self.PL = fr.env["props_left"].mem

    def havoc(self, I, fr, it, i, assigned):
        ctx = I.ctx
        for nm in ("feature_key", "idx_to_prop", "sorted_indices", "ordered"):
            fr.env.pop(nm, None)
        m = fr.env["mapping"]
        m.dom, m.val = ctx.fresh("M_dom", KeySet), ctx.fresh("M_val", z3.ArraySort(Key, Val))

    def inv(self, I, fr, it, j):
        M, MV = fr.env["mapping"], self.MV
        md, mv = self.Mmid
        donek = lambda k: AND(S_(MV.has1, k), it.mpos(k) < j)
        same_mv = MV.has1 is self.mv_snapshot[0] and MV.has2 is self.mv_snapshot[1] and MV.val is self.mv_snapshot[2]
        return [
            ("B1.converted-multi-keys-hold-the-list-of-their-columns",
             forall([k_], IMP(donek(k_), AND(S_(M.dom, k_), forall([c_], uses(S_(M.val, k_), c_) == z3.Exists([i_], AND(MV.has2(k_, i_), MV.val(k_, i_) == c_))))))),
            ("B2.other-keys-as-after-the-first-loop", forall([k_], IMP(z3.Not(donek(k_)), AND(S_(M.dom, k_) == S_(md, k_), S_(M.val, k_) == S_(mv, k_))))),
            ("multi-dict-and-remaining-list-not-modified", z3.BoolVal(same_mv and fr.env["props_left"].mem is self.PL)),
        ]


class DisplayExact(Contract):
    props = ("C17",)
    sym_attr = {"Key": _key_attr}

    def __init__(self, fn="_match_display_names_exact"):
        self.fn = fn
        self.qualname = f"{NM}.{fn}"
        self.ext = {"model.sorted": sorted_inner_keys, "difflib.get_close_matches": get_close_matches}

    def run(self, I, cfg):
        ctx = I.ctx
        W = World()
        x = z3.Const("x!u", Key)
        ctx.assume(forall([x, c_], uses(VKey(x), c_) == (x == c_)), "uses")
        Lin = DistinctList(ctx.fresh("L0", KeySet))
        M0 = SymDict.fresh(ctx, "M0", Key, Val)
        M = MappingDict(M0.dom, M0.val, Key, Val)
        D = DisplayDict(ctx)
        W.Lin, W.L0, W.M0dom, W.M0val, W.D = Lin, Lin.mem, M.dom, M.val, D
        W.G = ExactTarget(D) if self.fn == "_match_display_names_exact" else GhostTarget(ctx, D)
        ctx.loopspecs[(self.qualname, 0)] = DisplayLoop1(W)
        ctx.loopspecs[(self.qualname, 1)] = DisplayLoop2(W)
        out = call_real(I, self.qualname, [Lin, D, M], {})
        q = self.fn
        if out[0] != "return":
            ctx.oblige(f"C17/{q}/no-exception", False, props=self.props, note=str(out[1]))
            return out
        res = out[1]
        ok = isinstance(res, DistinctList) and res is not Lin
        ctx.oblige(f"C17/{q}/ensures:returns-a-new-list", z3.BoolVal(ok), props=self.props)
        if not ok:
            return out
        L1 = res.mem
        new = lambda k: AND(S_(M.dom, k), z3.Not(S_(W.M0dom, k)))
        used = lambda c: AND(S_(W.L0, c), z3.Not(S_(L1, c)))
        own = W.G.fk
        for lbl, f in [
            ("S1.list-shrinks", forall([c_], IMP(S_(L1, c_), S_(W.L0, c_)))),
            ("S1.argument-list-not-modified", z3.BoolVal(Lin.mem is W.L0)),
            ("S2.never-overwrites", forall([k_], IMP(S_(W.M0dom, k_), AND(S_(M.dom, k_), S_(M.val, k_) == S_(W.M0val, k_))))),
            ("S3.consumed-column-is-used-by-its-feature-key-which-is-new", forall([c_], IMP(used(c_), AND(new(own(c_)), uses(S_(M.val, own(c_)), c_))))),
            ("S4.a-new-key-uses-only-consumed-columns-of-its-own", forall([k_, c_], IMP(AND(new(k_), uses(S_(M.val, k_), c_)), AND(used(c_), own(c_) == k_)))),
            ("S5.new-keys-are-feature-keys-of-display-names", forall([k_], IMP(new(k_), z3.Exists([c_], AND(S_(D.dom, c_), S_(D.dk, c_) == k_))))),
        ]:
            ctx.oblige(f"C17/{q}/ensures:{lbl}", f, props=self.props)
        return out


# ------------------------------------------------------------------------------------------------ build_display_name_mapping
meta_numvalues = z3.Function("meta_num_values", Val, Int)
meta_display = z3.Function("meta_display_name", Val, Val)
meta_nnames = z3.Function("meta_n_value_names", Val, Int)
meta_vname = z3.Function("meta_value_name", Val, Int, Key)
is_str = z3.Function("is_str", Val, Bool)


class FeatureMeta(ModelObj):
    """a feature's metadata dict: .get("num_values", 1), .get("value_names", []), .get("display_name")"""

    def __init__(self, e):
        self.e = e

    def do_get(self, I, k, default=None):
        if k == "num_values":
            return Sym(meta_numvalues(self.e))
        if k == "value_names":
            e = self.e
            return SymList(z3.If(meta_nnames(e) >= 0, meta_nnames(e), 0), lambda j: Sym(meta_vname(e, j)), elem_sort=Key)
        if k == "display_name":
            return Sym(meta_display(self.e))
        if k == "feature_type":
            return Sym(meta_ftype(self.e))
        raise Unsupported(f"feature metadata key {k!r}")


def _val_isinstance_str(I, args, kw):
    v, tn = args
    if tn == "str":
        return is_str(v.e)
    raise Unsupported(f"isinstance(opaque, {tn})")


class MutableDisplayDict(DisplayDict):
    def m_setitem(self, I, name, v):
        if not (isinstance(v, tuple) and len(v) == 2):
            raise Unsupported("display mapping value")
        ne = to_z3(name, Key) if not (isinstance(name, Sym) and name.sort() == Val) else kv_(name.e)
        self.dom = z3.Store(self.dom, ne, z3.BoolVal(True))
        self.dk = z3.Store(self.dk, ne, to_z3(v[0], Key))
        self.di = z3.Store(self.di, ne, to_z3(v[1], Int))
        self._enum = None


def kv_(e):
    from pyvc.terms import kv
    return kv(e)


class BuildLoopOuter(LoopSpec):
    props = ("C17",)

    def __init__(self, feats):
        self.feats = feats

    def enter(self, I, fr, it):
        if not isinstance(fr.env["display_name_to_key"], MutableDisplayDict):
            d = MutableDisplayDict(I.ctx)
            d.dom = z3.K(Key, z3.BoolVal(False))
            fr.env["display_name_to_key"] = d

    def havoc(self, I, fr, it, i, assigned):
        ctx = I.ctx
        for nm in ("feature_key", "feature", "value_names", "idx", "value_name", "display_name"):
            fr.env.pop(nm, None)
        d = fr.env["display_name_to_key"]
        d.dom, d.dk, d.di = ctx.fresh("D_dom", KeySet), ctx.fresh("D_key", z3.ArraySort(Key, Key)), ctx.fresh("D_idx", z3.ArraySort(Key, Int))

    def inv(self, I, fr, it, i):
        d = fr.env["display_name_to_key"]
        return [("every-entry-points-to-a-key-of-the-given-features", forall([c_], IMP(S_(d.dom, c_), S_(self.feats.dom, S_(d.dk, c_)))))]


class BuildLoopInner(BuildLoopOuter):
    def enter(self, I, fr, it):
        pass

    def havoc(self, I, fr, it, i, assigned):
        ctx = I.ctx
        for nm in ("idx", "value_name"):
            fr.env.pop(nm, None)
        d = fr.env["display_name_to_key"]
        d.dom, d.dk, d.di = ctx.fresh("D_dom", KeySet), ctx.fresh("D_key", z3.ArraySort(Key, Key)), ctx.fresh("D_idx", z3.ArraySort(Key, Int))


class BuildDisplay(Contract):
    qualname = f"{NM}.build_display_name_mapping"
    props = ("C17",)
    ext = {"model.val_isinstance": _val_isinstance_str}

    def run(self, I, cfg):
        ctx = I.ctx
        feats = SymDict.fresh(ctx, "features", Key, Val, wrap=lambda e: FeatureMeta(e))
        ctx.ghost["key_terms"] = []
        ctx.loopspecs[(self.qualname, 0)] = BuildLoopOuter(feats)
        ctx.loopspecs[(self.qualname, 1)] = BuildLoopInner(feats)
        out = call_real(I, self.qualname, [feats], {})
        q = "build_display_name_mapping"
        if out[0] != "return":
            ctx.oblige(f"C17/{q}/no-exception", False, props=self.props, note=str(out[1]))
            return out
        d = out[1]
        ok = isinstance(d, MutableDisplayDict) or (isinstance(d, (dict,)) and not d)
        ctx.oblige(f"C17/{q}/ensures:returns-the-mapping", z3.BoolVal(ok), props=self.props)
        if isinstance(d, MutableDisplayDict):
            ctx.oblige(f"C17/{q}/ensures:every-display-name-points-to-a-key-of-the-given-features", forall([c_], IMP(S_(d.dom, c_), S_(feats.dom, S_(d.dk, c_)))), props=self.props)
        return out


def units():
    from pyvc.verify import Unit
    return [Unit(MatchStep("_match_exact"), {}), Unit(MatchStep("_match_fuzzy"), {}), Unit(MapRemaining(), {}),
            Unit(Pipeline("infer_node_name_map"), {}), Unit(Pipeline("infer_edge_name_map"), {}), Unit(DisplayExact(), {}), Unit(DisplayExact("_match_display_names_fuzzy"), {}), Unit(BuildDisplay(), {})]
