"""C17 - funtracks.import_export._name_mapping: the matching steps as set transformers.

A list of distinct column names is abstracted to its set (membership array) - exact for `x in l`, `l.copy()`,
`l.remove(x)` and `len(l) == 0` on distinct lists; the order of the list is dropped (no clause below depends on it).
The mapping is a symbolic dict Key -> Val (str values are VKey).

Step contract shared by the matching steps (L0, M0 -> L1, M1), with a ghost owner(c) for every consumed column:
  S1  L1 is a subset of L0, the argument list itself is not modified
  S2  dom(M0) is a subset of dom(M1) and M1 = M0 on dom(M0)                      (never overwrites)
  S3  a consumed column c (in L0, not in L1) is the value of the new key owner(c)
  S4  a new key k holds a consumed column c with owner(c) = k                     (no column under two keys)
  S5  new keys come from the target fields
_match_exact additionally (functional spec):
  E1  c stays in the list  <=>  c in L0 and not (c is a target field not yet mapped)
  E2  every target field that was not mapped and names a column is now mapped to exactly that column
"""
from __future__ import annotations

import z3

from pyvc.core import Unsupported
from pyvc.spec import Contract, LoopSpec
from pyvc.terms import AND, IMP, OR, Bool, Int, Key, Sym, Val, VKey, forall, to_z3
from pyvc.values import BuiltinExc, ModelObj, PyRaise, SymDict, SymList
from pyvc.verify import call_real

NM = "funtracks.import_export._name_mapping"
c_ = z3.Const("c!n", Key)
k_ = z3.Const("k!n", Key)
j_ = z3.Int("j!n")
lower = z3.Function("str_lower", Key, Key)
KeySet = z3.ArraySort(Key, Bool)


class DistinctList(ModelObj):
    """a list of pairwise distinct strings, abstracted to its set"""

    type_names = ("list",)
    set_like = True
    esort = Key

    def __init__(self, mem):
        self.mem = mem

    def has(self, x):
        return z3.Select(self.mem, to_z3(x, Key))

    def do_copy(self, I):
        return DistinctList(self.mem)

    def m_contains(self, I, x):
        return Sym(self.has(x))

    def do_remove(self, I, x):
        if not I.ctx.branch(self.has(x), "element in list"):
            raise PyRaise(BuiltinExc("ValueError", ("list.remove(x): x not in list",)))
        self.mem = z3.Store(self.mem, to_z3(x, Key), z3.BoolVal(False))

    def m_len(self, I):
        ctx = I.ctx
        n = ctx.fresh("len", Int)
        w = ctx.fresh("some_elem", Key)
        ctx.assume(n >= 0)
        ctx.assume(IMP(n > 0, z3.Select(self.mem, w)))
        ctx.assume(IMP(n == 0, forall([c_], z3.Not(z3.Select(self.mem, c_)))))
        return Sym(n)

    def m_truthy(self, I):
        n = self.m_len(I)
        return I.ctx.branch(n.e > 0, "list non-empty")


class StrOps(ModelObj):
    def __init__(self, s):
        self.s = s

    def do_lower(self, I):
        return Sym(lower(self.s))


def _key_attr(I, sym, name):
    from pyvc.values import BoundModel
    if name == "lower":
        return BoundModel(StrOps(sym.e), "lower")
    raise AttributeError(name)


def get_close_matches(I, args, kw):
    """difflib.get_close_matches(word, possibilities, n, cutoff): a list of at most n of the possibilities (assumed)"""
    poss = args[1]
    from pyvc.values import ImageKeys
    if not isinstance(poss, ImageKeys):
        raise Unsupported("get_close_matches possibilities")
    n = kw.get("n", args[2] if len(args) > 2 else 3)
    ctx = I.ctx
    ln = ctx.fresh("nclose", Int)
    F = ctx.fresh_fun("close_match", Int, Key)
    ctx.assume(AND(ln >= 0, ln <= to_z3(n, Int)))
    ctx.assume(forall([j_], IMP(AND(j_ >= 0, j_ < ln), poss.d.dom(F(j_)))))
    return SymList(ln, lambda j: Sym(F(j)), elem_sort=Key)


class MatchLoop(LoopSpec):
    """for field in target_fields  (Done = the fields seen so far, ghost):
       S1..S5 (and E1/E2 for the exact step) relative to the entry list L0 and mapping M0"""

    props = ("C17",)

    def __init__(self, W, exact):
        self.W, self.exact = W, exact

    def enter(self, I, fr, it):
        ctx = I.ctx
        self.T = it
        self.Done = z3.K(Key, z3.BoolVal(False))
        self.w = ctx.fresh("seen_at", z3.ArraySort(Key, Int))
        self.owner = ctx.fresh("owner", z3.ArraySort(Key, Key))

    def havoc(self, I, fr, it, i, assigned):
        ctx = I.ctx
        for nm in ("field", "lower_map", "closest", "best_match"):
            fr.env.pop(nm, None)
        fr.env["props_left"].mem = ctx.fresh("L", KeySet)
        m = fr.env["mapping"]
        m.dom = ctx.fresh("M_dom", KeySet)
        m.val = ctx.fresh("M_val", z3.ArraySort(Key, Val))
        self.Done = ctx.fresh("Done", KeySet)
        self.w = ctx.fresh("seen_at", z3.ArraySort(Key, Int))
        self.owner = ctx.fresh("owner", z3.ArraySort(Key, Key))

    def ghost_step(self, I, fr, it, i):
        f = to_z3(it.get(i), Key)
        m = fr.env["mapping"]
        newly = AND(z3.Select(m.dom, f), z3.Not(z3.Select(self.dom_before, f)))
        val = z3.Select(m.val, f)
        # a key mapped in this iteration owns the column it was given
        from pyvc.terms import kv
        self.owner = z3.If(newly, z3.Store(self.owner, kv(val), f), self.owner)
        self.w = z3.If(z3.Select(self.Done, f), self.w, z3.Store(self.w, f, i))
        self.Done = z3.Store(self.Done, f, z3.BoolVal(True))

    def inv(self, I, fr, it, i):
        W = self.W
        L, M = fr.env["props_left"].mem, fr.env["mapping"]
        self.dom_before = M.dom
        S = z3.Select
        Done, own = self.Done, self.owner
        new = lambda k: AND(S(M.dom, k), z3.Not(S(W.M0dom, k)))
        used = lambda c: AND(S(W.L0, c), z3.Not(S(L, c)))
        out = [
            ("ghost.seen-fields", AND(forall([j_], IMP(AND(j_ >= 0, j_ < i), S(Done, to_z3(it.get(j_), Key)))),
                                      forall([c_], IMP(S(Done, c_), AND(S(self.w, c_) >= 0, S(self.w, c_) < i, to_z3(it.get(S(self.w, c_)), Key) == c_))))),
            ("S1.list-shrinks", forall([c_], IMP(S(L, c_), S(W.L0, c_)))),
            ("S1.argument-list-not-modified", z3.BoolVal(W.Lin.mem is W.L0)),
            ("S2.never-overwrites", forall([k_], IMP(S(W.M0dom, k_), AND(S(M.dom, k_), S(M.val, k_) == S(W.M0val, k_))))),
            ("S3.consumed-column-is-the-value-of-its-owner", forall([c_], IMP(used(c_), AND(new(S(own, c_)), S(M.val, S(own, c_)) == VKey(c_))))),
            ("S4.new-key-holds-one-consumed-column", forall([k_], IMP(new(k_), z3.Exists([c_], AND(used(c_), S(M.val, k_) == VKey(c_), S(own, c_) == k_))))),
            ("S5.new-keys-are-target-fields", forall([k_], IMP(new(k_), S(Done, k_)))),
        ]
        if self.exact:
            out += [
                ("E1.list-minus-the-newly-mapped-fields", forall([c_], S(L, c_) == AND(S(W.L0, c_), z3.Not(AND(S(Done, c_), z3.Not(S(W.M0dom, c_))))))),
                ("E2.field-naming-a-column-is-mapped-to-it", forall([c_], IMP(AND(S(Done, c_), z3.Not(S(W.M0dom, c_)), S(W.L0, c_)), AND(S(M.dom, c_), S(M.val, c_) == VKey(c_))))),
                ("E3.only-such-fields-are-added", forall([k_], IMP(new(k_), AND(S(Done, k_), S(W.L0, k_))))),
            ]
        return out


class World:
    pass


class MatchStep(Contract):
    props = ("C17",)
    sym_attr = {"Key": _key_attr}

    def __init__(self, fn):
        self.fn = fn
        self.qualname = f"{NM}.{fn}"
        self.ext = {"difflib.get_close_matches": get_close_matches}

    def run(self, I, cfg):
        ctx = I.ctx
        W = World()
        T = SymList.fresh(ctx, "target_fields", Key)
        Lin = DistinctList(ctx.fresh("L0", KeySet))
        M = SymDict.fresh(ctx, "M0", Key, Val)
        W.Lin, W.L0, W.M0dom, W.M0val = Lin, Lin.mem, M.dom, M.val
        spec = MatchLoop(W, self.fn == "_match_exact")
        ctx.loopspecs[(self.qualname, 0)] = spec
        out = call_real(I, self.qualname, [T, Lin, M], {})
        q = self.fn
        if out[0] != "return":
            ctx.oblige(f"C17/{q}/no-exception", False, props=self.props, note=str(out[1]))
            return out
        res = out[1]
        ok = isinstance(res, DistinctList) and res is not Lin
        ctx.oblige(f"C17/{q}/ensures:returns-a-new-list", z3.BoolVal(ok), props=self.props)
        if not ok:
            return out
        S = z3.Select
        L1 = res.mem
        own = spec.owner
        inT = lambda c: z3.Exists([j_], AND(j_ >= 0, j_ < T.n, to_z3(T.get(j_), Key) == c))
        new = lambda k: AND(S(M.dom, k), z3.Not(S(W.M0dom, k)))
        used = lambda c: AND(S(W.L0, c), z3.Not(S(L1, c)))
        cl = [
            ("S1.list-shrinks", forall([c_], IMP(S(L1, c_), S(W.L0, c_)))),
            ("S1.argument-list-not-modified", z3.BoolVal(Lin.mem is W.L0)),
            ("S2.never-overwrites", forall([k_], IMP(S(W.M0dom, k_), AND(S(M.dom, k_), S(M.val, k_) == S(W.M0val, k_))))),
            ("S3.consumed-column-is-the-value-of-its-owner", forall([c_], IMP(used(c_), AND(new(S(own, c_)), S(M.val, S(own, c_)) == VKey(c_))))),
            ("S4.new-key-holds-one-consumed-column", forall([k_], IMP(new(k_), z3.Exists([c_], AND(used(c_), S(M.val, k_) == VKey(c_), S(own, c_) == k_))))),
            ("S5.new-keys-are-target-fields", forall([k_], IMP(new(k_), inT(k_)))),
        ]
        if self.fn == "_match_exact":
            cl += [
                ("E1.column-stays-iff-not-a-newly-mapped-field", forall([c_], S(L1, c_) == AND(S(W.L0, c_), z3.Not(AND(inT(c_), z3.Not(S(W.M0dom, c_))))))),
                ("E2.field-naming-a-column-is-mapped-to-it", forall([c_], IMP(AND(inT(c_), z3.Not(S(W.M0dom, c_)), S(W.L0, c_)), AND(S(M.dom, c_), S(M.val, c_) == VKey(c_))))),
                ("E3.only-such-fields-are-added", forall([k_], IMP(new(k_), AND(inT(k_), S(W.L0, k_))))),
            ]
        for lbl, f in cl:
            ctx.oblige(f"C17/{q}/ensures:{lbl}", f, props=self.props)
        return out


class MapRemaining(Contract):
    qualname = f"{NM}._map_remaining_to_self"
    props = ("C17",)

    def run(self, I, cfg):
        ctx = I.ctx
        Lin = DistinctList(ctx.fresh("L0", KeySet))
        L0 = Lin.mem
        out = call_real(I, self.qualname, [Lin], {})
        q = "_map_remaining_to_self"
        if out[0] != "return":
            ctx.oblige(f"C17/{q}/no-exception", False, props=self.props)
            return out
        res = out[1]
        ok = isinstance(res, SymDict)
        ctx.oblige(f"C17/{q}/ensures:returns-a-dict", z3.BoolVal(ok), props=self.props)
        if ok:
            S = z3.Select
            ctx.oblige(f"C17/{q}/ensures:exactly-the-remaining-columns-each-mapped-to-itself",
                       forall([c_], AND(S(res.dom, c_) == S(L0, c_), IMP(S(L0, c_), (S(res.val, c_) == c_) if res.vsort == Key else (S(res.val, c_) == VKey(c_))))), props=self.props)
            ctx.oblige(f"C17/{q}/ensures:argument-list-not-modified", z3.BoolVal(Lin.mem is L0), props=self.props)
        return out


uses = z3.Function("uses", Val, Key, Bool)  # the value (a column name or a list of column names) contains column c
meta_ftype = z3.Function("meta_feature_type", Val, Key)
STEPS = {
    "_match_exact": ("target_fields", "proved"),
    "_match_fuzzy": ("target_fields", "proved"),
    "_match_display_names_exact": ("display", "assumed"),
    "_match_display_names_fuzzy": ("display", "assumed"),
}


class MetaVal(ModelObj):
    """feature metadata (a dict): only .get("feature_type") is read here"""

    def __init__(self, e):
        self.e = e

    def do_get(self, I, k, default=None):
        if k == "feature_type":
            return Sym(meta_ftype(self.e))
        raise Unsupported(f"feature metadata key {k!r}")


class DisplayMap(ModelObj):
    """build_display_name_mapping(features): display name -> (feature key, index); only its feature keys matter here"""

    type_names = ("dict",)

    def __init__(self, featdom, nonempty):
        self.featdom, self.nonempty = featdom, nonempty

    def m_truthy(self, I):
        return I.ctx.branch(self.nonempty, "display-name mapping non-empty")


class BuildDisplayAssumed(Contract):
    qualname = f"{NM}.build_display_name_mapping"

    def apply(self, I, args, kw):
        feats = args[0]
        from pyvc.values import AssocDict
        if (isinstance(feats, dict) and not feats) or (isinstance(feats, AssocDict) and not feats.items):
            return DisplayMap(z3.K(Key, z3.BoolVal(False)), z3.BoolVal(False))
        return DisplayMap(feats.dom, I.ctx.fresh("display_map_nonempty", Bool))


def _rebind(I, old, new):
    for fr in I.frames:
        for nm, v in list(fr.env.items()):
            if v is old:
                fr.env[nm] = new


class StepAtCallSite(Contract):
    """a matching step used from the two infer_*_name_map pipelines: S1..S5 (E1..E3 for the exact step) - proved of the
    real bodies of _match_exact / _match_fuzzy above, ASSUMED for the two display-name steps (bounded stand-in c17)"""

    def __init__(self, fn):
        self.fn = fn
        self.qualname = f"{NM}.{fn}"

    def apply(self, I, args, kw):
        ctx = I.ctx
        kind, _ = STEPS[self.fn]
        if kind == "target_fields":
            T, L, M = args[0], args[1], args[2]
        else:
            L, D, M = args[0], args[1], args[2]
        from pyvc.values import AssocDict
        if (isinstance(M, dict) and not M) or (isinstance(M, AssocDict) and not M.items):
            new = SymDict.empty(ctx, "mapping", Key, Val)
            _rebind(I, M, new)
            M = new
        if not (isinstance(L, DistinctList) and isinstance(M, SymDict)):
            raise Unsupported(f"matching step arguments {type(L).__name__} {type(M).__name__}")
        S = z3.Select
        L0, M0dom, M0val = L.mem, M.dom, M.val
        L1 = DistinctList(ctx.fresh("L", KeySet))
        M.dom, M.val = ctx.fresh("M_dom", KeySet), ctx.fresh("M_val", z3.ArraySort(Key, Val))
        own = ctx.fresh("owner", z3.ArraySort(Key, Key))
        newk = lambda k: AND(S(M.dom, k), z3.Not(S(M0dom, k)))
        used = lambda c: AND(S(L0, c), z3.Not(S(L1.mem, c)))
        tag = "step." + self.fn
        ctx.assume(forall([c_], IMP(S(L1.mem, c_), S(L0, c_))), tag)
        ctx.assume(forall([k_], IMP(S(M0dom, k_), AND(S(M.dom, k_), S(M.val, k_) == S(M0val, k_)))), tag)
        if kind == "target_fields":
            if isinstance(T, list):
                T = I.to_symseq(T)
            inT = lambda c: z3.Exists([j_], AND(j_ >= 0, j_ < T.n, to_z3(T.get(j_), Key) == c))
            ctx.assume(forall([c_], IMP(used(c_), AND(newk(S(own, c_)), S(M.val, S(own, c_)) == VKey(c_)))), tag)
            ctx.assume(forall([k_], IMP(newk(k_), z3.Exists([c_], AND(used(c_), S(M.val, k_) == VKey(c_), S(own, c_) == k_)))), tag)
            ctx.assume(forall([k_], IMP(newk(k_), inT(k_))), tag)
            if self.fn == "_match_exact":
                ctx.assume(forall([c_], S(L1.mem, c_) == AND(S(L0, c_), z3.Not(AND(inT(c_), z3.Not(S(M0dom, c_)))))), tag)
                ctx.assume(forall([c_], IMP(AND(inT(c_), z3.Not(S(M0dom, c_)), S(L0, c_)), AND(S(M.dom, c_), S(M.val, c_) == VKey(c_)))), tag)
                ctx.assume(forall([k_], IMP(newk(k_), AND(inT(k_), S(L0, k_)))), tag)
        else:
            if not isinstance(D, DisplayMap):
                raise Unsupported("display-name mapping argument")
            ctx.assume(forall([c_], IMP(used(c_), AND(newk(S(own, c_)), uses(S(M.val, S(own, c_)), c_)))), tag)
            ctx.assume(forall([k_, c_], IMP(AND(newk(k_), uses(S(M.val, k_), c_)), AND(used(c_), S(own, c_) == k_))), tag)
            ctx.assume(forall([k_], IMP(newk(k_), S(D.featdom, k_))), tag)
        ctx.ghost.setdefault("steps", []).append({"fn": self.fn, "L0": L0, "L1": L1.mem, "own": own, "T": T if kind == "target_fields" else None})
        return L1


class Pipeline(Contract):
    """infer_node_name_map / infer_edge_name_map: every source column is used exactly once"""

    props = ("C17",)
    sym_attr = {"Key": _key_attr}

    def __init__(self, fn):
        self.fn = fn
        self.qualname = f"{NM}.{fn}"

    def run(self, I, cfg):
        ctx = I.ctx
        for fn in STEPS:
            c = StepAtCallSite(fn)
            ctx.contracts[c.qualname] = c
        ctx.contracts[BuildDisplayAssumed.qualname] = BuildDisplayAssumed()
        x = z3.Const("x!u", Key)
        ctx.assume(forall([x, c_], uses(VKey(x), c_) == (x == c_)), "uses")
        cols = DistinctList(ctx.fresh("columns", KeySet))
        C0 = cols.mem
        feats = SymDict.fresh(ctx, "available_features", Key, Val, wrap=lambda e: MetaVal(e))
        ctx.ghost["key_terms"] = []
        S = z3.Select
        if self.fn == "infer_node_name_map":
            req = SymList.fresh(ctx, "required_features", Key)
            out = call_real(I, self.qualname, [cols, req, feats], {})
        else:
            out = call_real(I, self.qualname, [cols, feats], {})
        q = self.fn
        if out[0] != "return":
            ctx.oblige(f"C17/{q}/no-exception", False, props=self.props, note=str(out[1]))
            return out
        M = out[1]
        ok = isinstance(M, SymDict)
        ctx.oblige(f"C17/{q}/ensures:returns-the-mapping", z3.BoolVal(ok), props=self.props)
        if not ok:
            return out
        steps = ctx.ghost.get("steps", [])
        own = lambda c: c
        for st in reversed(steps):
            prev = own
            own = (lambda st, prev: lambda c: z3.If(AND(S(st["L0"], c), z3.Not(S(st["L1"], c))), S(st["own"], c), prev(c)))(st, prev)
        ctx.oblige(f"C17/{q}/ensures:argument-list-not-modified", z3.BoolVal(cols.mem is C0), props=self.props)
        ctx.oblige(f"C17/{q}/ensures:every-column-is-used-by-some-key", forall([c_], IMP(S(C0, c_), AND(S(M.dom, own(c_)), uses(S(M.val, own(c_)), c_)))), props=self.props)
        ctx.oblige(f"C17/{q}/ensures:no-column-is-used-by-two-keys-and-only-columns-are-used",
                   forall([k_, c_], IMP(AND(S(M.dom, k_), uses(S(M.val, k_), c_)), AND(S(C0, c_), own(c_) == k_))), props=self.props)
        if self.fn == "infer_node_name_map":
            from pyvc.terms import lit
            inreq = lambda c: OR(c == lit("seg_id"), z3.Exists([j_], AND(j_ >= 0, j_ < req.n, to_z3(req.get(j_), Key) == c)))
            T0 = steps[0].get("T") if steps else None
            if T0 is not None:
                inT0 = lambda c: z3.Exists([j_], AND(j_ >= 0, j_ < T0.n, to_z3(T0.get(j_), Key) == c))
                ctx.lemma(f"C17/{q}/lemma:required-keys-and-seg_id-are-the-first-step's-target-fields", forall([c_], IMP(inreq(c_), inT0(c_))), props=self.props)
                ctx.lemma(f"C17/{q}/lemma:first-step-maps-a-column-spelled-like-a-target-field-to-it-and-later-steps-keep-it",
                          forall([c_], IMP(AND(S(C0, c_), inT0(c_)), AND(S(M.dom, c_), S(M.val, c_) == VKey(c_)))), props=self.props)
            # universal introduction by hand: an arbitrary column c0, with the two lemmas instantiated at c0
            c0 = ctx.fresh("any_column", Key)
            if T0 is not None:
                ctx.assume(IMP(inreq(c0), inT0(c0)), "lemma-instance")
                ctx.assume(IMP(AND(S(C0, c0), inT0(c0)), AND(S(M.dom, c0), S(M.val, c0) == VKey(c0))), "lemma-instance")
            ctx.oblige(f"C17/{q}/ensures:column-spelled-like-a-required-key-or-seg_id-is-mapped-to-it",
                       IMP(AND(S(C0, c0), inreq(c0)), AND(S(M.dom, c0), S(M.val, c0) == VKey(c0))), props=self.props)
        ctx.oblige(f"C17/{q}/ensures:some-matching-step-ran(non-vacuity)", z3.BoolVal(len(steps) >= 1), props=self.props, note=str([s["fn"] for s in steps]))
        return out


def units():
    from pyvc.verify import Unit
    return [Unit(MatchStep("_match_exact"), {}), Unit(MatchStep("_match_fuzzy"), {}), Unit(MapRemaining(), {}),
            Unit(Pipeline("infer_node_name_map"), {}), Unit(Pipeline("infer_edge_name_map"), {})]
