"""C18 - the two composing functions compute_graph_from_seg / compute_graph_from_points_list, checked against the
contracts of their callees (a caller is checked against the callee's contract, not its body).

Call-site forms of the contracts proved in contracts/candgraph.py, over one shared abstract graph (N, fr, attributes, E, edge IoU) and
frame dictionary (has, ln, el):
  nodes_from_segmentation(V, scale)        ensures  seg_clauses + frame_dict_clauses            (proved of its body)
  nodes_from_points_list(P, scale=None)    ensures  points_clauses                                (proved of its body)
  add_cand_edges(G, r, d)                  requires the three node_frame_dict facts (stated with a witness for the position map)
                                           ensures  E' = E or link                               (proved of its body)
  add_iou(G, V, d)                         requires nodes are labels of their frame, edges join nodes
                                           ensures  add_iou_clause                                (proved of its body)
Ensures of compute_graph_from_seg:  one node per non-zero label of every frame, carrying frame / seg id / area / centroid;
  an edge a -> b iff b sits in the frame right after a's and is within max_edge_distance; with iou=True every edge carries the IoU of its two masks.
"""
from __future__ import annotations

import z3

from pyvc.core import Unsupported
from pyvc.spec import Contract
from pyvc.terms import AND, IMP, OR, Bool, Int, Sym, Val, VInt, forall, to_z3
from pyvc.values import ModelObj
from pyvc.verify import call_real

from . import candgraph as CG
from .candgraph import IOc, OVc, SegVideo, a_, b_, close, f_, j_

CGS = "funtracks.candidate_graph.compute_graph.compute_graph_from_seg"
CGP = "funtracks.candidate_graph.compute_graph.compute_graph_from_points_list"
Real = z3.RealSort()


class G(ModelObj):
    """the candidate graph that flows through the composing function"""

    type_names = ("DiGraph",)

    def __init__(self, ctx):
        self.ctx = ctx
        self.N = ctx.fresh_fun("N", Int, Bool)
        self.fr = ctx.fresh_fun("fr", Int, Int)
        self.area = ctx.fresh_fun("area", Int, Val)
        self.pos = ctx.fresh_fun("pos", Int, Val)
        self.segid = ctx.fresh_fun("seg_id", Int, Int)
        self.posattr = ctx.fresh_fun("posattr", Int, CG.Pos)
        self.E = ctx.fresh_fun("E", Int, Int, Bool)
        self.AeIou = ctx.fresh_fun("edge_iou", Int, Int, Val)
        self.edges_added = 0
        ctx.assume(forall([a_, b_], z3.Not(self.E(a_, b_))), "new-graph-has-no-edges")


class D(ModelObj):
    type_names = ("dict",)

    def __init__(self, ctx):
        self.has = ctx.fresh_fun("gd_has", Int, Bool)
        self.ln = ctx.fresh_fun("gd_len", Int, Int)
        self.el = ctx.fresh_fun("gd_el", Int, Int, Int)
        self.idx = ctx.fresh_fun("gd_idx", Int, Int)


class NodesFromSegAtCall(Contract):
    qualname = CG.NFS

    def apply(self, I, args, kw):
        ctx = I.ctx
        V = args[0]
        if not isinstance(V, SegVideo):
            raise Unsupported("nodes_from_segmentation argument")
        scale = kw.get("scale", args[1] if len(args) > 1 else None)
        sp = scale.sp if isinstance(scale, CG.ScaleC) else ctx.ghost.setdefault("unit_spacing", ctx.fresh("unit_spacing", Val))
        ctx.ghost["spacing_used"] = sp
        g, d = G(ctx), D(ctx)
        for lbl, f in CG.seg_clauses(V, g, d, V.nfr) + CG.frame_dict_clauses(V, g, d, V.nfr):
            ctx.assume(f, "nodes_from_segmentation")
        ctx.ghost["calls"].append(("nodes_from_segmentation", g, d))
        return (g, d)


class NodesFromPointsAtCall(Contract):
    qualname = CG.NFPL

    def apply(self, I, args, kw):
        ctx = I.ctx
        P = args[0]
        sc = kw.get("scale", args[1] if len(args) > 1 else None)
        if not isinstance(P, CG.Points) or not (sc is None or isinstance(sc, CG.ScaleList)):
            raise Unsupported("nodes_from_points_list arguments")
        if sc is not None:
            P = P.m_binop(I, __import__("ast").Mult(), CG.ScaleVec(sc.e))  # the nodes are built from the scaled points
        ctx.ghost["points_used"] = P
        g, d = G(ctx), D(ctx)
        for lbl, f in CG.points_clauses(P, g, d, P.n):
            ctx.assume(f, "nodes_from_points_list")
        ctx.ghost["calls"].append(("nodes_from_points_list", g, d))
        return (g, d)


class AddCandEdgesAtCall(Contract):
    qualname = CG.ACE

    def apply(self, I, args, kw):
        ctx = I.ctx
        g = args[0]
        r = kw.get("max_edge_distance", args[1] if len(args) > 1 else None)
        d = kw.get("node_frame_dict", args[2] if len(args) > 2 else None)
        if not (isinstance(g, G) and isinstance(d, D)):
            raise Unsupported("add_cand_edges arguments")
        re = to_z3(r, Real)
        tag = f"call:{I.call_site_id('add_cand_edges')}"
        idxw = ctx.ghost["idx_witness"](g)  # the position of a node in its frame's list (a witness for the existential)
        P = ("C18",)
        ctx.oblige(f"{tag}/requires:keys-are-the-frames-with-a-non-empty-list", forall([f_], AND(d.ln(f_) >= 0, d.has(f_) == (d.ln(f_) > 0))), kind="pre", props=P)
        ctx.oblige(f"{tag}/requires:listed-nodes-are-nodes-of-that-frame-each-once",
                   forall([f_, j_], IMP(AND(j_ >= 0, j_ < d.ln(f_)), AND(g.N(d.el(f_, j_)), g.fr(d.el(f_, j_)) == f_, idxw(d.el(f_, j_)) == j_))), kind="pre", props=P)
        ctx.oblige(f"{tag}/requires:every-node-is-listed-under-its-frame",
                   forall([a_], IMP(g.N(a_), AND(idxw(a_) >= 0, idxw(a_) < d.ln(g.fr(a_)), d.el(g.fr(a_), idxw(a_)) == a_))), kind="pre", props=P)
        E0 = g.E
        g.E = ctx.fresh_fun("E", Int, Int, Bool)
        link = lambda a, b: AND(g.N(a), g.N(b), g.fr(b) == g.fr(a) + 1, close(a, b, re))
        ctx.assume(forall([a_, b_], g.E(a_, b_) == OR(E0(a_, b_), link(a_, b_))), "add_cand_edges")
        ctx.ghost["calls"].append(("add_cand_edges", g, d, re))
        return None


class AddIouAtCall(Contract):
    qualname = CG.AIO

    def apply(self, I, args, kw):
        ctx = I.ctx
        g, V = args[0], args[1]
        d = kw.get("node_frame_dict", args[2] if len(args) > 2 else None)
        if not (isinstance(g, G) and isinstance(V, SegVideo) and isinstance(d, D)) or kw.get("multiseg", False) is not False:
            raise Unsupported("add_iou arguments")
        tag = f"call:{I.call_site_id('add_iou')}"
        P = ("C18",)
        ctx.oblige(f"{tag}/requires:nodes-are-labels-of-their-frame", forall([a_], IMP(g.N(a_), AND(g.fr(a_) >= 0, g.fr(a_) < V.nfr, V.is_label(g.fr(a_), a_)))), kind="pre", props=P)
        ctx.oblige(f"{tag}/requires:edges-join-nodes", forall([a_, b_], IMP(g.E(a_, b_), AND(g.N(a_), g.N(b_)))), kind="pre", props=P)
        Ae0 = g.AeIou
        g.AeIou = ctx.fresh_fun("edge_iou", Int, Int, Val)
        ctx.assume(CG.add_iou_clause(g, V, Ae0, lambda a, b: z3.BoolVal(True)), "add_iou")
        ctx.ghost["calls"].append(("add_iou", g, V))
        return None


def install(I):
    ctx = I.ctx
    ctx.ghost["calls"] = []
    for c in (NodesFromSegAtCall(), NodesFromPointsAtCall(), AddCandEdgesAtCall(), AddIouAtCall()):
        ctx.contracts[c.qualname] = c


class ComputeGraphFromSeg(Contract):
    qualname = CGS
    props = ("C18",)

    def run(self, I, cfg):
        ctx = I.ctx
        install(I)
        V = SegVideo(ctx)
        CG.label_frame_axioms(ctx, V)
        ctx.ghost["idx_witness"] = lambda g: (lambda a: V.labpos(g.fr(a), a))
        r = ctx.fresh("max_edge_distance", Real)
        iou = ctx.fresh("iou", Bool)
        kw = {"iou": Sym(iou)}
        if cfg.get("scale"):
            kw["scale"] = CG.ScaleC(ctx.fresh("spacing", Val), V.ndim)
        out = call_real(I, CGS, [V, Sym(r)], kw)
        q = "compute_graph_from_seg"
        if out[0] != "return":
            ctx.oblige(f"C18/{q}/no-exception", False, props=self.props, note=str(out[1]))
            return out
        g = out[1]
        ok = isinstance(g, G)
        ctx.oblige(f"C18/{q}/ensures:returns-the-candidate-graph", z3.BoolVal(ok), props=self.props)
        if not ok:
            return out
        sp = ctx.ghost["spacing_used"]
        ctx.oblige(f"C18/{q}/ensures:one-node-per-detection(every-non-zero-label-of-every-frame-and-nothing-else)",
                   AND(forall([CG.t_, j_], IMP(AND(CG.t_ >= 0, CG.t_ < V.nfr, j_ >= 0, j_ < V.nreg(CG.t_)), AND(g.N(V.lab(CG.t_, j_)), g.fr(V.lab(CG.t_, j_)) == CG.t_))),
                       forall([a_], IMP(g.N(a_), AND(g.fr(a_) >= 0, g.fr(a_) < V.nfr, V.is_label(g.fr(a_), a_))))), props=self.props)
        ctx.oblige(f"C18/{q}/ensures:node-carries-seg-id-area-and-centroid-of-its-own-region-with-the-given-spacing",
                   forall([a_], IMP(g.N(a_), AND(g.segid(a_) == a_, g.area(a_) == CG.RPc(z3.StringVal("area"), g.fr(a_), a_, sp),
                                                 g.pos(a_) == CG.RPc(z3.StringVal("centroid"), g.fr(a_), a_, sp)))), props=self.props)
        ctx.oblige(f"C18/{q}/ensures:edge-iff-next-frame-and-within-the-maximum-distance",
                   forall([a_, b_], g.E(a_, b_) == AND(g.N(a_), g.N(b_), g.fr(b_) == g.fr(a_) + 1, close(a_, b_, r))), props=self.props)
        names = [c[0] for c in ctx.ghost["calls"]]
        ctx.oblige(f"C18/{q}/ensures:iou-attributes-added-iff-requested", z3.If(iou, z3.BoolVal(names == ["nodes_from_segmentation", "add_cand_edges", "add_iou"]),
                                                                           z3.BoolVal(names == ["nodes_from_segmentation", "add_cand_edges"])), props=self.props)
        if "add_iou" in names:
            ctx.oblige(f"C18/{q}/ensures:every-edge-carries-the-iou-of-its-two-masks(0-without-overlap)",
                       forall([a_, b_], IMP(g.E(a_, b_), g.AeIou(a_, b_) == z3.If(OVc(g.fr(a_), a_, g.fr(a_) + 1, b_), IOc(g.fr(a_), a_, g.fr(a_) + 1, b_), VInt(0)))), props=self.props)
        return out


class ComputeGraphFromPoints(Contract):
    qualname = CGP
    props = ("C18",)

    def run(self, I, cfg):
        ctx = I.ctx
        install(I)
        P = CG.Points(ctx)
        ctx.ghost["idx_witness"] = lambda g: None
        r = ctx.fresh("max_edge_distance", Real)
        # the points contract states the frame dictionary with its own position map: use it as the witness
        ctx.ghost["idx_witness"] = lambda g: (lambda a: ctx.ghost["calls"][0][2].idx(a))
        kw = {}
        if cfg.get("scale"):
            kw["scale"] = CG.ScaleList(ctx.fresh("scale", Val), P.ndims)
        out = call_real(I, CGP, [P, Sym(r)], kw)
        P = ctx.ghost.get("points_used", P)
        q = "compute_graph_from_points_list"
        if out[0] != "return":
            ctx.oblige(f"C18/{q}/no-exception", False, props=self.props, note=str(out[1]))
            return out
        g = out[1]
        ok = isinstance(g, G)
        ctx.oblige(f"C18/{q}/ensures:returns-the-candidate-graph", z3.BoolVal(ok), props=self.props)
        if not ok:
            return out
        ctx.oblige(f"C18/{q}/ensures:one-node-per-point-with-its-(scaled)-time-and-position",
                   AND(forall([a_], g.N(a_) == AND(a_ >= 0, a_ < P.n)), forall([a_], IMP(g.N(a_), AND(g.fr(a_) == P.T(a_), g.posattr(a_) == P.pos(a_))))), props=self.props)
        ctx.oblige(f"C18/{q}/ensures:edge-iff-next-frame-and-within-the-maximum-distance",
                   forall([a_, b_], g.E(a_, b_) == AND(g.N(a_), g.N(b_), g.fr(b_) == g.fr(a_) + 1, close(a_, b_, r))), props=self.props)
        return out


def units():
    from pyvc.verify import Unit
    return [Unit(ComputeGraphFromSeg(), {}), Unit(ComputeGraphFromSeg(), {"scale": True}), Unit(ComputeGraphFromPoints(), {}), Unit(ComputeGraphFromPoints(), {"scale": True})]
