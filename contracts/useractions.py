"""Contracts of the seven user-action constructors (funtracks.user_actions.*).

Each constructor is executed from its real source on a symbolic SolutionTracks that satisfies the
invariant INV (DESIGN.md 4).  Callees without loops are inlined from their real source (the strongest
contract); loop-bearing callees are used through their contracts (contracts/common.py), whose
preconditions become call-site obligations here.
"""
from __future__ import annotations

import z3

from pyvc import theory as T
from pyvc.spec import Contract
from pyvc.terms import AND, IMP, OR, Bool, Int, Key, Sym, Val, VInt, VNone, forall, is_VInt, is_VNone, iv, to_z3
from pyvc.tracksmodel import a_, b_, k_
from pyvc.values import ClassVal, Instance, PyRaise, SymDict, exc_names
from pyvc.verify import repo

from . import common as C
from . import primitives as P

UA = "funtracks.user_actions"
CLASSES = {
    "UserDeleteEdge": f"{UA}.user_delete_edge.UserDeleteEdge",
    "UserAddEdge": f"{UA}.user_add_edge.UserAddEdge",
    "UserDeleteNode": f"{UA}.user_delete_node.UserDeleteNode",
    "UserAddNode": f"{UA}.user_add_node.UserAddNode",
    "UserSwapPredecessors": f"{UA}._user_swap_predecessors.UserSwapPredecessors",
    "UserUpdateNodeAttrs": f"{UA}.user_update_node_attrs.UserUpdateNodeAttrs",
    "UserUpdateSegmentation": f"{UA}.user_update_segmentation.UserUpdateSegmentation",
}


def construct(I, cls_qual, args, kw):
    cls = repo().get_class(cls_qual)
    I.under_verification = cls_qual + ".__init__"
    try:
        return ("return", I.instantiate(cls, list(args), kw))
    except PyRaise as pr:
        return ("raise", pr.exc)


class UserAction(Contract):
    props = ("C02", "C03", "C04", "C05", "C06", "C11", "C20")

    def __init__(self, name):
        self.name = name
        self.qualname = CLASSES[name] + ".__init__"

    # ---- symbolic arguments per action
    def make_args(self, I, W, cfg):
        ctx = I.ctx
        n = self.name
        top = Sym(ctx.fresh("_top_level", Bool))
        self.top = top.e
        self.emit_arg = None
        if n == "UserDeleteEdge":
            u, w = ctx.fresh("u", Int), ctx.fresh("w", Int)
            self.named = [u, w]
            return [W.tracks, (Sym(u), Sym(w))], {"_top_level": top}
        if n == "UserAddEdge":
            u, w = ctx.fresh("u", Int), ctx.fresh("w", Int)
            force = Sym(ctx.fresh("force", Bool))
            self.named = [u, w]
            self.force = force.e
            return [W.tracks, (Sym(u), Sym(w))], {"force": force, "_top_level": top}
        if n == "UserDeleteNode":
            node = ctx.fresh("node", Int)
            self.named = [node]
            return [W.tracks, Sym(node)], {"_top_level": top}
        if n == "UserAddNode":
            node = ctx.fresh("node", Int)
            attrs = SymDict.fresh(ctx, "attrs", Key, Val)
            force = Sym(ctx.fresh("force", Bool))
            self.named = [node]
            self.force = force.e
            self.attrs = attrs
            self.emit_arg = node
            return [W.tracks, Sym(node), attrs], {"pixels": None, "force": force, "_top_level": top}
        if n == "UserSwapPredecessors":
            n1, n2 = ctx.fresh("node1", Int), ctx.fresh("node2", Int)
            self.named = [n1, n2]
            self.top = z3.BoolVal(True)
            return [W.tracks, (Sym(n1), Sym(n2))], {}
        if n == "UserUpdateNodeAttrs":
            node = ctx.fresh("node", Int)
            attrs = SymDict.fresh(ctx, "attrs", Key, Val)
            self.named = [node]
            self.top = z3.BoolVal(True)
            return [W.tracks, Sym(node), attrs], {}
        raise NotImplementedError(n)

    def assume_requires(self, I, W):
        """documented preconditions on argument *types* (not on the state)"""
        if self.name == "UserAddNode":
            has, at = C.dict_view(self.attrs)
            K = W.K
            I.ctx.assume(AND(IMP(has(K.tk), is_VInt(at(K.tk))), IMP(has(K.trk), is_VInt(at(K.trk))),
                             IMP(has(K.lk), OR(is_VInt(at(K.lk)), is_VNone(at(K.lk))))))

    def run(self, I, cfg):
        ctx = I.ctx
        W = C.world(I, has_seg=cfg.get("seg", False), lineage=True, inv=cfg.get("inv", ("forest", "trackids", "b1", "b2", "segfacts")))
        C.install_callsite_contracts(I, W)
        P.install_loopspecs(I, W)
        P.install_prim_contracts(I, W)
        args, kw = self.make_args(I, W, cfg)
        self.assume_requires(I, W)
        out = construct(I, CLASSES[self.name], args, kw)
        self.check(I, W, out)
        return out

    # ---- clauses
    def check(self, I, W, out):
        ctx, g = I.ctx, I.ctx.ghost
        q = CLASSES[self.name].split(".")[-1]
        v0, v1, K = W.v0, W.st.v, W.K
        F = z3.BoolVal(False)
        if out[0] == "raise":
            names = exc_names(out[1])
            # C11: a refused edit changes nothing
            ctx.oblige(f"C11/{q}/on-raise:no-mutation-before-the-raise", z3.BoolVal(g["muts"] == 0), props=("C11",),
                       note=f"exception={names[0]} mutations={g['muts']} log={[x[0] for x in g['log']]}")
            ctx.oblige(f"C11/{q}/on-raise:history-unchanged", z3.BoolVal(g["hadd"] == 0), props=("C11", "C02"))
            ctx.oblige(f"C20/{q}/on-raise:no-refresh", z3.BoolVal(len(g["emits"]) == 0), props=("C20", "C11"))
            return
        inst = out[1]
        top = self.top
        # C02: exactly one history entry iff top-level, and it is this action
        ok_h = (g["hadd"] == 1 and g["hadd_actions"][0] is inst)
        ctx.oblige(f"C02/{q}/ensures:one-history-entry-iff-top-level",
                   z3.If(top, z3.BoolVal(ok_h), z3.BoolVal(g["hadd"] == 0)), props=("C02",))
        # C20: exactly one refresh iff top-level, carrying the new node where one is created
        em = g["emits"]
        if self.emit_arg is not None:
            ok_e = len(em) == 1 and len(em[0]) == 1
            arg_ok = I.eq_formula(em[0][0], Sym(self.emit_arg)) if ok_e else F
            ctx.oblige(f"C20/{q}/ensures:one-refresh-iff-top-level-carrying-the-new-node",
                       z3.If(top, AND(z3.BoolVal(ok_e), arg_ok), z3.BoolVal(len(em) == 0)), props=("C20",))
        else:
            ok_e = len(em) == 1 and (len(em[0]) == 0 or em[0][0] is None)
            ctx.oblige(f"C20/{q}/ensures:one-refresh-iff-top-level", z3.If(top, z3.BoolVal(ok_e), z3.BoolVal(len(em) == 0)), props=("C20",))
        # C03: the result is again a forward-in-time binary forest
        for lbl, f in T.FOREST(v1, K):
            ctx.oblige(f"C03/{q}/ensures:{lbl}", f, props=("C03",))


def units(names=None, cfg=None):
    from pyvc.verify import Unit
    names = names or ["UserDeleteEdge", "UserAddEdge", "UserDeleteNode", "UserAddNode", "UserSwapPredecessors", "UserUpdateNodeAttrs"]
    return [Unit(UserAction(n), dict(cfg or {})) for n in names]
