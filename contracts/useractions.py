"""Contracts of the seven user-action constructors (funtracks.user_actions.*).

Each constructor is executed from its real source on a symbolic SolutionTracks that satisfies the
invariant INV (DESIGN.md 4).  Callees without loops are inlined from their real source (the strongest
contract); loop-bearing callees are used through their contracts (contracts/common.py), whose
preconditions become call-site obligations here.
"""
from __future__ import annotations

import z3

from pyvc import theory as T
from pyvc.spec import Contract
from pyvc.terms import AND, IMP, OR, Bool, Int, Key, Sym, Val, VInt, VNone, forall, is_VInt, is_VNone, iv, to_z3
from pyvc.tracksmodel import a_, b_, k_
from pyvc.values import ClassVal, Instance, PyRaise, SymDict, exc_names  # noqa
from pyvc.verify import repo

from . import common as C
from . import primitives as P

UA = "funtracks.user_actions"
CLASSES = {
    "UserDeleteEdge": f"{UA}.user_delete_edge.UserDeleteEdge",
    "UserAddEdge": f"{UA}.user_add_edge.UserAddEdge",
    "UserDeleteNode": f"{UA}.user_delete_node.UserDeleteNode",
    "UserAddNode": f"{UA}.user_add_node.UserAddNode",
    "UserSwapPredecessors": f"{UA}._user_swap_predecessors.UserSwapPredecessors",
    "UserUpdateNodeAttrs": f"{UA}.user_update_node_attrs.UserUpdateNodeAttrs",
    "UserUpdateSegmentation": f"{UA}.user_update_segmentation.UserUpdateSegmentation",
}


def construct(I, cls_qual, args, kw):
    cls = repo().get_class(cls_qual)
    I.under_verification = cls_qual + ".__init__"
    try:
        return ("return", I.instantiate(cls, list(args), kw))
    except PyRaise as pr:
        return ("raise", pr.exc)


class UserAction(Contract):
    props = ("C02", "C03", "C04", "C05", "C06", "C11", "C20")

    def __init__(self, name):
        self.name = name
        self.qualname = CLASSES[name] + ".__init__"

    # ---- symbolic arguments per action
    def make_args(self, I, W, cfg):
        ctx = I.ctx
        n = self.name
        top = Sym(ctx.fresh("_top_level", Bool))
        self.top = top.e
        self.emit_arg = None
        if n == "UserDeleteEdge":
            u, w = ctx.fresh("u", Int), ctx.fresh("w", Int)
            self.named = [u, w]
            return [W.tracks, (Sym(u), Sym(w))], {"_top_level": top}
        if n == "UserAddEdge":
            u, w = ctx.fresh("u", Int), ctx.fresh("w", Int)
            force = Sym(ctx.fresh("force", Bool))
            self.named = [u, w]
            self.force = force.e
            return [W.tracks, (Sym(u), Sym(w))], {"force": force, "_top_level": top}
        if n == "UserDeleteNode":
            node = ctx.fresh("node", Int)
            self.named = [node]
            return [W.tracks, Sym(node)], {"_top_level": top}
        if n == "UserAddNode":
            node = ctx.fresh("node", Int)
            attrs = SymDict.fresh(ctx, "attrs", Key, Val)
            force = Sym(ctx.fresh("force", Bool))
            self.named = [node]
            self.force = force.e
            self.attrs = attrs
            self.emit_arg = node
            pixels = None
            if W.seg is not None:
                from pyvc.segmodel import PixSet
                pixels = PixSet.fresh(ctx, "pixels")
            self.pixels = pixels
            return [W.tracks, Sym(node), attrs], {"pixels": pixels, "force": force, "_top_level": top}
        if n == "UserSwapPredecessors":
            n1, n2 = ctx.fresh("node1", Int), ctx.fresh("node2", Int)
            self.named = [n1, n2]
            self.top = z3.BoolVal(True)
            return [W.tracks, (Sym(n1), Sym(n2))], {}
        if n == "UserUpdateNodeAttrs":
            node = ctx.fresh("node", Int)
            attrs = SymDict.fresh(ctx, "attrs", Key, Val)
            self.named = [node]
            self.top = z3.BoolVal(True)
            return [W.tracks, Sym(node), attrs], {}
        raise NotImplementedError(n)

    def assume_requires(self, I, W):
        """documented preconditions on argument *types* (not on the state)"""
        if self.name == "UserAddNode":
            has, at = C.dict_view(self.attrs)
            K = W.K
            I.ctx.assume(AND(IMP(has(K.tk), is_VInt(at(K.tk))), IMP(has(K.trk), is_VInt(at(K.trk))),
                             IMP(has(K.pk), z3.Not(is_VNone(at(K.pk))))))
            # the lineage of a new node is derived by the action (attributes "must contain time and track_id")
            I.ctx.assume(z3.Not(has(K.lk)))
            if W.seg is not None:
                # documented preconditions of adding a node with a mask: non-empty, in the node's frame, onto background
                from pyvc.segmodel import as_pixcore
                from . import segspec
                core = as_pixcore(self.pixels)
                node = self.named[0]
                I.ctx.assume(AND(node != 0, z3.Exists([segspec.p_], core.mem(segspec.p_)), IMP(has(K.tk), core.t == iv(at(K.tk))),
                                 forall([segspec.p_], IMP(core.mem(segspec.p_), W.v0.Seg(core.t, segspec.p_) == 0))))

    def run(self, I, cfg):
        ctx = I.ctx
        inv = cfg.get("inv", ("forest", "trackids", "b1", "b2", "segfacts"))
        if cfg.get("lineage_inv"):
            inv = tuple(inv) + ("b1l",)
        W = C.world(I, has_seg=cfg.get("seg", False), lineage=True, inv=inv)
        W.with_lineage = bool(cfg.get("lineage_inv", False))
        W.lineage_lookup_contract = W.with_lineage
        W.check_invertible_here = True
        W.step_lemmas = True
        if W.with_lineage:
            for lbl, f in T.LINEAGE(W.v0, W.K):
                ctx.assume(IMP(W.act["lineage"], f), "inv." + lbl)
            ctx.assume(IMP(W.act["lineage"], forall([a_], IMP(W.v0.N(a_), iv(T.lid(W.v0, W.K, a_)) <= W.maxL()))))
            # M1b on the entry state (L1 is assumed there): lineage ids are equal along descendant paths
            B0 = C.below_of(I, W, view=W.v0)
            ctx.assume(IMP(W.act["lineage"], forall([a_, b_], IMP(B0.rel(a_, b_), T.lid(W.v0, W.K, a_) == T.lid(W.v0, W.K, b_)))), "lemma.M1b")
        if W.seg is not None:
            from . import segprims
            segprims.install_seg(I, W)
            segprims.assume_seg_invariants(I, W, which=("S", "R", "Q"))
        C.install_callsite_contracts(I, W)
        P.install_loopspecs(I, W)
        P.install_prim_contracts(I, W)
        if self.name in ("UserSwapPredecessors", "UserAddNode", "UserAddEdge"):
            c = NestedEdgeEdit(W, "UserDeleteEdge")
            ctx.contracts[c.qualname] = c
        if self.name == "UserSwapPredecessors":
            c = NestedEdgeEdit(W, "UserAddEdge")
            ctx.contracts[c.qualname] = c
        args, kw = self.make_args(I, W, cfg)
        self.assume_requires(I, W)
        self.s0 = C.Snap(W, I)
        out = construct(I, CLASSES[self.name], args, kw)
        self.check(I, W, out)
        return out

    # ---- clauses
    def check(self, I, W, out):
        ctx, g = I.ctx, I.ctx.ghost
        q = CLASSES[self.name].split(".")[-1]
        v0, v1, K = W.v0, W.st.v, W.K
        F = z3.BoolVal(False)
        if out[0] == "raise":
            names = exc_names(out[1])
            # C11: a refused edit changes nothing
            ctx.oblige(f"C11/{q}/on-raise:no-mutation-before-the-raise", z3.BoolVal(g["muts"] == 0), props=("C11",),
                       note=f"exception={names[0]} mutations={g['muts']} log={[x[0] for x in g['log']]}")
            ctx.oblige(f"C11/{q}/on-raise:history-unchanged", z3.BoolVal(g["hadd"] == 0), props=("C11", "C02"))
            ctx.oblige(f"C20/{q}/on-raise:no-refresh", z3.BoolVal(len(g["emits"]) == 0), props=("C20", "C11"))
            return
        inst = out[1]
        top = self.top
        # C01: the group records exactly the sub-actions it applied, in the order it applied them
        acts, applied = inst.fields.get("actions"), g.get("applied", [])
        same = isinstance(acts, list) and len(acts) == len(applied) and all(a is b for a, b in zip(acts, applied))
        ctx.oblige(f"C01/{q}/ensures:actions-list-records-every-applied-sub-action-in-order", z3.BoolVal(same), props=("C01",),
                   note=f"recorded={[getattr(getattr(a, 'cls', None), 'name', '?') for a in (acts or [])]} applied={[a.cls.name for a in applied]}")
        # C02: exactly one history entry iff top-level, and it is this action
        ok_h = (g["hadd"] == 1 and g["hadd_actions"][0] is inst)
        ctx.oblige(f"C02/{q}/ensures:one-history-entry-iff-top-level",
                   z3.If(top, z3.BoolVal(ok_h), z3.BoolVal(g["hadd"] == 0)), props=("C02",))
        # C20: exactly one refresh iff top-level, carrying the new node where one is created
        em = g["emits"]
        if self.emit_arg is not None:
            ok_e = len(em) == 1 and len(em[0]) == 1
            arg_ok = I.eq_formula(em[0][0], Sym(self.emit_arg)) if ok_e else F
            ctx.oblige(f"C20/{q}/ensures:one-refresh-iff-top-level-carrying-the-new-node",
                       z3.If(top, AND(z3.BoolVal(ok_e), arg_ok), z3.BoolVal(len(em) == 0)), props=("C20",))
        else:
            ok_e = len(em) == 1 and (len(em[0]) == 0 or em[0][0] is None)
            ctx.oblige(f"C20/{q}/ensures:one-refresh-iff-top-level", z3.If(top, z3.BoolVal(ok_e), z3.BoolVal(len(em) == 0)), props=("C20",))
        if self.name in ("UserDeleteEdge", "UserAddEdge"):
            s0x, s1x = self.s0, C.Snap(W, I)
            u, w = self.named
            if self.name == "UserDeleteEdge":
                for lbl, f, props in edge_edit_shape(W, s0x, s1x, u, w, False, I):
                    ctx.oblige(f"{q}/shape:{lbl}", f, props=props)
            else:
                for lbl, f, props in edge_edit_shape(W, s0x, s1x, u, w, True, I):
                    ctx.oblige(f"{q}/shape(force=False):{lbl}", IMP(z3.Not(self.force), f), props=props)
        # C03 forest, C04 track ids = segments (local form T1 & T2; global form by lemma M2),
        # C06 lookups agree with the graph and maxima dominate
        for lbl, f, props in inv_clauses(W, C.Snap(W, I)):
            fam = lbl.split(".")[0] if not lbl.startswith("C06.B2.lin") else "C05"
            ctx.oblige(f"{props[0]}/{q}/ensures:{lbl}", f, props=props, drop=DROP.get(fam, ()))


# axiom scoping (DESIGN 3.5): hypotheses a clause family does not need are left out of its obligations
DROP = {
    "C03": ("cache.", "inv.C06.B1", "inv.C05"),
    "C04": ("cache.", "inv.C06.B1", "inv.C05"),
    "C05": ("seg", "cache.", "inv.C04", "inv.C06.B1", "inv.C06.B2.trk"),
    "typing": ("seg", "cache.", "inv.C04", "inv.C06"),
    "C07": ("cache.", "inv.C06", "inv.C10", "seg"),
    "C08": ("cache.", "inv.C06", "inv.C10", "seg"),
    "C09": ("cache.", "inv.C06", "inv.C10", "seg"),
}


def inv_clauses(W, s1):
    """INV of the post state (the clauses each property owns)"""
    v1, K, ta = s1.v, W.K, W.ta
    out = [(lbl, f, ("C03",)) for lbl, f in T.FOREST(v1, K)]
    out += [(lbl, f, ("C04",)) for lbl, f in T.TRACKIDS(v1, K)]
    out += [(lbl, f, ("C06",)) for lbl, f in [("C06.B1.trk", forall([C_i, a_], s1.T[1](C_i, a_) == z3.If(AND(v1.N(a_), v1.A(a_, K.trk) == VInt(C_i)), 1, 0)))]]
    out += [(lbl, f, ("C06",)) for lbl, f in T.B2(v1, K, s1.maxT, None)]
    out.append(("typing.lineage", forall([a_], OR(is_VInt(T.lid(v1, K, a_)), is_VNone(T.lid(v1, K, a_)))), ("C05",)))
    if W.with_lineage:
        out += [(lbl, IMP(W.act["lineage"], f), ("C05",)) for lbl, f in T.LINEAGE(v1, K)]
        out.append(("C06.B2.lin", IMP(W.act["lineage"], forall([a_], IMP(v1.N(a_), iv(T.lid(v1, K, a_)) <= s1.maxL))), ("C06", "C05")))
        out.append(("C06.B1.lin", IMP(W.act["lineage"], forall([C_i, a_], s1.L[1](C_i, a_) == z3.If(AND(v1.N(a_), v1.A(a_, K.lk) == VInt(C_i)), 1, 0))), ("C06",)))
    if W.seg is not None:
        from . import segspec
        out += segspec.S_goals(W, v1) + segspec.R_clauses(W.ctx, W, v1) + segspec.Q_clause(W.ctx, W, v1)
    return out


C_i = z3.Int("i!ua")


def edge_edit_shape(W, s0, s1, u, w, added, I=None):
    """what a nested UserDeleteEdge / UserAddEdge(force=False) does besides re-establishing INV"""
    v0, v1, K = s0.v, s1.v, W.K
    t0 = lambda n: T.tid(v0, K, n)
    fresh = VInt(s0.maxT + 1)
    if added:
        bel = C.below_of(I, W, view=v0)
        c = v0.c1(u)
        exact = z3.If(v0.od(u) == 0,
                      z3.If(AND(bel(w, a_), t0(a_) == t0(w)), t0(u), t0(a_)),
                      z3.If(AND(bel(c, a_), t0(a_) == t0(c)), fresh, t0(a_)))
    else:
        bel = C.below_of(I, W, view=v1)
        sib = z3.If(v0.c1(u) == w, v0.c2(u), v0.c1(u))
        exact = z3.If(v0.od(u) == 1,
                      z3.If(AND(bel(w, a_), t0(a_) == t0(w)), fresh, t0(a_)),
                      z3.If(AND(bel(sib, a_), t0(a_) == t0(sib)), t0(u), t0(a_)))
    exact_tid = ("track-ids-rewritten-exactly-below-the-relabelled-node", forall([a_], T.tid(v1, K, a_) == exact), ("C04", "C01"))
    if added:
        shape = P.struct_edge_added(s0, s1, u, w)
        ae = ("other-edge-attrs-unchanged", forall([a_, b_, k_], IMP(z3.Not(AND(a_ == u, b_ == w)), v1.Ae(a_, b_, k_) == v0.Ae(a_, b_, k_))), ("C01",))
    else:
        shape = P.struct_edge_removed(s0, s1, u, w)[:3]
        ae = ("other-edge-attrs-unchanged", forall([a_, b_, k_], v1.Ae(a_, b_, k_) == z3.If(AND(a_ == u, b_ == w), VNone, v0.Ae(a_, b_, k_))), ("C01",))
    return shape + [
        ae, exact_tid,
        ("only-track-and-lineage-ids-change", forall([a_, k_], IMP(AND(k_ != K.trk, k_ != K.lk), v1.A(a_, k_) == v0.A(a_, k_))), ("C01", "C04")),
        ("max-track-id-not-lowered", s1.maxT >= s0.maxT, ("C06",)),
    ] + P.frames(s0, s1, ["N", "Seg"])


class NestedEdgeEdit(Contract):
    """UserDeleteEdge / UserAddEdge(force=False) used as sub-actions (_top_level=False): callers see
    INV re-established plus the shape of the edit; both are proved of the real constructors in
    their own units (clauses C03/C04/C06 and `shape:*`)."""

    def __init__(self, W, name):
        self.W, self.name = W, name
        self.qualname = CLASSES[name] + ".__init__"

    def apply(self, I, args, kw):
        W, ctx = self.W, I.ctx
        cls = repo().get_class(CLASSES[self.name])
        node = cls.find("__init__")[1]
        inst = Instance(cls)
        env = I.bind_args(node, [inst] + list(args), kw, lambda d: I.eval_in_module(d, cls.module))
        top = env["_top_level"]
        if self.name == "UserAddEdge" and not (env["force"] is False):
            raise C.Unsupported("nested UserAddEdge contract only for force=False")
        u, w = (to_z3(x, Int) for x in env["edge"])
        s0 = C.Snap(W, I)
        K = W.K
        tag = f"call:{I.call_site_id(self.name)}"
        for lbl, f, props in inv_clauses(W, s0):
            ctx.oblige(f"{tag}/requires:{lbl}", f, kind="pre", props=props)
        v0 = s0.v
        if self.name == "UserDeleteEdge":
            guard = z3.Not(v0.E(u, w))
        else:
            guard = OR(z3.Not(v0.N(u)), z3.Not(v0.N(w)), T.tm(v0, K, u) >= T.tm(v0, K, w), v0.idg(w) > 0, v0.od(u) >= 2)
        if ctx.branch(guard, f"{self.name} refuses"):
            from pyvc.values import BuiltinExc
            exc_cls = repo().get_class("funtracks.exceptions.InvalidActionError")
            raise PyRaise(Instance(exc_cls, {"forceable": False}))
        C.havoc_components(I, W, ["E", "od", "idg", "A", "Ae", "T2N", "L2N", "maxT", "maxL"])
        s1 = C.Snap(W, I)
        for lbl, f, props in inv_clauses(W, s1) + edge_edit_shape(W, s0, s1, u, w, self.name == "UserAddEdge", I):
            ctx.assume(f, "inv." + lbl)
        # lemma step M2': FOREST & T1 & T2 of the new version give the segment facts of its descendant closure
        B = C.below_of(I, W)
        for _, f in T.segment_facts(s1.v, K, B.rel):
            ctx.assume(f, "seg")
        ctx.ghost.setdefault("lemma_steps", []).append(f"M2' after nested {self.name}")
        inst.fields.update({"tracks": W.tracks, "actions": []})
        ctx.ghost["log"].append((self.name,))
        ctx.ghost.setdefault("applied", []).append(inst)
        if I.truthy(top, "nested action registers itself (_top_level)"):
            # a sub-action created as top-level registers itself in the history and emits refresh
            ctx.ghost["hadd"] += 1
            ctx.ghost.setdefault("hadd_actions", []).append(inst)
            ctx.ghost["emits"].append(())
        return inst


def units(names=None, cfg=None):
    from pyvc.verify import Unit
    names = names or ["UserDeleteEdge", "UserAddEdge", "UserDeleteNode", "UserAddNode", "UserSwapPredecessors", "UserUpdateNodeAttrs"]
    return [Unit(UserAction(n), dict(cfg or {})) for n in names]
