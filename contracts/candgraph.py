"""C18 - funtracks.candidate_graph.utils.add_cand_edges (three nested loop invariants).

Abstract state: node set N, frame fr(n) of a node, edge relation E (versioned), and an uninterpreted
close(a, b, r) standing for "distance(pos(a), pos(b)) <= r".

Assumed (external) semantics:
  node_frame_dict    frame -> list of exactly the nodes of that frame, each once; only frames with detections are keys
                     (what nodes_from_segmentation / nodes_from_points_list / _compute_node_frame_dict build)
  sorted(keys)       the keys in strictly increasing order
  KDTree(points)     remembers its points in order
  A.query_ball_tree(B, r)[i] = the indices j of B's points with close(A[i], B[j], r), each once
  graph.add_edge(a, b) adds exactly that edge

Ensures (for every number of frames, detections per frame and gaps):
  E'(a, b)  <=>  E(a, b)  or  ( N(a) and N(b) and fr(b) = fr(a) + 1 and close(a, b, max_edge_distance) )
"""
from __future__ import annotations

import z3

from pyvc.core import Unsupported
from pyvc.spec import Contract, LoopSpec
from pyvc.terms import AND, IMP, OR, Bool, Int, Sym, Val, VInt, VNone, forall, is_VNone, iv, to_z3
from pyvc.values import BuiltinExc, ModelObj, PyRaise, SymList
from pyvc.verify import call_real

ACE = "funtracks.candidate_graph.utils.add_cand_edges"
a_, b_, f_, i_, j_, k_ = z3.Ints("a!c b!c f!c i!c j!c k!c")
Real = z3.RealSort()
close = z3.Function("close", Int, Int, Real, Bool)


class World:
    def __init__(self, ctx):
        self.ctx = ctx
        self.N = ctx.fresh_fun("N", Int, Bool)
        self.fr = ctx.fresh_fun("fr", Int, Int)
        self.E = ctx.fresh_fun("E", Int, Int, Bool)
        self.r = ctx.fresh("max_edge_distance", Real)
        # node_frame_dict
        self.ln = ctx.fresh_fun("nfd_len", Int, Int)
        self.el = ctx.fresh_fun("nfd_el", Int, Int, Int)
        self.idx = ctx.fresh_fun("nfd_idx", Int, Int)
        N, fr, ln, el, idx = self.N, self.fr, self.ln, self.el, self.idx
        ctx.assume(forall([f_], ln(f_) >= 0), "nfd")
        ctx.assume(forall([f_, i_], IMP(AND(i_ >= 0, i_ < ln(f_)), AND(N(el(f_, i_)), fr(el(f_, i_)) == f_, idx(el(f_, i_)) == i_))), "nfd")
        ctx.assume(forall([a_], IMP(N(a_), AND(idx(a_) >= 0, idx(a_) < ln(fr(a_)), el(fr(a_), idx(a_)) == a_))), "nfd")

    def has(self, f):
        return self.ln(f) > 0

    def link(self, a, b):
        return AND(self.N(a), self.N(b), self.fr(b) == self.fr(a) + 1, close(a, b, self.r))


class FrameList(SymList):
    pass


def frame_list(W, f):
    out = FrameList(W.ln(f), lambda i: Sym(W.el(f, i)), elem_sort=Int)
    out.frame = f
    return out


class FrameDict(ModelObj):
    type_names = ("dict",)

    def __init__(self, W):
        self.W = W

    def m_truthy(self, I):
        w = I.ctx.fresh("some_frame", Int)
        b = I.ctx.fresh("nfd_nonempty", Bool)
        I.ctx.assume(IMP(b, self.W.has(w)))
        I.ctx.assume(IMP(z3.Not(b), forall([f_], z3.Not(self.W.has(f_)))))
        return I.ctx.branch(b, "node_frame_dict non-empty")

    def m_contains(self, I, f):
        return Sym(self.W.has(to_z3(f, Int)))

    def m_getitem(self, I, f):
        fe = to_z3(f, Int)
        if not I.ctx.branch(self.W.has(fe), "frame is a key"):
            raise PyRaise(BuiltinExc("KeyError", (f,)))
        return frame_list(self.W, fe)

    def do_keys(self, I):
        return KeysView(self.W)


class KeysView(ModelObj):
    def __init__(self, W):
        self.W = W

    def m_iter(self, I):
        return self


def sorted_keys(I, args, kw):
    v = args[0]
    if not isinstance(v, KeysView) or kw:
        raise Unsupported("sorted() of this value")
    ctx, W = I.ctx, v.W
    m = ctx.fresh("nframes", Int)
    S = ctx.fresh_fun("frames", Int, Int)
    pos = ctx.fresh_fun("frame_pos", Int, Int)
    ctx.assume(m >= 0)
    ctx.assume(forall([j_], IMP(AND(j_ >= 0, j_ < m), AND(W.has(S(j_)), pos(S(j_)) == j_))), "sorted")
    ctx.assume(forall([f_], IMP(W.has(f_), AND(pos(f_) >= 0, pos(f_) < m, S(pos(f_)) == f_))), "sorted")
    ctx.assume(forall([j_, k_], IMP(AND(j_ >= 0, j_ < k_, k_ < m), S(j_) < S(k_))), "sorted")
    out = SymList(m, lambda j: Sym(S(j)), elem_sort=Int)
    out.S, out.pos = S, pos
    W.frames = out
    return out


class NodeAttrs(ModelObj):
    def __init__(self, n):
        self.n = n

    def m_getitem(self, I, k):
        if k == "pos":
            return Sym(self.n)  # the position of node n is represented by n itself (close() is stated over nodes)
        raise Unsupported(f"node attribute {k!r}")


class NodesView(ModelObj):
    def m_getitem(self, I, n):
        return NodeAttrs(to_z3(n, Int))


class CandGraph(ModelObj):
    type_names = ("DiGraph",)

    def __init__(self, W):
        self.W = W

    def attr_nodes(self, I):
        return NodesView()

    def do_add_edge(self, I, a, b, **attrs):
        if attrs:
            raise Unsupported("edge attributes")
        W = self.W
        ae, be = to_z3(a, Int), to_z3(b, Int)
        old = W.E
        new = W.ctx.fresh_fun("E", Int, Int, Bool)
        W.ctx.assume(forall([a_, b_], new(a_, b_) == OR(old(a_, b_), AND(a_ == ae, b_ == be))))
        W.E = new


class KD(ModelObj):
    """KDTree(points) / a carried-over tree that may be None"""

    def __init__(self, pts, is_none=None):
        self.pts, self.is_none = pts, is_none if is_none is not None else z3.BoolVal(False)

    def m_is_none(self, I):
        return self.is_none

    def do_query_ball_tree(self, I, other, r):
        ctx = I.ctx
        if not isinstance(other, KD):
            raise Unsupported("query_ball_tree argument")
        re = to_z3(r, Real)
        A, B = self.pts, other.pts
        pa = lambda i: to_z3(A.get(i), Int)
        pb = lambda k: to_z3(B.get(k), Int)
        cnt = ctx.fresh_fun("nmatch", Int, Int)
        mi = ctx.fresh_fun("match", Int, Int, Int)
        rk = ctx.fresh_fun("match_rank", Int, Int, Int)
        ina = lambda i: AND(i >= 0, i < A.n)
        ctx.assume(forall([i_], IMP(ina(i_), cnt(i_) >= 0)), "kd")
        ctx.assume(forall([i_, j_], IMP(AND(ina(i_), j_ >= 0, j_ < cnt(i_)),
                                       AND(mi(i_, j_) >= 0, mi(i_, j_) < B.n, close(pa(i_), pb(mi(i_, j_)), re), rk(i_, mi(i_, j_)) == j_))), "kd")
        ctx.assume(forall([i_, k_], IMP(AND(ina(i_), k_ >= 0, k_ < B.n, close(pa(i_), pb(k_), re)),
                                       AND(rk(i_, k_) >= 0, rk(i_, k_) < cnt(i_), mi(i_, rk(i_, k_)) == k_))), "kd")

        def row(i):
            out = SymList(cnt(i), lambda j: Sym(mi(i, j)), elem_sort=Int)
            out.row, out.q = i, Q
            return out
        M = SymList(A.n, row)
        Q = type("Q", (), {"cnt": cnt, "mi": mi, "rk": rk, "A": A, "B": B, "r": re})
        M.q = Q
        return M


def kdtree_ext(I, args, kw):
    pts = args[0]
    if not isinstance(pts, SymList):
        pts = I.to_symseq(pts)
    return KD(pts)


def to_val(x):
    if x is None:
        return VNone
    if isinstance(x, Sym) and x.sort() == Int:
        return VInt(x.e)
    if isinstance(x, Sym) and x.sort() == Val:
        return x.e
    if isinstance(x, int):
        return VInt(z3.IntVal(x))
    raise Unsupported("prev_frame value")


def same_list(L, W, f):
    """L is the node list of frame f"""
    return AND(L.n == W.ln(f), forall([i_], IMP(AND(i_ >= 0, i_ < W.ln(f)), to_z3(L.get(i_), Int) == W.el(f, i_))))


class FramesLoop(LoopSpec):
    """for frame in frames  (u frames processed):
       OE  the edges are the initial ones plus every link leaving a processed frame
       OC  the carried-over frame is None or a key whose node list and tree are the carried-over ones"""

    props = ("C18",)

    def __init__(self, W, E0):
        self.W, self.E0 = W, E0

    def enter(self, I, fr, it):
        self.S = it

    def havoc(self, I, fr, it, i, assigned):
        ctx, W = I.ctx, self.W
        for nm in ("frame", "next_node_ids", "next_kdtree", "matched_indices", "prev_node_id", "next_node_indices", "next_node_index", "next_node_id"):
            fr.env.pop(nm, None)
        pf = ctx.fresh("prev_frame", Val)
        fr.env["prev_frame"] = Sym(pf)
        P = SymList.fresh(ctx, "prev_node_ids", Int)
        fr.env["prev_node_ids"] = P
        fr.env["prev_kdtree"] = KD(SymList.fresh(ctx, "prev_tree_points", Int), is_none=ctx.fresh("prev_tree_is_none", Bool))
        W.E = ctx.fresh_fun("E", Int, Int, Bool)

    def inv(self, I, fr, it, u):
        W = self.W
        pos = it.pos
        pf = to_val(fr.env["prev_frame"])
        P, kd = fr.env["prev_node_ids"], fr.env["prev_kdtree"]
        if isinstance(P, list):
            P = I.to_symseq(P) if P else SymList(z3.IntVal(0), lambda i: Sym(z3.IntVal(0)), elem_sort=Int)
        kd_none = z3.BoolVal(True) if kd is None else kd.is_none
        out = [("OE.edges-are-the-links-leaving-processed-frames",
                forall([a_, b_], W.E(a_, b_) == OR(self.E0(a_, b_), AND(W.link(a_, b_), pos(W.fr(a_)) < u))))]
        carried = z3.BoolVal(True)
        if kd is not None:
            carried = AND(W.has(iv(pf)), same_list(P, W, iv(pf)), same_list(kd.pts, W, iv(pf)), z3.Not(kd_none))
        out.append(("OC.carried-over-frame-list-and-tree-belong-together", OR(AND(is_VNone(pf), kd_none), AND(z3.Not(is_VNone(pf)), carried))))
        return out


class PrevNodesLoop(LoopSpec):
    """for prev_node_id, next_node_indices in zip(prev_node_ids, matched_indices)   (i nodes of `frame` linked)"""

    props = ("C18",)

    def __init__(self, W):
        self.W = W

    def enter(self, I, fr, it):
        self.E_entry = self.W.E
        self.frame = fr.env["frame"].e

    def havoc(self, I, fr, it, i, assigned):
        for nm in ("prev_node_id", "next_node_indices", "next_node_index", "next_node_id"):
            fr.env.pop(nm, None)
        self.W.E = I.ctx.fresh_fun("E", Int, Int, Bool)

    def inv(self, I, fr, it, i):
        W, f = self.W, self.frame
        return [("ME.links-of-the-first-i-nodes-of-the-frame",
                 forall([a_, b_], W.E(a_, b_) == OR(self.E_entry(a_, b_), AND(W.link(a_, b_), W.fr(a_) == f, W.idx(a_) < i))))]


class MatchesLoop(LoopSpec):
    """for next_node_index in next_node_indices   (j matches of the current node linked)"""

    props = ("C18",)

    def __init__(self, W):
        self.W = W

    def enter(self, I, fr, it):
        self.E_entry = self.W.E
        self.node = to_z3(fr.env["prev_node_id"], Int)

    def havoc(self, I, fr, it, i, assigned):
        for nm in ("next_node_index", "next_node_id"):
            fr.env.pop(nm, None)
        self.W.E = I.ctx.fresh_fun("E", Int, Int, Bool)

    def inv(self, I, fr, it, j):
        W = self.W
        q, row = it.q, it.row
        return [("IE.first-j-matches-of-the-node",
                 forall([a_, b_], W.E(a_, b_) == OR(self.E_entry(a_, b_), AND(a_ == self.node, W.link(a_, b_), q.rk(row, W.idx(b_)) < j))))]


class ComputeNodeFrameDictAssumed(Contract):
    """_compute_node_frame_dict(cand_graph) at the call site: the frame -> nodes mapping of the graph (assumed)"""

    qualname = "funtracks.candidate_graph.utils._compute_node_frame_dict"

    def __init__(self, W):
        self.W = W

    def apply(self, I, args, kw):
        return FrameDict(self.W)


class AddCandEdges(Contract):
    qualname = ACE
    props = ("C18",)
    ext = {"model.sorted": sorted_keys, "tqdm.tqdm": lambda I, a, k: a[0], "scipy.spatial.KDTree": kdtree_ext,
           "scipy.spatial._kdtree.KDTree": kdtree_ext}

    def run(self, I, cfg):
        ctx = I.ctx
        W = World(ctx)
        E0 = W.E
        g = CandGraph(W)
        nfd = FrameDict(W)
        c = ComputeNodeFrameDictAssumed(W)
        ctx.contracts[c.qualname] = c
        ctx.loopspecs[(ACE, 0)] = FramesLoop(W, E0)
        ctx.loopspecs[(ACE, 1)] = PrevNodesLoop(W)
        ctx.loopspecs[(ACE, 2)] = MatchesLoop(W)
        out = call_real(I, ACE, [g, Sym(W.r), nfd], {})
        q = "add_cand_edges"
        if out[0] != "return":
            ctx.oblige(f"C18/{q}/no-exception", False, props=self.props, note=str(out[1]))
            return out
        ctx.oblige(f"C18/{q}/ensures:edge-iff-next-frame-and-within-max-distance",
                   forall([a_, b_], W.E(a_, b_) == OR(E0(a_, b_), W.link(a_, b_))), props=self.props)
        return out


# ------------------------------------------------------------------ _compute_node_frame_dict
CNFD = "funtracks.candidate_graph.utils._compute_node_frame_dict"


class GrowDict(ModelObj):
    """a dict frame -> list of nodes that is built by `d[t] = []` and `d[t].append(n)`: has(f), ln(f), el(f, j), idx(n)"""

    type_names = ("dict",)

    def __init__(self, ctx):
        self.ctx = ctx
        self.fresh()

    def fresh(self):
        ctx = self.ctx
        self.has = ctx.fresh_fun("gd_has", Int, Bool)
        self.ln = ctx.fresh_fun("gd_len", Int, Int)
        self.el = ctx.fresh_fun("gd_el", Int, Int, Int)
        self.idx = ctx.fresh_fun("gd_idx", Int, Int)

    @staticmethod
    def empty(ctx):
        d = GrowDict(ctx)
        ctx.assume(forall([f_], AND(z3.Not(d.has(f_)), d.ln(f_) == 0)))
        return d

    def m_contains(self, I, f):
        return Sym(self.has(to_z3(f, Int)))

    def m_setitem(self, I, f, v):
        if not (isinstance(v, list) and not v):
            raise Unsupported("only `d[t] = []` is modelled")
        fe = to_z3(f, Int)
        has0, ln0 = self.has, self.ln
        self.has = self.ctx.fresh_fun("gd_has", Int, Bool)
        self.ln = self.ctx.fresh_fun("gd_len", Int, Int)
        self.ctx.assume(forall([f_], AND(self.has(f_) == OR(has0(f_), f_ == fe), self.ln(f_) == z3.If(f_ == fe, 0, ln0(f_)))))

    def m_getitem(self, I, f):
        fe = to_z3(f, Int)
        if not I.ctx.branch(self.has(fe), "frame is a key"):
            raise PyRaise(BuiltinExc("KeyError", (f,)))
        return GrowList(self, fe)


class GrowList(ModelObj):
    type_names = ("list",)

    def __init__(self, d, f):
        self.d, self.f = d, f

    def do_append(self, I, x):
        d, f, ctx = self.d, self.f, self.d.ctx
        xe = to_z3(x, Int)
        ln0, el0, idx0 = d.ln, d.el, d.idx
        d.ln = ctx.fresh_fun("gd_len", Int, Int)
        d.el = ctx.fresh_fun("gd_el", Int, Int, Int)
        d.idx = ctx.fresh_fun("gd_idx", Int, Int)
        ctx.assume(forall([f_], d.ln(f_) == z3.If(f_ == f, ln0(f_) + 1, ln0(f_))))
        ctx.assume(forall([f_, j_], d.el(f_, j_) == z3.If(AND(f_ == f, j_ == ln0(f)), xe, el0(f_, j_))))
        ctx.assume(forall([a_], d.idx(a_) == z3.If(a_ == xe, ln0(f), idx0(a_))))


class TimeAttrs(ModelObj):
    def __init__(self, W, n):
        self.W, self.n = W, n

    def m_getitem(self, I, k):
        if k == "time":
            return Sym(self.W.fr(self.n))
        raise Unsupported(f"node attribute {k!r}")


class NodesCallable(ModelObj):
    """graph.nodes[...] and graph.nodes(data=True): the nodes in some order without repetition, with their attributes"""

    def __init__(self, W):
        self.W = W

    def m_getitem(self, I, n):
        return NodeAttrs(to_z3(n, Int))

    def m_call_self(self, I, args, kw):
        if args or kw.get("data") is not True:
            raise Unsupported("graph.nodes(...) arguments")
        return self.W.node_list


class CandGraph2(CandGraph):
    def attr_nodes(self, I):
        return NodesCallable(self.W)


class BuildLoop(LoopSpec):
    """for node, data in cand_graph.nodes(data=True)  (k nodes filed): every key has a non-empty list; every listed node is
    one of the first k nodes, sits in the list of its frame at its own index; every one of the first k nodes is listed"""

    props = ("C18",)

    def __init__(self, W):
        self.W = W

    def enter(self, I, fr, it):
        d = fr.env["node_frame_dict"]
        if not isinstance(d, GrowDict):
            fr.env["node_frame_dict"] = GrowDict.empty(I.ctx)

    def havoc(self, I, fr, it, i, assigned):
        for nm in ("node", "data", "t"):
            fr.env.pop(nm, None)
        fr.env["node_frame_dict"].fresh()
        d = fr.env["node_frame_dict"]
        d.has = I.ctx.fresh_fun("gd_has", Int, Bool)

    def inv(self, I, fr, it, k):
        W, d = self.W, fr.env["node_frame_dict"]
        return nfd_clauses(W, d, k)


def nfd_clauses(W, d, k):
    pos = W.node_pos
    return [
        ("keys-are-the-frames-with-a-non-empty-list", forall([f_], AND(d.ln(f_) >= 0, d.has(f_) == (d.ln(f_) > 0)))),
        ("listed-nodes-sit-in-their-frame's-list-once", forall([f_, j_], IMP(AND(j_ >= 0, j_ < d.ln(f_)), AND(W.N(d.el(f_, j_)), pos(d.el(f_, j_)) < k, W.fr(d.el(f_, j_)) == f_, d.idx(d.el(f_, j_)) == j_)))),
        ("every-filed-node-is-listed", forall([a_], IMP(AND(W.N(a_), pos(a_) < k), AND(d.idx(a_) >= 0, d.idx(a_) < d.ln(W.fr(a_)), d.el(W.fr(a_), d.idx(a_)) == a_)))),
    ]


class ComputeNodeFrameDict(Contract):
    """the real _compute_node_frame_dict establishes exactly what add_cand_edges assumes of node_frame_dict"""

    qualname = CNFD
    props = ("C18",)

    def run(self, I, cfg):
        ctx = I.ctx
        W = World(ctx)
        n = ctx.fresh("n_nodes", Int)
        NLf = ctx.fresh_fun("node_at", Int, Int)
        pos = ctx.fresh_fun("node_pos", Int, Int)
        ctx.assume(n >= 0)
        ctx.assume(forall([i_], IMP(AND(i_ >= 0, i_ < n), AND(W.N(NLf(i_)), pos(NLf(i_)) == i_))))
        ctx.assume(forall([a_], IMP(W.N(a_), AND(pos(a_) >= 0, pos(a_) < n, NLf(pos(a_)) == a_))))
        W.node_pos = pos
        W.node_list = SymList(n, lambda i: (Sym(NLf(i)), TimeAttrs(W, NLf(i))))
        g = CandGraph2(W)
        ctx.loopspecs[(CNFD, 0)] = BuildLoop(W)
        out = call_real(I, CNFD, [g], {})
        q = "_compute_node_frame_dict"
        if out[0] != "return":
            ctx.oblige(f"C18/{q}/no-exception", False, props=self.props, note=str(out[1]))
            return out
        d = out[1]
        ok = isinstance(d, GrowDict)
        ctx.oblige(f"C18/{q}/ensures:returns-the-mapping", z3.BoolVal(ok), props=self.props)
        if ok:
            for lbl, f in nfd_clauses(W, d, n):
                ctx.oblige(f"C18/{q}/ensures:{lbl}", f, props=self.props)
        return out


# ------------------------------------------------------------------ nodes_from_points_list
NFPL = "funtracks.candidate_graph.utils.nodes_from_points_list"
Pos = z3.DeclareSort("PosVal")


class PointRow(ModelObj):
    def __init__(self, P, i):
        self.P, self.i = P, i

    def m_getitem(self, I, idx):
        if idx == 0:
            return Sym(self.P.T(self.i))
        if isinstance(idx, slice) and idx.start == 1 and idx.stop is None and idx.step is None:
            return PosSlice(self.P, self.i)
        raise Unsupported("point index")


class PosSlice(ModelObj):
    def __init__(self, P, i):
        self.P, self.i = P, i

    def m_to_list(self, I):
        return PosList(self.P, self.i)


class PosList(ModelObj):
    """list(point[1:]): the position of point i as an opaque value"""

    type_names = ("list",)

    def __init__(self, P, i):
        self.e = P.pos(i)


class Points(ModelObj):
    """an N x D array of points: T(i) = point[i][0] (time), pos(i) = the remaining coordinates (opaque)"""

    type_names = ("ndarray",)

    def __init__(self, ctx):
        self.n = ctx.fresh("n_points", Int)
        self.ndims = ctx.fresh("n_dims", Int)
        self.T = ctx.fresh_fun("pt_time", Int, Int)
        self.pos = ctx.fresh_fun("pt_pos", Int, Pos)
        ctx.assume(self.n >= 0)

    def m_iter(self, I):
        return SymList(self.n, lambda i: PointRow(self, i))

    def attr_shape(self, I):
        return (Sym(self.n), Sym(self.ndims))

    def m_binop(self, I, op, other, inplace=False):
        """points_list * np.array(scale): every coordinate multiplied by its factor - time by scale[0], the position by scale[1:]"""
        import ast
        if not (isinstance(op, ast.Mult) and isinstance(other, ScaleVec)):
            raise Unsupported("point arithmetic")
        out = Points.__new__(Points)
        out.n, out.ndims = self.n, self.ndims
        T0, p0 = self.T, self.pos
        out.T = lambda i: scaled_time(T0(i), other.e)
        out.pos = lambda i: scaled_pos(p0(i), other.e)
        out.unscaled = self
        return out


scaled_time = z3.Function("scaled_time", Int, Val, Int)
scaled_pos = z3.Function("scaled_pos", Pos, Val, Pos)


class ScaleList(ModelObj):
    """scale: a list of one factor per dimension"""

    type_names = ("list",)

    def __init__(self, e, n):
        self.e, self.n = e, n

    def m_len(self, I):
        return Sym(self.n)


class ScaleVec(ModelObj):
    type_names = ("ndarray",)

    def __init__(self, e):
        self.e = e


def np_array_ext(I, args, kw):
    if isinstance(args[0], ScaleList):
        return ScaleVec(args[0].e)
    raise Unsupported("np.array argument")


class NewGraph(ModelObj):
    """nx.DiGraph() being filled by add_node(n, time=..., pos=...)"""

    type_names = ("DiGraph",)

    def __init__(self, ctx):
        self.ctx = ctx
        self.N = ctx.fresh_fun("N", Int, Bool)
        self.fr = ctx.fresh_fun("fr", Int, Int)
        self.posattr = ctx.fresh_fun("posattr", Int, Pos)
        ctx.assume(forall([a_], z3.Not(self.N(a_))))
        self.edges_added = 0

    def havoc(self):
        ctx = self.ctx
        self.N = ctx.fresh_fun("N", Int, Bool)
        self.fr = ctx.fresh_fun("fr", Int, Int)
        self.posattr = ctx.fresh_fun("posattr", Int, Pos)

    def do_add_node(self, I, n, **attrs):
        if set(attrs) != {"time", "pos"} or not isinstance(attrs["pos"], PosList):
            raise Unsupported(f"add_node attributes {sorted(attrs)}")
        ne, te, pe = to_z3(n, Int), to_z3(attrs["time"], Int), attrs["pos"].e
        N0, fr0, p0 = self.N, self.fr, self.posattr
        self.havoc()
        self.ctx.assume(forall([a_], AND(self.N(a_) == OR(N0(a_), a_ == ne), self.fr(a_) == z3.If(a_ == ne, te, fr0(a_)),
                                         self.posattr(a_) == z3.If(a_ == ne, pe, p0(a_)))))

    def do_add_edge(self, I, *a, **k):
        self.edges_added += 1


class PointsLoop(LoopSpec):
    """for i, point in enumerate(points_list)  (k points added): nodes are 0..k-1 with the point's time and position; the frame
    dictionary files exactly those nodes"""

    props = ("C18",)

    def __init__(self, P):
        self.P = P

    def enter(self, I, fr, it):
        if not isinstance(fr.env["node_frame_dict"], GrowDict):
            fr.env["node_frame_dict"] = GrowDict.empty(I.ctx)

    def havoc(self, I, fr, it, i, assigned):
        for nm in ("i", "point", "t", "pos", "node_id", "attrs"):
            fr.env.pop(nm, None)
        fr.env["node_frame_dict"].fresh()
        fr.env["cand_graph"].havoc()

    def inv(self, I, fr, it, k):
        return points_clauses(self.P, fr.env["cand_graph"], fr.env["node_frame_dict"], k)


def points_clauses(P, g, d, k):
    W = type("W", (), {"N": g.N, "fr": g.fr, "node_pos": staticmethod(lambda a: a)})
    return [
        ("one-node-per-point-with-its-index-as-id", forall([a_], g.N(a_) == AND(a_ >= 0, a_ < k))),
        ("node-carries-the-point's-time-and-position", forall([a_], IMP(AND(a_ >= 0, a_ < k), AND(g.fr(a_) == P.T(a_), g.posattr(a_) == P.pos(a_))))),
        ("no-edges-added", z3.BoolVal(g.edges_added == 0)),
    ] + nfd_clauses(W, d, k)


class NodesFromPointsList(Contract):
    qualname = NFPL
    props = ("C18",)

    def run(self, I, cfg):
        ctx = I.ctx
        P = Points(ctx)
        made = []

        def digraph(I_, a, k):
            g = NewGraph(ctx)
            made.append(g)
            return g
        I.ext["networkx.DiGraph"] = digraph
        Pq = P
        if cfg.get("scale"):
            sc = ScaleList(ctx.fresh("scale", Val), P.ndims)
            I.ext["numpy.array"] = np_array_ext
            Pq = P * sc if False else P.m_binop(I, __import__("ast").Mult(), ScaleVec(sc.e))  # what the code computes: the points the nodes are built from
            ctx.loopspecs[(NFPL, 0)] = PointsLoop(Pq)
            out = call_real(I, NFPL, [P], {"scale": sc})
        else:
            ctx.loopspecs[(NFPL, 0)] = PointsLoop(P)
            out = call_real(I, NFPL, [P], {"scale": None})
        P = Pq
        q = "nodes_from_points_list"
        if out[0] != "return":
            ctx.oblige(f"C18/{q}/no-exception", False, props=self.props, note=str(out[1]))
            return out
        res = out[1]
        ok = isinstance(res, tuple) and len(res) == 2 and isinstance(res[0], NewGraph) and isinstance(res[1], GrowDict) and len(made) == 1
        ctx.oblige(f"C18/{q}/ensures:returns-(graph,frame-dictionary)", z3.BoolVal(ok), props=self.props)
        if ok:
            for lbl, f in points_clauses(P, res[0], res[1], P.n):
                ctx.oblige(f"C18/{q}/ensures:{lbl}", f, props=self.props)
        return out


# ------------------------------------------------------------------ nodes_from_segmentation
NFS = "funtracks.candidate_graph.utils.nodes_from_segmentation"
Pix = z3.DeclareSort("PixC")
t_ = z3.Int("t!c")
px_ = z3.Const("p!c", Pix)
RPc = z3.Function("regionprop", z3.StringSort(), Int, Int, Val, Val)  # (attribute, frame, label, spacing) -> measurement


class SegVideo(ModelObj):
    """label video: Seg(t, p); the regions of frame t are its non-zero labels, each once (nreg, lab, labpos)"""

    type_names = ("ndarray",)

    def __init__(self, ctx):
        self.ctx = ctx
        self.Seg = ctx.fresh_fun("Seg", Int, Pix, Int)
        self.nfr = ctx.fresh("n_frames", Int)
        self.ndim = ctx.fresh("ndim", Int)
        self.nreg = ctx.fresh_fun("n_regions", Int, Int)
        self.lab = ctx.fresh_fun("region_label", Int, Int, Int)
        self.labpos = ctx.fresh_fun("region_pos", Int, Int, Int)
        self.labpix = ctx.fresh_fun("region_pixel", Int, Int, Pix)
        Seg, nreg, lab, labpos = self.Seg, self.nreg, self.lab, self.labpos
        ctx.assume(AND(self.nfr >= 0, self.ndim >= 2))
        ctx.assume(forall([t_], nreg(t_) >= 0), "regions")
        ctx.assume(forall([t_, j_], IMP(AND(j_ >= 0, j_ < nreg(t_)), AND(lab(t_, j_) != 0, Seg(t_, self.labpix(t_, j_)) == lab(t_, j_), labpos(t_, lab(t_, j_)) == j_))), "regions")
        ctx.assume(forall([t_, px_], IMP(Seg(t_, px_) != 0, AND(labpos(t_, Seg(t_, px_)) >= 0, labpos(t_, Seg(t_, px_)) < nreg(t_), lab(t_, labpos(t_, Seg(t_, px_))) == Seg(t_, px_)))), "regions")

    def is_label(self, t, n):
        return AND(self.labpos(t, n) >= 0, self.labpos(t, n) < self.nreg(t), self.lab(t, self.labpos(t, n)) == n)

    def attr_ndim(self, I):
        return Sym(self.ndim)

    def m_len(self, I):
        return Sym(self.nfr)

    def m_getitem(self, I, t):
        return SegFrame(self, to_z3(t, Int))


class SegFrame(ModelObj):
    type_names = ("ndarray",)

    def __init__(self, V, t):
        self.V, self.t = V, t


class RegionC(ModelObj):
    def __init__(self, V, t, lab, sp):
        self.V, self.t, self.lab_, self.sp = V, t, lab, sp

    def attr_label(self, I):
        return Sym(self.lab_)

    def attr_area(self, I):
        return Sym(RPc(z3.StringVal("area"), self.t, self.lab_, self.sp))

    def attr_centroid(self, I):
        return Sym(RPc(z3.StringVal("centroid"), self.t, self.lab_, self.sp))


def regionprops_ext(I, args, kw):
    """skimage.measure.regionprops(frame, spacing=...): one region per non-zero label of the frame, each once (assumed)"""
    fr = args[0]
    if not isinstance(fr, SegFrame):
        raise Unsupported("regionprops argument")
    sp = kw.get("spacing")
    ctx = I.ctx
    if isinstance(sp, Sym) and sp.sort() == Val:
        spv = sp.e
    else:
        spv = ctx.ghost.setdefault("unit_spacing", ctx.fresh("unit_spacing", Val))  # tuple([1] * ndim [1:])
    V, t = fr.V, fr.t
    out = SymList(V.nreg(t), lambda j: RegionC(V, t, V.lab(t, j), spv))
    out.frame_t, out.sp = t, spv
    ctx.ghost.setdefault("spacings_seen", []).append(spv)
    return out


class SegGraph(ModelObj):
    """nx.DiGraph() filled by add_node(n, time=, area=, seg_id=, pos=)"""

    type_names = ("DiGraph",)

    def __init__(self, ctx):
        self.ctx = ctx
        self.N = ctx.fresh_fun("N", Int, Bool)
        self.fr = ctx.fresh_fun("fr", Int, Int)
        self.area = ctx.fresh_fun("area", Int, Val)
        self.pos = ctx.fresh_fun("pos", Int, Val)
        self.segid = ctx.fresh_fun("seg_id", Int, Int)
        ctx.assume(forall([a_], z3.Not(self.N(a_))))
        self.edges_added = 0

    def havoc(self):
        ctx = self.ctx
        self.N, self.fr = ctx.fresh_fun("N", Int, Bool), ctx.fresh_fun("fr", Int, Int)
        self.area, self.pos, self.segid = ctx.fresh_fun("area", Int, Val), ctx.fresh_fun("pos", Int, Val), ctx.fresh_fun("seg_id", Int, Int)

    def attr_nodes(self, I):
        return SegNodes(self)

    def do_add_node(self, I, n, **attrs):
        if set(attrs) != {"time", "area", "seg_id", "pos"}:
            raise Unsupported(f"add_node attributes {sorted(attrs)}")
        ne = to_z3(n, Int)
        N0, f0, a0, p0, s0 = self.N, self.fr, self.area, self.pos, self.segid
        self.havoc()
        te, ae, pe, se = to_z3(attrs["time"], Int), to_z3(attrs["area"], Val), to_z3(attrs["pos"], Val), to_z3(attrs["seg_id"], Int)
        self.ctx.assume(forall([a_], AND(self.N(a_) == OR(N0(a_), a_ == ne), self.fr(a_) == z3.If(a_ == ne, te, f0(a_)), self.area(a_) == z3.If(a_ == ne, ae, a0(a_)),
                                         self.pos(a_) == z3.If(a_ == ne, pe, p0(a_)), self.segid(a_) == z3.If(a_ == ne, se, s0(a_)))))

    def do_add_edge(self, I, *a, **k):
        self.edges_added += 1


class SegNodes(ModelObj):
    def __init__(self, g):
        self.g = g

    def m_contains(self, I, n):
        return Sym(self.g.N(to_z3(n, Int)))


def growlist_extend(gl, L):
    """d[t].extend(L) for a symbolic list L of distinct nodes"""
    d, f, ctx = gl.d, gl.f, gl.d.ctx
    if not isinstance(L, SymList):
        raise Unsupported("extend argument")
    ln0, el0, idx0 = d.ln, d.el, d.idx
    d.ln, d.el, d.idx = ctx.fresh_fun("gd_len", Int, Int), ctx.fresh_fun("gd_el", Int, Int, Int), ctx.fresh_fun("gd_idx", Int, Int)
    inL = lambda n, j: AND(j >= 0, j < L.n, to_z3(L.get(j), Int) == n)
    Lpos = ctx.fresh_fun("ext_pos", Int, Int)
    ctx.assume(forall([j_], IMP(AND(j_ >= 0, j_ < L.n), Lpos(to_z3(L.get(j_), Int)) == j_)), "extend.distinct")  # the extended list has no repetition (its own invariant)
    ctx.assume(forall([f_], d.ln(f_) == z3.If(f_ == f, ln0(f_) + L.n, ln0(f_))))
    ctx.assume(forall([f_, j_], d.el(f_, j_) == z3.If(AND(f_ == f, j_ >= ln0(f), j_ < ln0(f) + L.n), to_z3(L.get(j_ - ln0(f)), Int), el0(f_, j_))))
    ctx.assume(forall([a_], d.idx(a_) == z3.If(inL(a_, Lpos(a_)), ln0(f) + Lpos(a_), idx0(a_))))


GrowList.do_extend = lambda self, I, L: growlist_extend(self, L)


def seg_clauses(V, g, d, T, upto=None):
    """nodes = labels of frames < T (plus, inside frame T, the first `upto` regions)"""
    done = lambda n: OR(AND(g.fr(n) >= 0, g.fr(n) < T), AND(upto is not None, g.fr(n) == T, V.labpos(T, n) < (upto if upto is not None else 0))) if upto is not None else AND(g.fr(n) >= 0, g.fr(n) < T)
    sp = g.ctx.ghost.get("spacing_used")
    in_done = (lambda t, j: AND(t >= 0, t < T)) if upto is None else (lambda t, j: OR(AND(t >= 0, t < T), AND(t == T, j < upto)))
    out = [
        ("nodes-are-the-labels-of-the-processed-frames", forall([a_], g.N(a_) == AND(V.is_label(g.fr(a_), a_), done(a_)))),
        ("every-label-of-a-processed-frame-is-a-node-with-that-frame-as-its-time",
         forall([t_, j_], IMP(AND(in_done(t_, j_), j_ >= 0, j_ < V.nreg(t_)), AND(g.N(V.lab(t_, j_)), g.fr(V.lab(t_, j_)) == t_)))),
        ("no-edges-added", z3.BoolVal(g.edges_added == 0)),
    ]
    if sp is not None:
        out.append(("node-carries-seg-id-area-and-centroid-of-its-own-region",
                    forall([a_], IMP(g.N(a_), AND(g.segid(a_) == a_, g.area(a_) == RPc(z3.StringVal("area"), g.fr(a_), a_, sp), g.pos(a_) == RPc(z3.StringVal("centroid"), g.fr(a_), a_, sp))))))
    return out


class SegFramesLoop(LoopSpec):
    """for t in range(len(segmentation))"""

    props = ("C18",)

    def __init__(self, V):
        self.V = V

    def enter(self, I, fr, it):
        if not isinstance(fr.env["node_frame_dict"], GrowDict):
            fr.env["node_frame_dict"] = GrowDict.empty(I.ctx)

    def havoc(self, I, fr, it, i, assigned):
        for nm in ("t", "segs", "nodes_in_frame", "props", "regionprop", "node_id", "attrs", "centroid"):
            fr.env.pop(nm, None)
        fr.env["node_frame_dict"].fresh()
        fr.env["cand_graph"].havoc()

    def inv(self, I, fr, it, T):
        V, g, d = self.V, fr.env["cand_graph"], fr.env["node_frame_dict"]
        return seg_clauses(V, g, d, T) + frame_dict_clauses(V, g, d, T)


def frame_dict_clauses(V, g, d, T):
    return [
        ("keys-are-the-processed-frames-with-a-non-empty-list", forall([f_], AND(d.ln(f_) >= 0, d.has(f_) == (d.ln(f_) > 0), IMP(d.has(f_), AND(f_ >= 0, f_ < T))))),
        ("frame-list = the-frame's-labels-in-region-order", forall([f_], IMP(AND(f_ >= 0, f_ < T), AND(d.ln(f_) == V.nreg(f_), forall([j_], IMP(AND(j_ >= 0, j_ < V.nreg(f_)), d.el(f_, j_) == V.lab(f_, j_))))))),
    ]


class SegRegionsLoop(LoopSpec):
    """for regionprop in props"""

    props = ("C18",)

    def __init__(self, V):
        self.V = V

    def enter(self, I, fr, it):
        self.t = it.frame_t
        self.d_snapshot = (fr.env["node_frame_dict"].has, fr.env["node_frame_dict"].ln, fr.env["node_frame_dict"].el)

    def havoc(self, I, fr, it, i, assigned):
        for nm in ("regionprop", "node_id", "attrs", "centroid"):
            fr.env.pop(nm, None)
        fr.env["cand_graph"].havoc()
        fr.env["nodes_in_frame"] = SymList.fresh(I.ctx, "nodes_in_frame", Int)

    def inv(self, I, fr, it, r):
        V, g, d, t = self.V, fr.env["cand_graph"], fr.env["node_frame_dict"], self.t
        L = fr.env["nodes_in_frame"]
        if isinstance(L, list):
            L = I.to_symseq(L) if L else SymList(z3.IntVal(0), lambda i: Sym(z3.IntVal(0)), elem_sort=Int)
        same_d = d.has is self.d_snapshot[0] and d.ln is self.d_snapshot[1] and d.el is self.d_snapshot[2]
        return seg_clauses(V, g, d, t, upto=r) + [
            ("nodes_in_frame = the-first-r-labels", AND(L.n == r, forall([j_], IMP(AND(j_ >= 0, j_ < r), to_z3(L.get(j_), Int) == V.lab(t, j_))))),
            ("frame-dictionary-untouched-inside-a-frame", z3.BoolVal(same_d))]


class NodesFromSegmentation(Contract):
    qualname = NFS
    props = ("C18",)

    def run(self, I, cfg):
        ctx = I.ctx
        V = SegVideo(ctx)
        # documented precondition: labels are unique across time
        ctx.assume(forall([t_, f_, a_], IMP(AND(V.is_label(t_, a_), V.is_label(f_, a_), t_ >= 0, f_ >= 0), t_ == f_)), "pre.labels-unique-across-time")
        made = []

        def digraph(I_, a, k):
            g = SegGraph(ctx)
            made.append(g)
            return g
        I.ext["networkx.DiGraph"] = digraph
        I.ext["skimage.measure.regionprops"] = regionprops_ext
        I.ext["skimage.measure._regionprops.regionprops"] = regionprops_ext
        I.ext["tqdm.tqdm"] = lambda I_, a, k: a[0]
        ctx.loopspecs[(NFS, 0)] = SegFramesLoop(V)
        ctx.loopspecs[(NFS, 1)] = SegRegionsLoop(V)
        if cfg.get("scale"):
            sp = ctx.fresh("spacing", Val)
            ctx.ghost["spacing_used"] = sp
            out = call_real(I, NFS, [V], {"scale": ScaleC(sp, V.ndim)})
        else:
            ctx.ghost["unit_spacing"] = ctx.ghost["spacing_used"] = ctx.fresh("unit_spacing", Val)  # tuple(([1] * ndim)[1:])
            out = call_real(I, NFS, [V], {})
        q = "nodes_from_segmentation"
        if out[0] != "return":
            ctx.oblige(f"C18/{q}/no-exception", False, props=self.props, note=str(out[1]))
            return out
        res = out[1]
        ok = isinstance(res, tuple) and len(res) == 2 and isinstance(res[0], SegGraph) and isinstance(res[1], GrowDict) and len(made) == 1
        ctx.oblige(f"C18/{q}/ensures:returns-(graph,frame-dictionary)", z3.BoolVal(ok), props=self.props)
        seen = ctx.ghost.get("spacings_seen", [])
        ctx.oblige(f"C18/{q}/ensures:regions-measured-with-the-given-spacing", z3.BoolVal(all(x.eq(ctx.ghost["spacing_used"]) for x in seen)), props=self.props)
        if ok:
            g, d = res
            for lbl, f in seg_clauses(V, g, d, V.nfr) + frame_dict_clauses(V, g, d, V.nfr):
                ctx.oblige(f"C18/{q}/ensures:{lbl}", f, props=self.props)
            # what add_cand_edges relies on (the three clauses of its node_frame_dict precondition)
            W = type("W", (), {"N": g.N, "fr": g.fr, "node_pos": staticmethod(lambda a: a)})
            ctx.oblige(f"C18/{q}/ensures:every-node-is-listed-once-under-its-frame",
                       forall([a_], IMP(g.N(a_), AND(V.labpos(g.fr(a_), a_) < d.ln(g.fr(a_)), d.el(g.fr(a_), V.labpos(g.fr(a_), a_)) == a_))), props=self.props)
        return out


class ScaleC(ModelObj):
    type_names = ("list",)

    def __init__(self, sp, ndim):
        self.sp, self.ndim = sp, ndim

    def m_len(self, I):
        return Sym(self.ndim)

    def m_getitem(self, I, idx):
        if isinstance(idx, slice) and idx.start == 1 and idx.stop is None:
            return Sym(self.sp)
        raise Unsupported("scale index")


# ------------------------------------------------------------------ _get_iou_dict / add_iou
GID = "funtracks.candidate_graph.iou._get_iou_dict"
AIO = "funtracks.candidate_graph.iou.add_iou"
OVc = z3.Function("masks_overlap", Int, Int, Int, Int, Bool)      # (frame1, label1, frame2, label2)
IOc = z3.Function("mask_iou", Int, Int, Int, Int, Val)


class Expanded(ModelObj):
    """np.expand_dims(segmentation, 0): one hypothesis"""

    type_names = ("ndarray",)

    def __init__(self, V):
        self.V = V

    def attr_shape(self, I):
        return (1, Sym(self.V.nfr))

    def m_getitem(self, I, h):
        if h != 0:
            raise Unsupported("hypothesis index")
        return self.V


def expand_dims_ext(I, args, kw):
    if isinstance(args[0], SegVideo) and args[1] == 0:
        return Expanded(args[0])
    raise Unsupported("np.expand_dims arguments")


class ComputeIousC(Contract):
    """assumed contract of candidate_graph.iou._compute_ious on two frames: every overlapping pair of non-zero labels once, with its IoU"""

    qualname = "funtracks.candidate_graph.iou._compute_ious"

    def apply(self, I, args, kw):
        f1, f2 = args
        if not (isinstance(f1, SegFrame) and isinstance(f2, SegFrame) and f1.V is f2.V):
            raise Unsupported("_compute_ious arguments")
        ctx = I.ctx
        t1, t2 = f1.t, f2.t
        n = ctx.fresh("n_overlaps", Int)
        p1, p2 = ctx.fresh_fun("ov_src", Int, Int), ctx.fresh_fun("ov_dst", Int, Int)
        pos = ctx.fresh_fun("ov_pos", Int, Int, Int)
        ctx.assume(n >= 0)
        ctx.assume(forall([j_], IMP(AND(j_ >= 0, j_ < n), AND(OVc(t1, p1(j_), t2, p2(j_)), pos(p1(j_), p2(j_)) == j_))), "ious")
        ctx.assume(forall([a_, b_], IMP(OVc(t1, a_, t2, b_), AND(pos(a_, b_) >= 0, pos(a_, b_) < n, p1(pos(a_, b_)) == a_, p2(pos(a_, b_)) == b_))), "ious")
        out = SymList(n, lambda j: (Sym(p1(j)), Sym(p2(j)), Sym(IOc(t1, p1(j), t2, p2(j)))))
        out.pos, out.t1, out.t2 = pos, t1, t2
        return out


class NestedIou(ModelObj):
    """dict label1 -> dict label2 -> iou"""

    type_names = ("dict",)

    def __init__(self, ctx):
        self.ctx = ctx
        self.fresh()

    def fresh(self):
        ctx = self.ctx
        self.has1 = ctx.fresh_fun("iou_has1", Int, Bool)
        self.has2 = ctx.fresh_fun("iou_has2", Int, Int, Bool)
        self.val = ctx.fresh_fun("iou_val", Int, Int, Val)

    @staticmethod
    def empty(ctx):
        d = NestedIou(ctx)
        ctx.assume(forall([a_], z3.Not(d.has1(a_))))
        ctx.assume(forall([a_, b_], z3.Not(d.has2(a_, b_))))
        return d

    def m_contains(self, I, k):
        return Sym(self.has1(to_z3(k, Int)))

    def m_setitem(self, I, k, v):
        from pyvc.values import AssocDict
        if not ((isinstance(v, dict) and not v) or (isinstance(v, AssocDict) and not v.items)):
            raise Unsupported("only `d[label] = {}` is modelled")
        ke = to_z3(k, Int)
        h1, h2 = self.has1, self.has2
        self.has1, self.has2 = self.ctx.fresh_fun("iou_has1", Int, Bool), self.ctx.fresh_fun("iou_has2", Int, Int, Bool)
        self.ctx.assume(forall([a_], self.has1(a_) == OR(h1(a_), a_ == ke)))
        self.ctx.assume(forall([a_, b_], self.has2(a_, b_) == AND(h2(a_, b_), a_ != ke)))

    def m_getitem(self, I, k):
        ke = to_z3(k, Int)
        if not I.ctx.branch(self.has1(ke), "label is a key"):
            raise PyRaise(BuiltinExc("KeyError", (k,)))
        return InnerIou(self, ke)

    def do_get(self, I, k, default=None):
        return InnerIou(self, to_z3(k, Int), maybe_missing=True)


class InnerIou(ModelObj):
    type_names = ("dict",)

    def __init__(self, d, k, maybe_missing=False):
        self.d, self.k, self.maybe = d, k, maybe_missing

    def m_setitem(self, I, k2, v):
        d, ctx = self.d, self.d.ctx
        k1, k2e, ve = self.k, to_z3(k2, Int), to_z3(v, Val)
        h2, vl = d.has2, d.val
        d.has2, d.val = ctx.fresh_fun("iou_has2", Int, Int, Bool), ctx.fresh_fun("iou_val", Int, Int, Val)
        ctx.assume(forall([a_, b_], d.has2(a_, b_) == OR(h2(a_, b_), AND(a_ == k1, b_ == k2e))))
        ctx.assume(forall([a_, b_], d.val(a_, b_) == z3.If(AND(a_ == k1, b_ == k2e), ve, vl(a_, b_))))

    def do_get(self, I, k2, default=None):
        d, k2e = self.d, to_z3(k2, Int)
        present = AND(d.has1(self.k), d.has2(self.k, k2e))
        return Sym(z3.If(present, d.val(self.k, k2e), to_z3(default, Val)))


def iou_dict_clauses(V, d, F, t=None, upto=None, pos=None):
    """pairs of frames (f, f+1) with f < F are recorded (plus the first `upto` pairs of frame t)"""
    lf = V.label_frame
    inframes = lambda a: AND(lf(a) >= 0, lf(a) < F, lf(a) < V.nfr - 1)
    rec = lambda a, b: AND(inframes(a), OVc(lf(a), a, lf(a) + 1, b))
    if t is not None:
        rec0 = rec
        rec = lambda a, b: OR(rec0(a, b), AND(lf(a) == t, OVc(t, a, t + 1, b), pos(a, b) < upto))
    return [
        ("recorded-pairs-are-the-overlapping-pairs-of-consecutive-processed-frames", forall([a_, b_], d.has2(a_, b_) == rec(a_, b_))),
        ("recorded-value-is-the-pair's-iou", forall([a_, b_], IMP(d.has2(a_, b_), d.val(a_, b_) == IOc(lf(a_), a_, lf(a_) + 1, b_)))),
        ("inner-dicts-exist", forall([a_, b_], IMP(d.has2(a_, b_), d.has1(a_)))),
    ]


class IouFramesLoop(LoopSpec):
    props = ("C18",)

    def __init__(self, V):
        self.V = V

    def enter(self, I, fr, it):
        if not isinstance(fr.env["iou_dict"], NestedIou):
            fr.env["iou_dict"] = NestedIou.empty(I.ctx)

    def havoc(self, I, fr, it, i, assigned):
        for nm in ("frame", "hypo1", "hypo2", "seg1", "seg2", "ious", "label1", "label2", "iou"):
            fr.env.pop(nm, None)
        fr.env["iou_dict"].fresh()

    def inv(self, I, fr, it, F):
        return iou_dict_clauses(self.V, fr.env["iou_dict"], F)


class IouPairsLoop(LoopSpec):
    props = ("C18",)

    def __init__(self, V):
        self.V = V

    def enter(self, I, fr, it):
        self.t = it.t1

    def havoc(self, I, fr, it, i, assigned):
        for nm in ("label1", "label2", "iou"):
            fr.env.pop(nm, None)
        fr.env["iou_dict"].fresh()

    def inv(self, I, fr, it, j):
        return iou_dict_clauses(self.V, fr.env["iou_dict"], self.t, t=self.t, upto=j, pos=it.pos)


def label_frame_axioms(ctx, V):
    """labels are unique across time (documented precondition): label_frame(a) is the frame of label a; overlaps concern labels of their frames"""
    V.label_frame = ctx.fresh_fun("label_frame", Int, Int)
    ctx.assume(forall([t_, a_], IMP(AND(t_ >= 0, V.is_label(t_, a_)), V.label_frame(a_) == t_)), "pre.labels-unique-across-time")
    ctx.assume(forall([t_, f_, a_, b_], IMP(OVc(t_, a_, f_, b_), AND(V.is_label(t_, a_), V.is_label(f_, b_)))), "overlap.labels")


class GetIouDict(Contract):
    qualname = GID
    props = ("C18",)

    def run(self, I, cfg):
        ctx = I.ctx
        V = SegVideo(ctx)
        label_frame_axioms(ctx, V)
        I.ext["numpy.expand_dims"] = expand_dims_ext
        ctx.contracts[ComputeIousC.qualname] = ComputeIousC()
        ctx.loopspecs[(GID, 0)] = IouFramesLoop(V)
        ctx.loopspecs[(GID, 2)] = IouPairsLoop(V)
        out = call_real(I, GID, [V], {"multiseg": False})
        q = "_get_iou_dict"
        if out[0] != "return":
            ctx.oblige(f"C18/{q}/no-exception", False, props=self.props, note=str(out[1]))
            return out
        d = out[1]
        ok = isinstance(d, NestedIou)
        ctx.oblige(f"C18/{q}/ensures:returns-the-nested-dictionary", z3.BoolVal(ok), props=self.props)
        if ok:
            for lbl, f in iou_dict_clauses(V, d, V.nfr - 1):
                ctx.oblige(f"C18/{q}/ensures:{lbl}", f, props=self.props)
        return out

    def apply(self, I, args, kw):
        ctx = I.ctx
        V = args[0]
        if not isinstance(V, SegVideo) or kw.get("multiseg", False) is not False:
            raise Unsupported("_get_iou_dict arguments")
        d = NestedIou(ctx)
        for lbl, f in iou_dict_clauses(V, d, V.nfr - 1):
            ctx.assume(f, "iou_dict")
        return d


class EdgesViewC(ModelObj):
    def __init__(self, W):
        self.W = W

    def m_contains(self, I, e):
        return Sym(self.W.E(to_z3(e[0], Int), to_z3(e[1], Int)))

    def m_getitem(self, I, e):
        return EdgeIouView(self.W, to_z3(e[0], Int), to_z3(e[1], Int))


class EdgeIouView(ModelObj):
    def __init__(self, W, a, b):
        self.W, self.a, self.b = W, a, b

    def m_setitem(self, I, k, v):
        if k != "iou":
            raise Unsupported("edge attribute")
        W = self.W
        old, a, b, ve = W.AeIou, self.a, self.b, to_z3(v, Val)
        W.AeIou = W.ctx.fresh_fun("edge_iou", Int, Int, Val)
        W.ctx.assume(forall([a_, b_], W.AeIou(a_, b_) == z3.If(AND(a_ == a, b_ == b), ve, old(a_, b_))))


class CandGraph3(CandGraph):
    def attr_edges(self, I):
        return EdgesViewC(self.W)


def iou_target(W, V, a, b):
    return z3.If(OVc(W.fr(a), a, W.fr(a) + 1, b), IOc(W.fr(a), a, W.fr(a) + 1, b), VInt(0))


def add_iou_clause(W, V, Ae0, done):
    return forall([a_, b_], W.AeIou(a_, b_) == z3.If(AND(W.E(a_, b_), W.N(a_), W.N(b_), W.fr(b_) == W.fr(a_) + 1, done(a_, b_)), iou_target(W, V, a_, b_), Ae0(a_, b_)))


class AddIouFrames(LoopSpec):
    props = ("C18",)

    def __init__(self, W, V):
        self.W, self.V = W, V

    def enter(self, I, fr, it):
        self.Ae0 = self.W.AeIou

    def havoc(self, I, fr, it, i, assigned):
        for nm in ("frame", "next_nodes", "node_id", "next_id", "iou"):
            fr.env.pop(nm, None)
        self.W.AeIou = I.ctx.fresh_fun("edge_iou", Int, Int, Val)

    def inv(self, I, fr, it, u):
        W = self.W
        return [("edges-leaving-processed-frames-carry-their-iou", add_iou_clause(W, self.V, self.Ae0, lambda a, b: it.pos(W.fr(a)) < u))]


class AddIouNodes(LoopSpec):
    props = ("C18",)

    def __init__(self, W, V, outer):
        self.W, self.V, self.outer = W, V, outer

    def enter(self, I, fr, it):
        self.Ae1 = self.W.AeIou
        self.frame = to_z3(fr.env["frame"], Int)

    def havoc(self, I, fr, it, i, assigned):
        for nm in ("node_id", "next_id", "iou"):
            fr.env.pop(nm, None)
        self.W.AeIou = I.ctx.fresh_fun("edge_iou", Int, Int, Val)

    def inv(self, I, fr, it, i):
        W = self.W
        return [("edges-of-the-first-i-nodes-of-the-frame", add_iou_clause(W, self.V, self.Ae1, lambda a, b: AND(W.fr(a) == self.frame, W.idx(a) < i)))]


class AddIouNext(LoopSpec):
    props = ("C18",)

    def __init__(self, W, V):
        self.W, self.V = W, V

    def enter(self, I, fr, it):
        self.Ae2 = self.W.AeIou
        self.node = to_z3(fr.env["node_id"], Int)

    def havoc(self, I, fr, it, i, assigned):
        for nm in ("next_id", "iou"):
            fr.env.pop(nm, None)
        self.W.AeIou = I.ctx.fresh_fun("edge_iou", Int, Int, Val)

    def inv(self, I, fr, it, j):
        W = self.W
        return [("edges-to-the-first-j-nodes-of-the-next-frame", add_iou_clause(W, self.V, self.Ae2, lambda a, b: AND(a == self.node, W.idx(b) < j)))]


class AddIou(Contract):
    qualname = AIO
    props = ("C18",)
    ext = {"model.sorted": sorted_keys, "tqdm.tqdm": lambda I, a, k: a[0]}

    def run(self, I, cfg):
        ctx = I.ctx
        W = World(ctx)
        V = SegVideo(ctx)
        label_frame_axioms(ctx, V)
        W.AeIou = ctx.fresh_fun("edge_iou", Int, Int, Val)
        Ae0 = W.AeIou
        # the candidate graph was built from this segmentation: node ids are labels of their frame; edges join nodes
        ctx.assume(forall([a_], IMP(W.N(a_), AND(W.fr(a_) >= 0, W.fr(a_) < V.nfr, V.is_label(W.fr(a_), a_)))), "pre.nodes-are-labels-of-their-frame")
        ctx.assume(forall([a_, b_], IMP(W.E(a_, b_), AND(W.N(a_), W.N(b_)))), "pre.edges-join-nodes")
        g = CandGraph3(W)
        E_entry = W.E
        c = GetIouDict()
        ctx.contracts[c.qualname] = c
        outer = AddIouFrames(W, V)
        ctx.loopspecs[(AIO, 0)] = outer
        ctx.loopspecs[(AIO, 1)] = AddIouNodes(W, V, outer)
        ctx.loopspecs[(AIO, 2)] = AddIouNext(W, V)
        out = call_real(I, AIO, [g, V, FrameDict(W)], {})
        q = "add_iou"
        if out[0] != "return":
            ctx.oblige(f"C18/{q}/no-exception", False, props=self.props, note=str(out[1]))
            return out
        ctx.oblige(f"C18/{q}/ensures:every-edge-between-consecutive-frames-carries-the-iou-of-its-two-masks(0-without-overlap)-nothing-else-changes",
                   add_iou_clause(W, V, Ae0, lambda a, b: z3.BoolVal(True)), props=self.props)
        ctx.oblige(f"C18/{q}/ensures:no-edge-added-or-removed", z3.BoolVal(W.E is E_entry), props=self.props)
        return out


def units():
    from pyvc.verify import Unit
    return [Unit(AddCandEdges(), {}), Unit(ComputeNodeFrameDict(), {}), Unit(NodesFromPointsList(), {}), Unit(NodesFromPointsList(), {"scale": True}),
            Unit(NodesFromSegmentation(), {}), Unit(NodesFromSegmentation(), {"scale": True}), Unit(GetIouDict(), {}), Unit(AddIou(), {})]
