"""C12 - funtracks.import_export._tracks_builder.flatten_name_map: the (target key, source column) pairs of a key mapping.

The mapping is an ordered dict of n items (ks(i), V(i)); a value is None, a string, or a list of strings
(Val: VNone / VKey(s) / VOpq(id) with the list id's length LL(id) and columns CC(id, j)).
Ghost offset function (definition, A1/A2):  off(0) = 0,  off(i+1) = off(i) + contrib(i),
  contrib(i) = 0 for None, LL for a list, 1 for a string.
Postcondition (order and multiplicity included - "combined in the mapped order"):
  P1  len(result) = off(n)
  P2  a string item i contributes exactly (ks(i), V(i)) at position off(i)          (rename source column -> key)
  P3  a list item i contributes (c_j, c_j) for its columns in order at off(i) + j   (columns kept, combined later)
The lemma "off is monotone" is proved by induction: the induction step is an obligation, the induction principle
itself is applied by hand (stated in the evidence as an assumption).
"""
from __future__ import annotations

import z3

from pyvc.core import Unsupported
from pyvc.spec import Contract, LoopSpec
from pyvc.terms import AND, IMP, OR, Int, Key, Sym, Val, VKey, VNone, forall, is_VNone, kv, ov, to_z3
from pyvc.values import ModelObj, SymList
from pyvc.verify import call_real

FN = "funtracks.import_export._tracks_builder.flatten_name_map"
is_VKey, is_VOpq = Val.is_VKey, Val.is_VOpq
i_, a_, b_, j_ = z3.Ints("i!m a!m b!m j!m")


class NameMap(ModelObj):
    """an ordered dict str -> None | str | list[str] with n items"""

    type_names = ("dict",)

    def __init__(self, ctx):
        self.n = ctx.fresh("nm_n", Int)
        self.ks = ctx.fresh_fun("nm_key", Int, Key)
        self.V = ctx.fresh_fun("nm_val", Int, Val)
        self.LL = ctx.fresh_fun("list_len", Int, Int)
        self.CC = ctx.fresh_fun("list_col", Int, Int, Key)
        self.off = ctx.fresh_fun("off", Int, Int)
        ctx.assume(self.n >= 0)
        V = self.V
        # requires: every value is None, a string or a list (of strings)
        ctx.assume(forall([i_], OR(is_VNone(V(i_)), is_VKey(V(i_)), is_VOpq(V(i_)))))
        ctx.assume(forall([i_], self.LL(i_) >= 0))
        # definition of the ghost offsets
        ctx.assume(self.off(0) == 0)
        ctx.assume(forall([i_], IMP(i_ >= 0, self.off(i_ + 1) == self.off(i_) + self.contrib(i_))))

    def contrib(self, i):
        v = self.V(i)
        return z3.If(is_VNone(v), 0, z3.If(is_VOpq(v), self.LL(ov(v)), 1))

    def is_list(self, i):
        return is_VOpq(self.V(i))

    def is_str(self, i):
        return is_VKey(self.V(i))

    def do_items(self, I):
        return SymList(self.n, lambda i: (Sym(self.ks(i)), Sym(self.V(i))))

    def list_view(self, v):
        lid = ov(v.e)
        return SymList(self.LL(lid), lambda j: Sym(self.CC(lid, j)), elem_sort=Key)

    def monotone(self):
        return forall([a_, b_], IMP(AND(0 <= a_, a_ <= b_), self.off(a_) <= self.off(b_)))

    def monotone_step(self):
        hyp = forall([a_], IMP(AND(0 <= a_, a_ <= b_), self.off(a_) <= self.off(b_)))
        con = forall([a_], IMP(AND(0 <= a_, a_ <= b_ + 1), self.off(a_) <= self.off(b_ + 1)))
        return forall([b_], IMP(AND(b_ >= 0, hyp), con))


_T0, _S0 = z3.Function("nil_t", Int, Key), z3.Function("nil_s", Int, Val)


def as_res(I, v):
    """the result list as a SymList of pairs (an empty Python list has no elements to look at)"""
    if isinstance(v, list) and not v:
        return SymList(z3.IntVal(0), lambda k: (Sym(_T0(k)), Sym(_S0(k))))
    return I.to_symseq(v)


def pair_val(x):
    """(target, source) of a result element, both as Val"""
    if not (isinstance(x, tuple) and len(x) == 2):
        raise Unsupported("result element is not a pair")
    return to_z3(x[0], Val), to_z3(x[1], Val)


def done_items(M, res, upto):
    """P2/P3 for the items below `upto`"""
    i2, j2 = z3.Ints("i!d j!d")
    t = lambda k: pair_val(res.get(k))
    p2 = forall([i2], IMP(AND(0 <= i2, i2 < upto, M.is_str(i2)),
                          AND(t(M.off(i2))[0] == VKey(M.ks(i2)), t(M.off(i2))[1] == M.V(i2))))
    col = lambda: VKey(M.CC(ov(M.V(i2)), j2))
    p3 = forall([i2, j2], IMP(AND(0 <= i2, i2 < upto, M.is_list(i2), 0 <= j2, j2 < M.LL(ov(M.V(i2)))),
                              AND(t(M.off(i2) + j2)[0] == col(), t(M.off(i2) + j2)[1] == col())))
    return p2, p3


class Outer(LoopSpec):
    props = ("C12",)

    def __init__(self, M):
        self.M, self.i = M, None

    def havoc(self, I, fr, it, i, assigned):
        ctx = I.ctx
        for nm in ("std_key", "source", "col"):
            fr.env.pop(nm, None)
        T, S = ctx.fresh_fun("res_t", Int, Key), ctx.fresh_fun("res_s", Int, Val)
        n = ctx.fresh("res_len", Int)
        ctx.assume(n >= 0)
        fr.env["result"] = SymList(n, lambda k: (Sym(T(k)), Sym(S(k))))
        self.i = i

    def inv(self, I, fr, it, i):
        res = as_res(I, fr.env["result"])
        p2, p3 = done_items(self.M, res, i)
        return [("length = offset of the current item", res.n == self.M.off(i)),
                ("string items so far are renamed (key, source) at their offset", p2),
                ("list items so far keep their columns (c, c) in order at their offset", p3)]


class Inner(LoopSpec):
    props = ("C12",)

    def __init__(self, M, outer):
        self.M, self.outer = M, outer

    def havoc(self, I, fr, it, i, assigned):
        ctx = I.ctx
        fr.env.pop("col", None)
        T, S = ctx.fresh_fun("res_t", Int, Key), ctx.fresh_fun("res_s", Int, Val)
        n = ctx.fresh("res_len", Int)
        ctx.assume(n >= 0)
        fr.env["result"] = SymList(n, lambda k: (Sym(T(k)), Sym(S(k))))

    def inv(self, I, fr, it, j):
        M, oi = self.M, self.outer.i
        res = as_res(I, fr.env["result"])
        p2, p3 = done_items(M, res, oi)
        j2 = z3.Int("j!c")
        t = lambda k: pair_val(res.get(k))
        col = VKey(M.CC(ov(M.V(oi)), j2))
        cur = forall([j2], IMP(AND(0 <= j2, j2 < j), AND(t(M.off(oi) + j2)[0] == col, t(M.off(oi) + j2)[1] == col)))
        return [("length = offset of the current item + columns done", res.n == M.off(oi) + j),
                ("earlier string items untouched", p2),
                ("earlier list items untouched", p3),
                ("columns of the current list so far are (c, c) in order", cur)]


class FlattenNameMap(Contract):
    qualname = FN
    props = ("C12",)

    def run(self, I, cfg):
        ctx = I.ctx
        M = NameMap(ctx)
        ctx.oblige("C12/flatten_name_map/lemma:offsets-are-monotone(induction step)", M.monotone_step(), props=self.props)
        ctx.assume(M.monotone())
        I.ext["model.val_isinstance"] = lambda I_, a, k: {"list": is_VOpq(a[0].e), "str": is_VKey(a[0].e)}[a[1]]
        I.ext["model.val_iter"] = lambda I_, a, k: M.list_view(a[0])
        outer = Outer(M)
        ctx.loopspecs[(FN, 0)] = outer
        ctx.loopspecs[(FN, 1)] = Inner(M, outer)
        out = call_real(I, FN, [M])
        q = "C12/flatten_name_map"
        if out[0] != "return":
            ctx.oblige(f"{q}/no-exception", False, props=self.props, note=str(out[1]))
            return out
        res = out[1]
        if isinstance(res, list):
            res = as_res(I, res)
        ok = isinstance(res, SymList)
        ctx.oblige(f"{q}/ensures:returns-a-list", z3.BoolVal(ok), props=self.props)
        if not ok:
            return out
        p2, p3 = done_items(M, res, M.n)
        ctx.oblige(f"{q}/ensures:P1-one-pair-per-string-item-and-per-listed-column(no more, no fewer)", res.n == M.off(M.n), props=self.props)
        ctx.oblige(f"{q}/ensures:P2-string-item-yields-(standard key, source column)", p2, props=self.props)
        ctx.oblige(f"{q}/ensures:P3-list-item-yields-its-columns-unrenamed-in-the-mapped-order", p3, props=self.props)
        # reachability behind the precondition: a map with a None, a string and a 2-column list item is admitted
        return out


def units():
    from pyvc.verify import Unit
    return [Unit(FlattenNameMap(), {})]


# ---------------------------------------------------------------------------------------------------------------------
# validate_node_name_map: "missing required columns are rejected with ValueError"
VN = "funtracks.import_export._validation.validate_node_name_map"
VS = "funtracks.import_export._validation.validate_spatial_dims_in_name_map"
c_ = z3.Const("c!m", Key)


class KeyedNameMap(NameMap):
    """NameMap with lookup by key: the keys of the n items are pairwise distinct, pos is the inverse of ks"""

    def __init__(self, ctx):
        super().__init__(ctx)
        self.pos = ctx.fresh_fun("nm_pos", Key, Int)
        ctx.assume(forall([i_], IMP(AND(0 <= i_, i_ < self.n), self.pos(self.ks(i_)) == i_)))

    def has(self, k):
        k = to_z3(k, Key)
        return AND(0 <= self.pos(k), self.pos(k) < self.n, self.ks(self.pos(k)) == k)

    def at(self, k):
        return self.V(self.pos(to_z3(k, Key)))

    def m_contains(self, I, k):
        return Sym(self.has(k))

    def do_get(self, I, k, default=None):
        if default is not None:
            raise Unsupported("name_map.get with a default")
        return Sym(z3.If(self.has(k), self.at(k), VNone))

    def m_getitem(self, I, k):
        if not I.guard(self.has(k), "key in name_map"):
            from pyvc.values import BuiltinExc, PyRaise
            raise PyRaise(BuiltinExc("KeyError", (k,)))
        return Sym(self.at(k))


class Importable(ModelObj):
    """importable_node_props: a list of column names, abstracted to its set (exact for `in` and emptiness)"""

    type_names = ("list",)

    def __init__(self, ctx):
        self.mem = ctx.fresh_fun("importable", Key, z3.BoolSort())
        self.nonempty = ctx.fresh("importable_nonempty", z3.BoolSort())
        w = ctx.fresh("some_col", Key)
        ctx.assume(IMP(self.nonempty, self.mem(w)))
        ctx.assume(IMP(z3.Not(self.nonempty), forall([c_], z3.Not(self.mem(c_)))))

    def has_val(self, v):
        """membership of a mapping value (None / str): only a string can be a column name"""
        return AND(is_VKey(v), self.mem(kv(v)))

    def m_contains(self, I, x):
        e = to_z3(x)
        return Sym(self.has_val(e) if e.sort() == Val else self.mem(to_z3(x, Key)))

    def m_truthy(self, I):
        return I.ctx.branch(self.nonempty, "importable props non-empty")


def bad_item(M, P, i):
    """item i of the mapping names a column the source does not have (or is None)"""
    v = M.V(i)
    j3 = z3.Int("j!b")
    lst = AND(M.is_list(i), z3.Exists([j3], AND(0 <= j3, j3 < M.LL(ov(v)), z3.Not(P.mem(M.CC(ov(v), j3))))))
    return OR(lst, AND(z3.Not(M.is_list(i)), z3.Not(P.has_val(v))))


def _len_of(v):
    return z3.IntVal(len(v)) if isinstance(v, list) else v.n


class VOuter(LoopSpec):
    props = ("C12",)
    list_sorts = {"invalid_mappings": Key}

    def __init__(self, M, P):
        self.M, self.P, self.i = M, P, None

    def havoc(self, I, fr, it, i, assigned):
        for nm in ("std_key", "source_prop", "prop"):
            fr.env.pop(nm, None)
        fr.env["invalid_mappings"] = SymList.fresh(I.ctx, "invalid", Key)
        self.i = i

    def inv(self, I, fr, it, i):
        i3 = z3.Int("i!b")
        n = _len_of(fr.env["invalid_mappings"])
        return [("something was recorded iff an item so far names a missing column",
                 (n > 0) == z3.Exists([i3], AND(0 <= i3, i3 < i, bad_item(self.M, self.P, i3))))]


class VInner(LoopSpec):
    props = ("C12",)

    def __init__(self, M, P, outer):
        self.M, self.P, self.outer = M, P, outer

    def havoc(self, I, fr, it, i, assigned):
        fr.env.pop("prop", None)
        fr.env["invalid_mappings"] = SymList.fresh(I.ctx, "invalid", Key)

    def inv(self, I, fr, it, j):
        M, P, oi = self.M, self.P, self.outer.i
        i3, j3 = z3.Ints("i!b j!c")
        n = _len_of(fr.env["invalid_mappings"])
        lid = ov(M.V(oi))
        return [("something was recorded iff an earlier item or a column of this list so far is missing",
                 (n > 0) == OR(z3.Exists([i3], AND(0 <= i3, i3 < oi, bad_item(M, P, i3))),
                               z3.Exists([j3], AND(0 <= j3, j3 < j, z3.Not(P.mem(M.CC(lid, j3)))))))]


class SpatialDimsAssumed(Contract):
    """call-site contract of validate_spatial_dims_in_name_map: reads only; returns None or raises ValueError"""
    qualname = VS

    def apply(self, I, args, kw):
        from pyvc.values import BuiltinExc, PyRaise
        if I.ctx.branch(I.ctx.fresh("spatial_dims_rejects", z3.BoolSort()), "spatial dims check rejects"):
            raise PyRaise(BuiltinExc("ValueError", ("spatial dims",)))
        return None


class ValidateNodeNameMap(Contract):
    qualname = VN
    props = ("C12",)

    def run(self, I, cfg):
        from pyvc.values import exc_names
        ctx = I.ctx
        M = KeyedNameMap(ctx)
        P = Importable(ctx)
        R = SymList.fresh(ctx, "required", Key)
        has_seg = ctx.fresh("has_segmentation", z3.BoolSort())
        I.ext["model.val_isinstance"] = lambda I_, a, k: {"list": is_VOpq(a[0].e), "str": is_VKey(a[0].e)}[a[1]]
        I.ext["model.val_iter"] = lambda I_, a, k: M.list_view(a[0])
        I.ext["model.val_len"] = lambda I_, a, k: Sym(M.LL(ov(a[0].e)))
        ctx.contracts[VS] = SpatialDimsAssumed()
        outer = VOuter(M, P)
        ctx.loopspecs[(VN, 0)] = outer
        ctx.loopspecs[(VN, 1)] = VInner(M, P, outer)
        feats = None if cfg.get("features") == "none" else Sym(ctx.fresh("available_features", Val))
        if feats is not None:
            ctx.assume(z3.Not(is_VNone(feats.e)))
        out = call_real(I, VN, [M, P, R], {"available_features": feats, "ndim": Sym(ctx.fresh("ndim", Int)), "has_segmentation": Sym(has_seg)})
        q = "C12/validate_node_name_map"
        r_, i3, j3 = z3.Ints("r!v i!v j!v")
        if out[0] == "raise":
            ctx.oblige(f"{q}/raises-only-ValueError", z3.BoolVal("ValueError" in exc_names(out[1])), props=self.props, note=str(out[1]))
            return out
        ctx.oblige(f"{q}/ensures:accepted=>every-required-key-is-mapped-and-not-None",
                   forall([r_], IMP(AND(0 <= r_, r_ < R.n), AND(M.has(R.F(r_)), z3.Not(is_VNone(M.at(R.F(r_))))))), props=self.props)
        ctx.oblige(f"{q}/ensures:accepted=>every-mapped-column-exists-in-the-source(string items)",
                   IMP(P.nonempty, forall([i3], IMP(AND(0 <= i3, i3 < M.n, M.is_str(i3)), P.mem(kv(M.V(i3)))))), props=self.props)
        ctx.oblige(f"{q}/ensures:accepted=>every-listed-column-exists-in-the-source(list items)",
                   IMP(P.nonempty, forall([i3, j3], IMP(AND(0 <= i3, i3 < M.n, M.is_list(i3), 0 <= j3, j3 < M.LL(ov(M.V(i3)))),
                                                         P.mem(M.CC(ov(M.V(i3)), j3))))), props=self.props)
        ctx.oblige(f"{q}/ensures:accepted=>position-is-mapped-or-a-segmentation-is-given", OR(M.has("pos"), has_seg), props=self.props)
        return out


VE = "funtracks.import_export._validation.validate_edge_name_map"


class ValidateEdgeNameMap(Contract):
    """same column check for the edge mapping (no required keys, no position clause)"""
    qualname = VE
    props = ("C12",)

    def run(self, I, cfg):
        from pyvc.values import exc_names
        ctx = I.ctx
        M = KeyedNameMap(ctx)
        P = Importable(ctx)
        I.ext["model.val_isinstance"] = lambda I_, a, k: {"list": is_VOpq(a[0].e), "str": is_VKey(a[0].e)}[a[1]]
        I.ext["model.val_iter"] = lambda I_, a, k: M.list_view(a[0])
        I.ext["model.val_len"] = lambda I_, a, k: Sym(M.LL(ov(a[0].e)))
        ctx.contracts[VS] = SpatialDimsAssumed()
        outer = VOuter(M, P)
        ctx.loopspecs[(VE, 0)] = outer
        ctx.loopspecs[(VE, 1)] = VInner(M, P, outer)
        feats = None if cfg.get("features") == "none" else Sym(ctx.fresh("available_features", Val))
        if feats is not None:
            ctx.assume(z3.Not(is_VNone(feats.e)))
        out = call_real(I, VE, [M, P], {"available_features": feats, "ndim": Sym(ctx.fresh("ndim", Int))})
        q = "C12/validate_edge_name_map"
        i3, j3 = z3.Ints("i!v j!v")
        if out[0] == "raise":
            ctx.oblige(f"{q}/raises-only-ValueError", z3.BoolVal("ValueError" in exc_names(out[1])), props=self.props, note=str(out[1]))
            return out
        ctx.oblige(f"{q}/ensures:accepted=>every-mapped-column-exists-in-the-source(string items)",
                   IMP(P.nonempty, forall([i3], IMP(AND(0 <= i3, i3 < M.n, M.is_str(i3)), P.mem(kv(M.V(i3)))))), props=self.props)
        ctx.oblige(f"{q}/ensures:accepted=>every-listed-column-exists-in-the-source(list items)",
                   IMP(P.nonempty, forall([i3, j3], IMP(AND(0 <= i3, i3 < M.n, M.is_list(i3), 0 <= j3, j3 < M.LL(ov(M.V(i3)))),
                                                         P.mem(M.CC(ov(M.V(i3)), j3))))), props=self.props)
        return out


def units():  # noqa: F811
    from pyvc.verify import Unit
    return [Unit(FlattenNameMap(), {}), Unit(ValidateNodeNameMap(), {"features": "none"}), Unit(ValidateNodeNameMap(), {"features": "given"}),
            Unit(ValidateEdgeNameMap(), {"features": "none"}), Unit(ValidateEdgeNameMap(), {"features": "given"})]
