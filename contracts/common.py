"""Shared pieces of the tracks contracts: entry worlds, call-site contracts of loop-bearing callees,
loop invariants of the capture/apply loops of the primitive actions."""
from __future__ import annotations

import z3

from pyvc import theory as T
from pyvc.core import Unsupported
from pyvc.spec import Contract, LoopSpec
from pyvc.terms import AND, IMP, OR, Bool, Int, Key, Sym, Val, VInt, VNone, forall, is_VInt, is_VNone, iv, to_z3
from pyvc.tracksfactory import CacheModel, make_tracks
from pyvc.tracksmodel import a_, b_, k_
from pyvc.values import AssocDict, Instance, SymDict, SymList

TA = "funtracks.annotators._track_annotator.TrackAnnotator"
ST = "funtracks.data_model.solution_tracks.SolutionTracks"
AHQ = "funtracks.actions.action_history.ActionHistory"

# ghost uninterpreted functions of the numpy/value layer
is_nd = z3.Function("is_ndarray", Val, Bool)
tolist = z3.Function("tolist", Val, Val)


def norm_val(e):
    """_set_node_attr stores list(value) for ndarrays"""
    return z3.If(is_nd(e), tolist(e), e)


def _ext_val_isinstance(I, args, kw):
    v, tn = args
    if tn == "ndarray":
        return is_nd(v.e)
    if tn in ("tuple", "list"):
        return z3.Function("is_" + tn, Val, Bool)(v.e)
    if tn in ("float", "float64", "float32", "float16", "int64", "int32", "int16", "str"):
        return z3.Function("is_" + tn, Val, Bool)(v.e)
    raise Unsupported(f"isinstance(opaque, {tn})")


def _ext_tolist(I, args, kw):
    return Sym(tolist(args[0].e))


EXT = {"model.val_isinstance": _ext_val_isinstance, "model.tolist": _ext_tolist}


def world(I, has_seg=False, lineage=True, inv=("forest", "trackids", "b1", "b2")):
    """Entry state of a user action / primitive: a SolutionTracks satisfying the chosen invariants."""
    ctx = I.ctx
    I.ext.update(EXT)
    W = make_tracks(I, has_seg=has_seg, lineage=lineage)
    W.ctx = ctx
    K = T.Keys(W)
    W.K = K
    v = W.st.v
    W.assumed = []
    if "forest" in inv:
        W.assumed += T.FOREST(v, K)
    if "trackids" in inv:
        W.assumed += T.TRACKIDS(v, K)
    if "lineage" in inv:
        W.assumed += T.LINEAGE(v, K)
    ta = W.ta
    if "b1" in inv:
        W.assumed += T.B1(v, K, ta.fields["tracklet_id_to_nodes"], "trk")
    if "b1l" in inv:
        W.assumed += T.B1(v, K, ta.fields["lineage_id_to_nodes"], "lin")
    if "b2" in inv:
        W.assumed += T.B2(v, K, W.maxT(), W.maxL())
    # C10/F1: the enabled track features are registered as node features
    from pyvc.tracksfactory import ftype as _ft
    from pyvc.terms import lit as _lit
    W.assumed.append(("C10.F1.tracklet", AND(W.F.has(K.trk), _ft(W.F.at(K.trk)) == _lit("node"))))
    W.assumed.append(("C10.F1.lineage", IMP(W.act["lineage"], AND(W.F.has(K.lk), _ft(W.F.at(K.lk)) == _lit("node")))))
    if not has_seg:
        # without a segmentation the position is a required, registered node feature present on every node
        W.assumed.append(("typing.position-present", AND(W.F.has(K.pk), _ft(W.F.at(K.pk)) == _lit("node"),
                                                         forall([a_], IMP(v.N(a_), z3.Not(is_VNone(v.A(a_, K.pk))))))))
    # typing of lineage ids: an int or absent
    W.assumed.append(("typing.lineage", forall([a_], OR(is_VInt(T.lid(v, K, a_)), is_VNone(T.lid(v, K, a_))))))
    for lbl, f in W.assumed:
        ctx.assume(f, "inv." + lbl)
    W.v0 = v
    W.below = {}
    ctx.ghost["key_terms"] = [K.tk, K.trk, K.lk, K.pk]
    # value layer: an ndarray is neither an int nor None; list(ndarray) is a list
    x = z3.Const("x!v", Val)
    ctx.assume(forall([x], IMP(OR(is_VInt(x), is_VNone(x)), z3.Not(is_nd(x)))))
    ctx.assume(forall([x], AND(z3.Not(is_nd(tolist(x))), z3.Not(is_VInt(tolist(x))), z3.Not(is_VNone(tolist(x))))))
    # values stored on the graph are what the library's own writers produce: never raw ndarrays
    kk = z3.Const("k!nd", Key)
    ctx.assume(forall([a_, kk], z3.Not(is_nd(v.A(a_, kk)))), "inv.typing.no-ndarray")
    if "segfacts" in inv:
        B = below_of(I, W)
        W.bel0 = B
        W.lemma_uses = ["M2' segment_facts (Lean: theory/lean/Segments.lean)"]
        for _, f in T.segment_facts(v, K, B.rel):
            ctx.assume(f, "seg")
    return W


def below_of(I, W, facts=None, view=None):
    """The descendant closure of the *current* graph version (created on first use)."""
    v = view if view is not None else W.st.v
    key = v.E.name()
    if key not in W.below:
        B = T.Below(I.ctx, v, W.K)
        for nm, f in B.facts():
            I.ctx.assume(f, "below." + nm)
        # M3 (monotonicity): fewer edges, fewer descendants
        for B0 in W.below.values():
            if I.ctx.entails(forall([a_, b_], IMP(v.E(a_, b_), B0.v.E(a_, b_)))):
                I.ctx.assume(forall([a_, b_], IMP(B.rel(a_, b_), B0.rel(a_, b_))))
            elif I.ctx.entails(forall([a_, b_], IMP(B0.v.E(a_, b_), v.E(a_, b_)))):
                I.ctx.assume(forall([a_, b_], IMP(B0.rel(a_, b_), B.rel(a_, b_))))
        W.below[key] = B
    return W.below[key]


# =============================================================================== call-site contracts
class WalkAssumed(Contract):
    """TrackAnnotator._handle_update_track_ids - contract used at call sites (DESIGN 5.3).
    Both halves - the attribute part (tid', lid', frame) and the lookup part (B1 re-established, maxima raised) - are
    PROVED of the real body in contracts/walk.py (leaf bookkeeping helpers: contracts/bookkeeping.py);
    native/walk_bounded.py remains as a cross-check.

    requires  (P1) below start, an edge between two nodes carrying the old id leaves a non-dividing node
              (P2) below start, the old id does not reappear under a node with another id
    ensures   tid' = \\n. below(start,n) & tid(n)=old ? new : tid(n)
              lid' = \\n. update_lineage & below(start,n) ? new_lid : lid(n)
              every other attribute, the node set and the edge set are unchanged
              the track lookup again lists exactly the nodes per id (B1), maxima raised
    """

    qualname = f"{TA}._handle_update_track_ids"
    props = ("C04", "C05", "C06", "C01")

    def __init__(self, W):
        self.W = W

    def apply(self, I, args, kw):
        W, ctx = self.W, I.ctx
        ta, action = args
        K, st = W.K, W.st
        v0 = st.v
        start = to_z3(action.fields["start_node"], Int)
        old = to_z3(action.fields["old_tracklet_id"], Val)
        new = to_z3(action.fields["new_tracklet_id"], Val)
        nl = action.fields["new_lineage_id"]
        upd_lin = z3.BoolVal(False) if nl is None else AND(z3.Not(is_VNone(to_z3(nl, Val))), W.act["lineage"])
        newl = VNone if nl is None else to_z3(nl, Val)
        bel = below_of(I, W)
        # M3'' (relative monotonicity from a start node, by induction on the path): if every edge met below
        # `start` in one graph version is an edge of another version, the descendants of `start` carry over
        for B0 in list(W.below.values()):
            if B0 is bel:
                continue
            ant = forall([a_, b_], IMP(AND(bel(start, a_), v0.E(a_, b_)), B0.v.E(a_, b_)))
            if B0.v is W.v0 and ctx.entails_slow(ant):
                # antecedent established: use the conclusion directly (keeps the later queries small)
                ctx.assume(forall([a_], IMP(bel(start, a_), B0.rel(start, a_))), "lemma.M3rel")
                continue
            ctx.assume(IMP(ant, forall([a_], IMP(bel(start, a_), B0.rel(start, a_)))))
            ctx.assume(IMP(forall([a_, b_], IMP(AND(B0.rel(start, a_), B0.v.E(a_, b_)), v0.E(a_, b_))),
                           forall([a_], IMP(B0.rel(start, a_), bel(start, a_)))))
        # M1b (induction on the path): edge-wise equal lineage ids are equal along every descendant path
        ctx.assume(IMP(forall([a_, b_], IMP(v0.E(a_, b_), T.lid(v0, K, a_) == T.lid(v0, K, b_))),
                       forall([a_, b_], IMP(bel(a_, b_), T.lid(v0, K, a_) == T.lid(v0, K, b_)))), "lemma.M1b")
        tidf = lambda n: T.tid(v0, K, n)
        tag = f"call:{getattr(I, 'walk_site', None) or I.call_site_id('_handle_update_track_ids')}/walk"
        # a walk that keeps the track id (new == old: lineage-only relabel) rewrites no track id whatever the
        # shape below start is, so P1/P2 are required only when the id really changes
        same_tid = ctx.entails(new == old)
        keep = z3.BoolVal(True) if same_tid else (new == old)
        ctx.oblige(f"{tag}/requires:P1(old-id edges below start leave non-dividing nodes)",
                   OR(keep, forall([a_, b_], IMP(AND(bel(start, a_), v0.E(a_, b_), tidf(a_) == old, tidf(b_) == old), v0.od(a_) == 1))),
                   kind="pre", props=("C04",))
        ctx.oblige(f"{tag}/requires:P2(old id does not reappear below another id)",
                   OR(keep, forall([a_, b_], IMP(AND(bel(start, a_), v0.E(a_, b_), tidf(a_) != old), tidf(b_) != old))),
                   kind="pre", props=("C04",))
        ctx.oblige(f"{tag}/requires:start-in-graph", v0.N(start), kind="pre", props=("C04",))
        ctx.oblige(f"{tag}/requires:old-id-is-start's-id", tidf(start) == old, kind="pre", props=("C04",))
        cT = ta.fields["tracklet_id_to_nodes"]
        for lbl, f in T.B1(v0, K, cT, "trk"):
            ctx.oblige(f"{tag}/requires:{lbl}", f, kind="pre", props=("C06",))
        # effect
        trk, lk = K.trk, K.lk
        if same_tid:
            st.upd("A", lambda oldA, a, k: z3.If(AND(k == lk, upd_lin, bel(start, a)), newl, oldA(a, k)))
        else:
            st.upd("A", lambda oldA, a, k: z3.If(AND(k == trk, bel(start, a), oldA(a, trk) == old), new,
                                                z3.If(AND(k == lk, upd_lin, bel(start, a)), newl, oldA(a, k))))
        v1 = st.v
        cT.havoc(ctx)
        for _, f in T.B1(v1, K, cT, "trk"):
            ctx.assume(f, "cache.T2N.B1")
        mT = to_z3(ta.fields["max_tracklet_id"], Int)
        ta.fields["max_tracklet_id"] = Sym(z3.If(iv(new) > mT, iv(new), mT))
        cL = ta.fields["lineage_id_to_nodes"]
        if getattr(W, "lineage_lookup_contract", False):
            # lineage half of the contract (C06/C01): if the lookup agreed with the graph and the subtree below
            # start carried one lineage id, the lookup agrees with the graph afterwards
            for lbl, f in T.B1(v0, K, cL, "lin"):
                ctx.oblige(f"{tag}/requires:{lbl}", IMP(upd_lin, f), kind="pre", props=("C06", "C01"))
            ol = action.fields.get("old_lineage_id")
            ctx.oblige(f"{tag}/requires:old-lineage-id-is-start's-lineage-id",
                       IMP(upd_lin, (VNone if ol is None else to_z3(ol, Val)) == T.lid(v0, K, start)), kind="pre", props=("C06", "C01"))
            ctx.oblige(f"{tag}/requires:one-lineage-id-below-start",
                       IMP(upd_lin, forall([a_], IMP(bel(start, a_), T.lid(v0, K, a_) == T.lid(v0, K, start)))),
                       kind="pre", props=("C06", "C01"))
            snapL = cL.snapshot()
            cL.havoc(ctx)
            for _, f in T.B1(v1, K, cL, "lin"):
                ctx.assume(IMP(upd_lin, f), "cache.L2N.B1")
            i, n = z3.Ints("i!wl n!wl")
            ctx.assume(IMP(z3.Not(upd_lin), same_cache(snapL, cL.snapshot())), "cache.L2N.frame")
        else:
            cL.havoc(ctx)  # lineage lookup not needed by this caller
        mL = to_z3(ta.fields["max_lineage_id"], Int)
        ta.fields["max_lineage_id"] = Sym(z3.If(AND(upd_lin, iv(newl) > mL), iv(newl), mL))
        ctx.ghost["log"].append(("walk", start, old, new, nl))
        return None


class NeighborsAssumed(Contract):
    """SolutionTracks.get_track_neighbors(track_id, time) - call-site contract (C06 query spec)."""

    qualname = f"{ST}.get_track_neighbors"
    props = ("C06", "C03")

    def __init__(self, W):
        self.W = W

    def apply(self, I, args, kw):
        W, ctx = self.W, I.ctx
        _tracks, track_id, time = (list(args) + [kw.get("track_id"), kw.get("time")])[:3]
        K, v = W.K, W.st.v
        tidv = to_z3(track_id, Val)
        t = to_z3(time, Int)
        tag = f"call:{I.call_site_id('get_track_neighbors')}"
        cT = W.ta.fields["tracklet_id_to_nodes"]
        for lbl, f in T.B1(v, K, cT, "trk"):
            ctx.oblige(f"{tag}/requires:{lbl}", f, kind="pre", props=("C06",))
        pred, succ = ctx.fresh("pred", Val), ctx.fresh("succ", Val)
        has = lambda n: AND(v.N(n), T.tid(v, K, n) == tidv)
        tmf = lambda n: T.tm(v, K, n)
        p, s = iv(pred), iv(succ)
        ctx.assume(OR(is_VNone(pred), AND(is_VInt(pred), has(p), tmf(p) < t,
                                          forall([a_], IMP(AND(has(a_), tmf(a_) < t), tmf(a_) <= tmf(p))))))
        ctx.assume(IMP(is_VNone(pred), forall([a_], IMP(has(a_), z3.Not(tmf(a_) < t)))))
        ctx.assume(OR(is_VNone(succ), AND(is_VInt(succ), has(s), tmf(s) > t,
                                          forall([a_], IMP(AND(has(a_), tmf(a_) > t), tmf(a_) >= tmf(s))))))
        ctx.assume(IMP(is_VNone(succ), forall([a_], IMP(has(a_), z3.Not(tmf(a_) > t)))))
        return (Sym(pred), Sym(succ))


class HasTrackAtTimeAssumed(Contract):
    qualname = f"{ST}.has_track_id_at_time"
    props = ("C06",)

    def __init__(self, W):
        self.W = W

    def apply(self, I, args, kw):
        W, ctx = self.W, I.ctx
        _tracks, track_id, time = args
        K, v = W.K, W.st.v
        tidv, t = to_z3(track_id, Val), to_z3(time, Int)
        tag = f"call:{I.call_site_id('has_track_id_at_time')}"
        for lbl, f in T.B1(v, K, W.ta.fields["tracklet_id_to_nodes"], "trk"):
            ctx.oblige(f"{tag}/requires:{lbl}", f, kind="pre", props=("C06",))
        r = ctx.fresh("has_tid_at_t", Bool)
        w = ctx.fresh("wit", Int)
        has = lambda n: AND(v.N(n), T.tid(v, K, n) == tidv, T.tm(v, K, n) == t)
        ctx.assume(IMP(r, has(w)))
        ctx.assume(IMP(z3.Not(r), forall([a_], z3.Not(has(a_)))))
        return Sym(r)


class AddNewActionGhost(Contract):
    """ActionHistory.add_new_action at call sites: its own contract is C02's (contracts/history.py);
    callers only record that exactly this registration happened (ghost counter hadd)."""

    qualname = f"{AHQ}.add_new_action"

    def apply(self, I, args, kw):
        ah, action = args
        I.ctx.ghost["hadd"] += 1
        I.ctx.ghost.setdefault("hadd_actions", []).append(action)
        return None


def install_callsite_contracts(I, W, walk=True):
    c = I.ctx.contracts
    if walk:
        c[WalkAssumed.qualname] = WalkAssumed(W)
    c[NeighborsAssumed.qualname] = NeighborsAssumed(W)
    c[HasTrackAtTimeAssumed.qualname] = HasTrackAtTimeAssumed(W)
    c[AddNewActionGhost.qualname] = AddNewActionGhost()


# =============================================================================== loop invariants
def dict_view(d):
    """(has(k), at(k)) of a dict-like interpreter value over Key -> Val"""
    if isinstance(d, SymDict):
        return (lambda k: d.has(k)), (lambda k: d.at(k))
    if isinstance(d, AssocDict) or isinstance(d, dict):
        items = d.items if isinstance(d, AssocDict) else list(d.items())
        def has(k):
            return OR(*[k == to_z3(kk, Key) for kk, _ in items])
        def at(k):
            e = VNone
            for kk, vv in reversed(items):
                e = z3.If(k == to_z3(kk, Key), to_z3(vv, Val), e)
            return e
        return has, at
    raise Unsupported(f"dict view of {type(d).__name__}")


class CaptureLoop(LoopSpec):
    """`for key in features.<node|edge>_features: val = get_attr(x, key); if val is not None: self.attributes[key] = val`
    invariant(i): attributes = { k |-> attr(x,k) : k among the first i keys, attr(x,k) is not None }"""

    props = ("C01",)

    def __init__(self, read, guard=None):
        self.read = read  # (I, fr) -> function k -> current attribute term
        self.guard = guard  # (I, fr) -> formula the body needs in order not to raise (holds once i > 0)

    def enter(self, I, fr, it):
        self.self_obj = fr.env["self"]

    def havoc(self, I, fr, it, i, assigned):
        super().havoc(I, fr, it, i, assigned - {"self"})
        self.self_obj.fields["attributes"] = SymDict.fresh(I.ctx, "captured", Key, Val)

    def inv(self, I, fr, it, i):
        has, at = dict_view(self.self_obj.fields["attributes"])
        rd = self.read(I, fr)
        src = it.src_dict  # the symbolic dict being iterated
        n, ks, pos = src.enum(I.ctx)
        out = [
            ("captured-domain", forall([k_], has(k_) == AND(src.has(k_), pos(k_) < i, z3.Not(is_VNone(rd(k_)))))),
            ("captured-values", forall([k_], IMP(has(k_), at(k_) == rd(k_)))),
        ]
        if self.guard is not None:
            out.append(("body-did-not-raise", IMP(i > 0, self.guard(I, fr))))
        return out


class ApplyAttrsLoop(LoopSpec):
    """`for attr, value in attrs.items(): tracks._set_node_attr(node, attr, value)`
    invariant(i): A = \\(a,k). a == node & k among the first i keys ? norm(attrs[k]) : A_entry(a,k)"""

    props = ("C01",)

    def __init__(self, attrs_of, node_of):
        self.attrs_of, self.node_of = attrs_of, node_of

    def enter(self, I, fr, it):
        self.A0 = I.ctx.state.v.A
        self.muts0 = I.ctx.ghost["muts"]

    def havoc(self, I, fr, it, i, assigned):
        super().havoc(I, fr, it, i, assigned)
        I.ctx.state.havoc(I.ctx, ["A"])
        I.ctx.ghost["muts"] += 1

    def inv(self, I, fr, it, i):
        src = it.src_dict
        n, ks, pos = src.enum(I.ctx)
        node = to_z3(self.node_of(I, fr), Int)
        A = I.ctx.state.v.A
        A0 = self.A0
        return [("attrs-applied", forall([a_, k_], A(a_, k_) == z3.If(AND(a_ == node, src.has(k_), pos(k_) < i),
                                                                    norm_val(src.at(k_)), A0(a_, k_))))]


# =============================================================================== snapshots / havoc for contracts
class Snap:
    """Immutable snapshot of everything a tracks contract can talk about."""

    def __init__(self, W, I):
        ta = W.ta
        self.v = W.st.v
        cT, cL = ta.fields["tracklet_id_to_nodes"], ta.fields["lineage_id_to_nodes"]
        self.T = cT.snapshot()  # (key, cnt, ln)
        self.L = cL.snapshot()
        self.maxT, self.maxL = W.maxT(), W.maxL()
        g = I.ctx.ghost
        self.muts, self.hadd, self.nemits = g["muts"], g["hadd"], len(g["emits"])


def havoc_components(I, W, comps):
    """comps: names among View components, 'T2N', 'L2N', 'maxT', 'maxL'"""
    ctx = I.ctx
    view = [c for c in comps if c in ("N", "E", "A", "Ae", "od", "idg", "par", "c1", "c2", "Seg")]
    if "E" in view:
        view = list(dict.fromkeys(view + ["par", "c1", "c2"]))
    if view:
        W.st.havoc(ctx, view)
    ta = W.ta
    if "T2N" in comps:
        ta.fields["tracklet_id_to_nodes"].havoc(ctx)
    if "L2N" in comps:
        ta.fields["lineage_id_to_nodes"].havoc(ctx)
    if "maxT" in comps:
        ta.fields["max_tracklet_id"] = Sym(ctx.fresh("maxT", Int))
    if "maxL" in comps:
        ta.fields["max_lineage_id"] = Sym(ctx.fresh("maxL", Int))
    ctx.ghost["muts"] += 1


def same_cache(c0, c1):
    i, n = z3.Ints("i!sc n!sc")
    return AND(forall([i], c0[0](i) == c1[0](i)), forall([i, n], c0[1](i, n) == c1[1](i, n)), forall([i], c0[2](i) == c1[2](i)))


def unchanged(s0: Snap, s1: Snap, comps):
    """frame formulas: the listed components are equal in both snapshots"""
    out = []
    v0, v1 = s0.v, s1.v
    x, y = z3.Ints("x!f y!f")
    kk = z3.Const("k!f", Key)
    for c in comps:
        if c == "N":
            out.append(("frame.N", forall([x], v0.N(x) == v1.N(x))))
        elif c == "E":
            out.append(("frame.E", forall([x, y], v0.E(x, y) == v1.E(x, y))))
            out.append(("frame.degrees", forall([x], AND(v0.od(x) == v1.od(x), v0.idg(x) == v1.idg(x)))))
        elif c == "A":
            out.append(("frame.A", forall([x, kk], v0.A(x, kk) == v1.A(x, kk))))
        elif c == "Ae":
            out.append(("frame.Ae", forall([x, y, kk], v0.Ae(x, y, kk) == v1.Ae(x, y, kk))))
        elif c == "Seg" and v0.Seg is not None:
            from pyvc.tracksmodel import p_, t_
            out.append(("frame.Seg", forall([t_, p_], v0.Seg(t_, p_) == v1.Seg(t_, p_))))
        elif c == "T2N":
            out.append(("frame.T2N", same_cache(s0.T, s1.T)))
        elif c == "L2N":
            out.append(("frame.L2N", same_cache(s0.L, s1.L)))
        elif c == "maxT":
            out.append(("frame.maxT", s0.maxT == s1.maxT))
        elif c == "maxL":
            out.append(("frame.maxL", s0.maxL == s1.maxL))
    return out


ALL_COMPONENTS = ("N", "E", "A", "Ae", "Seg", "T2N", "L2N", "maxT", "maxL")
