"""C15 - funtracks.import_export._utils.filter_graph_with_ancestors (ancestor closure of a selection)."""
from __future__ import annotations

import z3

from pyvc.spec import Contract, LoopSpec
from pyvc.terms import AND, IMP, OR, Bool, Int, Sym, forall, to_z3
from pyvc.tracksmodel import GraphModel, TState, a_, b_
from pyvc.values import BuiltinExc, PyRaise, SymList, SymSet
from pyvc.verify import call_real

FG = "funtracks.import_export._utils.filter_graph_with_ancestors"
x_, k_, p_ = z3.Ints("x!x k!x p!x")


def anc_facts(E, Anc):
    """model of networkx.ancestors: Anc(k, x) <=> x is a proper ancestor of k  (TransGen E x k).
    First-order facts of the transitive closure; the least-fixpoint reading is lemma M5 (Lean)."""
    return [
        forall([k_, p_], IMP(E(p_, k_), Anc(k_, p_))),
        forall([k_, x_, p_], IMP(AND(Anc(k_, x_), E(p_, x_)), Anc(k_, p_))),
    ]


class AncLoop(LoopSpec):
    """invariant(i): all_nodes_to_keep = K  u  ancestors of the first i selected nodes"""

    props = ("C15",)

    def __init__(self, K, Anc):
        self.K, self.Anc = K, Anc

    def havoc(self, I, fr, it, i, assigned):
        super().havoc(I, fr, it, i, assigned - {"all_nodes_to_keep"})
        fr.env["all_nodes_to_keep"] = SymSet.fresh(I.ctx, "all", Int)

    def inv(self, I, fr, it, i):
        K, Anc = self.K, self.Anc
        n, ks, pos = K.enum(I.ctx)
        allk = fr.env["all_nodes_to_keep"]
        kk = z3.Int("kk!x")
        return [("kept = selection + ancestors of the nodes processed so far",
                 forall([x_], allk.has(x_) == OR(K.has(x_), z3.Exists([kk], AND(K.has(kk), pos(kk) < i, Anc(kk, x_))))))]


def _ext_ancestors(Anc, N):
    def f(I, args, kw):
        _g, node = args
        n = to_z3(node, Int)
        if not I.ctx.branch(N(n), "node in graph"):
            raise PyRaise(BuiltinExc("NetworkXError", ("node not in graph",)))
        return SymSet(z3.Lambda([x_], Anc(n, x_)), Int)
    return f


class FilterWithAncestors(Contract):
    qualname = FG
    props = ("C15",)

    def run(self, I, cfg):
        ctx = I.ctx
        st = TState(ctx, has_seg=False)
        ctx.state = st
        g = GraphModel(st)
        E, N = st.v.E, st.v.N
        Anc = ctx.fresh_fun("Anc", Int, Int, Bool)
        for f in anc_facts(E, Anc):
            ctx.assume(f)
        K = SymSet.fresh(ctx, "selection", Int)
        ctx.assume(forall([x_], IMP(K.has(x_), N(x_))))  # the selection is a set of graph nodes
        I.ext["networkx.ancestors"] = _ext_ancestors(Anc, N)
        I.ext["model.set"] = lambda I_, a, k: a[0].do_copy(I_) if a and isinstance(a[0], SymSet) else SymSet(z3.K(Int, z3.BoolVal(False)), Int)
        ctx.loopspecs[(FG, 0)] = AncLoop(K, Anc)
        muts0 = ctx.ghost["muts"]
        out = call_real(I, FG, [g, K])
        q = "filter_graph_with_ancestors"
        if out[0] != "return":
            ctx.oblige(f"C15/{q}/no-exception", False, props=self.props)
            return out
        res = out[1]
        ok = isinstance(res, SymList)
        ctx.oblige(f"C15/{q}/ensures:returns-a-list", z3.BoolVal(ok), props=self.props)
        if not ok:
            return out
        kk = z3.Int("kk!y")
        j = z3.Int("j!y")
        C = lambda x: OR(K.has(x), z3.Exists([kk], AND(K.has(kk), Anc(kk, x))))
        ctx.oblige(f"C15/{q}/ensures:every-returned-node-is-selected-or-an-ancestor-of-a-selected-node(nothing else)",
                   forall([j], IMP(AND(j >= 0, j < res.n), C(res.get(j).e))), props=self.props)
        src = getattr(res, "src_set", None)
        ctx.oblige(f"C15/{q}/ensures:every-selected-node-and-every-ancestor-is-returned",
                   z3.BoolVal(src is not None) if src is None else forall([x_], IMP(C(x_), src.has(x_))), props=self.props)
        ctx.oblige(f"C15/{q}/ensures:closed-under-parents(no exported node has a missing parent)",
                   z3.BoolVal(False) if src is None else forall([x_, p_], IMP(AND(src.has(x_), E(p_, x_)), src.has(p_))), props=self.props)
        ctx.oblige(f"C15/{q}/ensures:graph-and-selection-unchanged", z3.BoolVal(ctx.ghost["muts"] == muts0), props=("C15", "C16"))
        return out


def units():
    from pyvc.verify import Unit
    return [Unit(FilterWithAncestors())]
