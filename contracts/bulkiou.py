"""C09 - the bulk path of the edge IoU: EdgeAnnotator._iou_update and EdgeAnnotator.compute.

Abstract state: graph (N, E), node times tm, edge attributes Ae(a, b, k) (versioned), a label video Seg (not written);
IOU / overlap are the uninterpreted measurements of pyvc/segmodel.py (no overlap => IoU 0).
Assumed externals: _compute_ious(f1, f2) lists every overlapping pair of non-zero labels once with its IoU (its body is numpy
code: bounded stand-in); Tracks.get_time(n) = tm(n); tracks.nodes() lists every node once; graph.out_edges(nodes) lists exactly
the edges leaving the given nodes, each once; defaultdict(list) creates an empty list on first access.

_iou_update(edges, seg[t1], seg[t2])  for a list of distinct edges:
     Ae'(a, b, iou) = IOU(t1, a, t2, b)  for every edge of the list (0 when the masks do not overlap); nothing else changes; the list is consumed
compute(keys)  when the IoU key is requested and active, edges are forward in time and node times are frame indices:
     Ae'(a, b, iou) = IOU(tm(a), a, tm(b), b)  for every edge, also across skipped frames; nothing else changes
"""
from __future__ import annotations

import z3

from pyvc.core import Unsupported
from pyvc.segmodel import Frame, rp_fun
from pyvc.spec import Contract, LoopSpec
from pyvc.terms import AND, IMP, OR, Bool, Int, Key, Pix, Sym, Val, VInt, forall, lit, to_z3
from pyvc.values import BuiltinExc, Instance, ModelObj, PyRaise, SymList
from pyvc.verify import call_real, repo

from .registry import FeatTable

EA = "funtracks.annotators._edge_annotator.EdgeAnnotator"
a_, b_, i_, j_, t_, f_ = z3.Ints("a!u b!u i!u j!u t!u f!u")
k_ = z3.Const("k!u", Key)
S = z3.Select
IOU_KEY = lit("iou")


class World:
    def __init__(self, ctx):
        self.ctx = ctx
        self.N = ctx.fresh_fun("N", Int, Bool)
        self.E = ctx.fresh_fun("E", Int, Int, Bool)
        self.tm = ctx.fresh_fun("time", Int, Int)
        self.Ae = ctx.fresh_fun("Ae", Int, Int, Key, Val)
        self.Seg = ctx.fresh_fun("Seg", Int, Pix, Int)
        self.nfr = ctx.fresh("n_frames", Int)
        _, _, self.io, self.ov = rp_fun(ctx, self.Seg)
        ctx.assume(self.nfr >= 0)
        ctx.assume(forall([a_, b_], IMP(self.E(a_, b_), AND(self.N(a_), self.N(b_)))), "graph")
        self.seg_writes = 0

    def iou_of(self, a, b):
        return self.io(self.tm(a), a, self.tm(b), b)


class SegArr(ModelObj):
    type_names = ("ndarray",)

    def __init__(self, W):
        self.W = W

    def attr_shape(self, I):
        return (Sym(self.W.nfr),)

    def m_getitem(self, I, t):
        return Frame(None, to_z3(t, Int), self.W.Seg)

    def m_setitem(self, I, idx, v):
        self.W.seg_writes += 1


class EdgeAttrView(ModelObj):
    def __init__(self, W, a, b):
        self.W, self.a, self.b = W, a, b

    def m_setitem(self, I, k, v):
        W = self.W
        ke, ve = to_z3(k, Key), to_z3(v, Val)
        old, a, b = W.Ae, self.a, self.b
        W.Ae = W.ctx.fresh_fun("Ae", Int, Int, Key, Val)
        W.ctx.assume(forall([a_, b_, k_], W.Ae(a_, b_, k_) == z3.If(AND(a_ == a, b_ == b, k_ == ke), ve, old(a_, b_, k_))))


class EdgesView(ModelObj):
    def __init__(self, W):
        self.W = W

    def m_getitem(self, I, e):
        if not (isinstance(e, tuple) and len(e) == 2):
            raise Unsupported("edge index")
        return EdgeAttrView(self.W, to_z3(e[0], Int), to_z3(e[1], Int))


class EdgeList(ModelObj):
    """a list of pairwise distinct edges, as a set of pairs with an enumeration"""

    type_names = ("list",)

    def __init__(self, ctx, mem=None):
        self.ctx = ctx
        self.mem = mem if mem is not None else ctx.fresh_fun("edges_mem", Int, Int, Bool)
        self._enum = None

    def m_contains(self, I, e):
        return Sym(self.mem(to_z3(e[0], Int), to_z3(e[1], Int)))

    def do_remove(self, I, e):
        a, b = to_z3(e[0], Int), to_z3(e[1], Int)
        if not I.ctx.branch(self.mem(a, b), "edge in list"):
            raise PyRaise(BuiltinExc("ValueError", ("list.remove(x): x not in list",)))
        old = self.mem
        self.mem = self.ctx.fresh_fun("edges_mem", Int, Int, Bool)
        self.ctx.assume(forall([a_, b_], self.mem(a_, b_) == AND(old(a_, b_), z3.Not(AND(a_ == a, b_ == b)))))
        self._enum = None

    def do_append(self, I, e):
        a, b = to_z3(e[0], Int), to_z3(e[1], Int)
        old = self.mem
        self.mem = self.ctx.fresh_fun("edges_mem", Int, Int, Bool)
        self.ctx.assume(forall([a_, b_], self.mem(a_, b_) == OR(old(a_, b_), AND(a_ == a, b_ == b))))
        self._enum = None

    def m_iter(self, I):
        if self._enum is None:
            ctx = self.ctx
            n = ctx.fresh("n_edges", Int)
            ea, eb = ctx.fresh_fun("edge_src", Int, Int), ctx.fresh_fun("edge_dst", Int, Int)
            pos = ctx.fresh_fun("edge_pos", Int, Int, Int)
            ctx.assume(n >= 0)
            ctx.assume(forall([j_], IMP(AND(j_ >= 0, j_ < n), AND(self.mem(ea(j_), eb(j_)), pos(ea(j_), eb(j_)) == j_))), "edges.order")
            ctx.assume(forall([a_, b_], IMP(self.mem(a_, b_), AND(pos(a_, b_) >= 0, pos(a_, b_) < n, ea(pos(a_, b_)) == a_, eb(pos(a_, b_)) == b_))), "edges.order")
            self._enum = (n, ea, eb, pos)
        n, ea, eb, pos = self._enum
        out = SymList(n, lambda j: (Sym(ea(j)), Sym(eb(j))))
        out.pos, out.edgelist = pos, self
        return out


def compute_ious_whole(I, args, kw):
    """assumed contract of _compute_ious on two whole frames"""
    f1, f2 = args
    W = I.ctx.ghost["bulkiou_world"]
    if not (isinstance(f1, Frame) and isinstance(f2, Frame) and f1.SegV.eq(W.Seg) and f2.SegV.eq(W.Seg)):
        raise Unsupported("_compute_ious arguments")
    ctx = I.ctx
    t1, t2 = f1.t, f2.t
    n = ctx.fresh("n_overlaps", Int)
    p1, p2 = ctx.fresh_fun("ov_src", Int, Int), ctx.fresh_fun("ov_dst", Int, Int)
    pos = ctx.fresh_fun("ov_pos", Int, Int, Int)
    ctx.assume(n >= 0)
    ctx.assume(forall([j_], IMP(AND(j_ >= 0, j_ < n), AND(W.ov(t1, p1(j_), t2, p2(j_)), pos(p1(j_), p2(j_)) == j_))), "ious")
    ctx.assume(forall([a_, b_], IMP(W.ov(t1, a_, t2, b_), AND(pos(a_, b_) >= 0, pos(a_, b_) < n, p1(pos(a_, b_)) == a_, p2(pos(a_, b_)) == b_))), "ious")
    out = SymList(n, lambda j: (Sym(p1(j)), Sym(p2(j)), Sym(W.io(t1, p1(j), t2, p2(j)))))
    out.pos, out.t1, out.t2 = pos, t1, t2
    return out


class ComputeIousWholeAssumed(Contract):
    qualname = "funtracks.annotators._compute_ious._compute_ious"

    def apply(self, I, args, kw):
        return compute_ious_whole(I, args, kw)


class GetTimeAssumed(Contract):
    qualname = "funtracks.data_model.tracks.Tracks.get_time"

    def apply(self, I, args, kw):
        W = I.ctx.ghost["bulkiou_world"]
        return Sym(W.tm(to_z3(args[1], Int)))


class Graph(ModelObj):
    type_names = ("DiGraph",)

    def __init__(self, W):
        self.W = W

    def attr_edges(self, I):
        return EdgesView(self.W)

    def do_out_edges(self, I, nodes):
        """the edges leaving the nodes of the given list, each once"""
        W, ctx = self.W, I.ctx
        if not isinstance(nodes, NodeList):
            raise Unsupported("out_edges argument")
        el = EdgeList(ctx)
        ctx.assume(forall([a_, b_], el.mem(a_, b_) == AND(W.E(a_, b_), nodes.mem(a_))))
        return el


class NodeList(ModelObj):
    """nodes_by_frame[t]: a list of distinct nodes as a set"""

    type_names = ("list",)

    def __init__(self, d, f):
        self.d, self.f = d, f

    def mem(self, n):
        return self.d.mem(self.f, n)

    def do_append(self, I, n):
        d, ctx = self.d, self.d.ctx
        ne = to_z3(n, Int)
        old, f = d.mem, self.f
        d.mem = ctx.fresh_fun("nbf_mem", Int, Int, Bool)
        ctx.assume(forall([f_, a_], d.mem(f_, a_) == OR(old(f_, a_), AND(f_ == f, a_ == ne))))


class NodesByFrame(ModelObj):
    """defaultdict(list) frame -> nodes: mem(f, n); a missing key reads as the empty list"""

    type_names = ("dict",)

    def __init__(self, ctx):
        self.ctx = ctx
        self.mem = ctx.fresh_fun("nbf_mem", Int, Int, Bool)

    @staticmethod
    def empty(ctx):
        d = NodesByFrame(ctx)
        ctx.assume(forall([f_, a_], z3.Not(d.mem(f_, a_))))
        return d

    def m_getitem(self, I, f):
        return NodeList(self, to_z3(f, Int))


class EdgesByEnd(ModelObj):
    """defaultdict(list) end time -> edges: mem(f, a, b)"""

    type_names = ("dict",)

    def __init__(self, ctx):
        self.ctx = ctx
        self.mem = ctx.fresh_fun("ebe_mem", Int, Int, Int, Bool)
        self._enum = None

    @staticmethod
    def empty(ctx):
        d = EdgesByEnd(ctx)
        ctx.assume(forall([f_, a_, b_], z3.Not(d.mem(f_, a_, b_))))
        return d

    def m_getitem(self, I, f):
        return EndList(self, to_z3(f, Int))

    def do_items(self, I):
        """(end time, edge list) for every end time that has at least one edge, each once"""
        ctx = self.ctx
        n = ctx.fresh("n_groups", Int)
        gt = ctx.fresh_fun("group_time", Int, Int)
        gpos = ctx.fresh_fun("group_pos", Int, Int)
        wa, wb = ctx.fresh_fun("group_wit_a", Int, Int), ctx.fresh_fun("group_wit_b", Int, Int)
        mem = self.mem
        ctx.assume(n >= 0)
        ctx.assume(forall([j_], IMP(AND(j_ >= 0, j_ < n), AND(mem(gt(j_), wa(j_), wb(j_)), gpos(gt(j_)) == j_))), "groups")
        ctx.assume(forall([f_, a_, b_], IMP(mem(f_, a_, b_), AND(gpos(f_) >= 0, gpos(f_) < n, gt(gpos(f_)) == f_))), "groups")

        def item(j):
            f = gt(j)
            return (Sym(f), EdgeList(ctx, lambda a, b: mem(f, a, b)))
        out = SymList(n, item)
        out.gpos, out.gt, out.groups = gpos, gt, self
        return out


class EndList(ModelObj):
    type_names = ("list",)

    def __init__(self, d, f):
        self.d, self.f = d, f

    def do_append(self, I, e):
        d, ctx = self.d, self.d.ctx
        a, b = to_z3(e[0], Int), to_z3(e[1], Int)
        old, f = d.mem, self.f
        d.mem = ctx.fresh_fun("ebe_mem", Int, Int, Int, Bool)
        ctx.assume(forall([f_, a_, b_], d.mem(f_, a_, b_) == OR(old(f_, a_, b_), AND(f_ == f, a_ == a, b_ == b))))


def defaultdict_ext(I, args, kw):
    W = I.ctx.ghost["bulkiou_world"]
    n = I.ctx.ghost.get("defaultdicts", 0)
    I.ctx.ghost["defaultdicts"] = n + 1
    return NodesByFrame.empty(I.ctx) if n == 0 else EdgesByEnd.empty(I.ctx)


class TracksNodes(Contract):
    """tracks.nodes(): every node once (np.array(graph.nodes()))"""

    qualname = "funtracks.data_model.tracks.Tracks.nodes"

    def apply(self, I, args, kw):
        W = I.ctx.ghost["bulkiou_world"]
        ctx = I.ctx
        n = ctx.fresh("n_nodes", Int)
        at, pos = ctx.fresh_fun("node_at", Int, Int), ctx.fresh_fun("node_pos", Int, Int)
        ctx.assume(n >= 0)
        ctx.assume(forall([i_], IMP(AND(i_ >= 0, i_ < n), AND(W.N(at(i_)), pos(at(i_)) == i_))), "nodes")
        ctx.assume(forall([a_], IMP(W.N(a_), AND(pos(a_) >= 0, pos(a_) < n, at(pos(a_)) == a_))), "nodes")
        out = SymList(n, lambda i: Sym(at(i)), elem_sort=Int)
        out.pos = pos
        return out


# ------------------------------------------------------------------------------------------------ _iou_update
def ae_clause(W, Ae0, done, value):
    return forall([a_, b_, k_], W.Ae(a_, b_, k_) == z3.If(AND(k_ == IOU_KEY, done(a_, b_)), value(a_, b_), Ae0(a_, b_, k_)))


class OverlapsLoop(LoopSpec):
    """for id1, id2, iou in ious: if (id1, id2) in edges: set; edges.remove"""

    props = ("C09", "C10")

    def __init__(self, W):
        self.W = W

    def enter(self, I, fr, it):
        self.Ae0 = self.W.Ae
        self.edges = fr.env["edges"]
        self.L0 = self.edges.mem
        self.t1, self.t2 = it.t1, it.t2

    def havoc(self, I, fr, it, i, assigned):
        for nm in ("id1", "id2", "iou", "edge"):
            fr.env.pop(nm, None)
        self.W.Ae = I.ctx.fresh_fun("Ae", Int, Int, Key, Val)
        self.edges.mem = I.ctx.fresh_fun("edges_mem", Int, Int, Bool)
        self.edges._enum = None

    def inv(self, I, fr, it, j):
        W, L0, pos = self.W, self.L0, it.pos
        t1, t2 = self.t1, self.t2
        hit = lambda a, b: AND(L0(a, b), W.ov(t1, a, t2, b), pos(a, b) < j)
        return [("overlapping-listed-edges-before-j-carry-their-iou", ae_clause(W, self.Ae0, hit, lambda a, b: W.io(t1, a, t2, b))),
                ("and-have-left-the-list", forall([a_, b_], self.edges.mem(a_, b_) == AND(L0(a_, b_), z3.Not(hit(a_, b_))))),
                ("list-object-kept", z3.BoolVal(fr.env["edges"] is self.edges))]


class RestLoop(LoopSpec):
    """for edge in edges: set 0"""

    props = ("C09", "C10")

    def __init__(self, W, first):
        self.W, self.first = W, first

    def enter(self, I, fr, it):
        self.Ae1 = self.W.Ae
        self.L1 = it.edgelist.mem

    def havoc(self, I, fr, it, i, assigned):
        fr.env.pop("edge", None)
        self.W.Ae = I.ctx.fresh_fun("Ae", Int, Int, Key, Val)

    def inv(self, I, fr, it, r):
        W, L1, pos = self.W, self.L1, it.pos
        return [("remaining-edges-before-r-carry-0", ae_clause(W, self.Ae1, lambda a, b: AND(L1(a, b), pos(a, b) < r), lambda a, b: VInt(0))),
                ("list-not-changed-while-iterating", z3.BoolVal(it.edgelist.mem is L1))]


def make(ctx):
    W = World(ctx)
    ctx.ghost["bulkiou_world"] = W
    R = repo()
    table = FeatTable.fresh(ctx, "edge")
    tracks = Instance(R.get_class("funtracks.data_model.tracks.Tracks"), {"graph": Graph(W), "segmentation": SegArr(W)})
    ann = Instance(R.get_class(EA), {"tracks": tracks, "all_features": table, "iou_key": "iou"})
    ctx.contracts[ComputeIousWholeAssumed.qualname] = ComputeIousWholeAssumed()
    ctx.contracts[GetTimeAssumed.qualname] = GetTimeAssumed()
    ctx.contracts[TracksNodes.qualname] = TracksNodes()
    return W, tracks, ann, table


class IouUpdate(Contract):
    qualname = f"{EA}._iou_update"
    props = ("C09", "C10")

    def run(self, I, cfg):
        ctx = I.ctx
        W, tracks, ann, table = make(ctx)
        Ae0 = W.Ae
        edges = EdgeList(ctx)
        L0 = edges.mem
        t1, t2 = ctx.fresh("t1", Int), ctx.fresh("t2", Int)
        first = OverlapsLoop(W)
        ctx.loopspecs[(self.qualname, 0)] = first
        ctx.loopspecs[(self.qualname, 1)] = RestLoop(W, first)
        out = call_real(I, self.qualname, [ann, edges, Frame(None, t1, W.Seg), Frame(None, t2, W.Seg)], {})
        q = "EdgeAnnotator._iou_update"
        if out[0] != "return":
            ctx.oblige(f"C09/{q}/no-exception", False, props=self.props, note=str(out[1]))
            return out
        for lbl, f in iou_update_spec(W, Ae0, L0, t1, t2):
            ctx.oblige(f"C09/{q}/ensures:{lbl}", f, props=self.props)
        ctx.oblige(f"C09/{q}/ensures:segmentation-not-written", z3.BoolVal(W.seg_writes == 0), props=self.props)
        return out

    def apply(self, I, args, kw):
        ctx = I.ctx
        W = ctx.ghost["bulkiou_world"]
        ann, edges, f1, f2 = args
        if not (isinstance(edges, EdgeList) and isinstance(f1, Frame) and isinstance(f2, Frame)):
            raise Unsupported("_iou_update arguments")
        Ae0, L0 = W.Ae, edges.mem
        W.Ae = ctx.fresh_fun("Ae", Int, Int, Key, Val)
        edges.mem = ctx.fresh_fun("edges_mem", Int, Int, Bool)
        for lbl, f in iou_update_spec(W, Ae0, L0, f1.t, f2.t):
            ctx.assume(f, "iou_update")
        return None


def iou_update_spec(W, Ae0, L0, t1, t2):
    return [("every-listed-edge-carries-the-iou-of-the-two-frames'-masks-nothing-else-changes",
             ae_clause(W, Ae0, lambda a, b: L0(a, b), lambda a, b: W.io(t1, a, t2, b)))]


# ------------------------------------------------------------------------------------------------ compute
class NodesLoop(LoopSpec):
    """for n in self.tracks.nodes(): nodes_by_frame[get_time(n)].append(n)"""

    props = ("C09", "C10")

    def __init__(self, W):
        self.W = W

    def havoc(self, I, fr, it, i, assigned):
        fr.env.pop("n", None)
        fr.env["nodes_by_frame"].mem = I.ctx.fresh_fun("nbf_mem", Int, Int, Bool)

    def inv(self, I, fr, it, i):
        W, d = self.W, fr.env["nodes_by_frame"]
        return [("first-i-nodes-filed-under-their-time", forall([f_, a_], d.mem(f_, a_) == AND(W.N(a_), W.tm(a_) == f_, it.pos(a_) < i)))]


class FramesLoop(LoopSpec):
    """for t in range(seg.shape[0] - 1)"""

    props = ("C09", "C10")

    def __init__(self, W):
        self.W = W

    def enter(self, I, fr, it):
        self.Ae0 = self.W.Ae
        self.nbf = fr.env["nodes_by_frame"].mem

    def havoc(self, I, fr, it, i, assigned):
        for nm in ("t", "nodes_in_t", "edges_by_end_time", "edge", "end_time", "edges"):
            fr.env.pop(nm, None)
        self.W.Ae = I.ctx.fresh_fun("Ae", Int, Int, Key, Val)

    def inv(self, I, fr, it, t):
        W = self.W
        return [("edges-leaving-frames-before-t-carry-their-iou", ae_clause(W, self.Ae0, lambda a, b: AND(W.E(a, b), W.tm(a) < t), W.iou_of)),
                ("node-lists-not-changed", z3.BoolVal(fr.env["nodes_by_frame"].mem is self.nbf)),
                ("segmentation-not-written", z3.BoolVal(W.seg_writes == 0))]


class OutEdgesLoop(LoopSpec):
    """for edge in graph.out_edges(nodes_in_t): edges_by_end_time[get_time(edge[1])].append(edge)"""

    props = ("C09", "C10")

    def __init__(self, W):
        self.W = W

    def havoc(self, I, fr, it, i, assigned):
        fr.env.pop("edge", None)
        fr.env["edges_by_end_time"].mem = I.ctx.fresh_fun("ebe_mem", Int, Int, Int, Bool)

    def inv(self, I, fr, it, i):
        W, d = self.W, fr.env["edges_by_end_time"]
        L = it.edgelist.mem
        return [("first-i-out-edges-grouped-by-the-time-of-their-target", forall([f_, a_, b_], d.mem(f_, a_, b_) == AND(L(a_, b_), it.pos(a_, b_) < i, W.tm(b_) == f_)))]


class GroupsLoop(LoopSpec):
    """for end_time, edges in edges_by_end_time.items(): self._iou_update(edges, seg[t], seg[end_time])"""

    props = ("C09", "C10")

    def __init__(self, W):
        self.W = W

    def enter(self, I, fr, it):
        self.Ae1 = self.W.Ae
        self.G = it.groups.mem
        self.t = to_z3(fr.env["t"], Int)

    def havoc(self, I, fr, it, i, assigned):
        for nm in ("end_time", "edges"):
            fr.env.pop(nm, None)
        self.W.Ae = I.ctx.fresh_fun("Ae", Int, Int, Key, Val)

    def inv(self, I, fr, it, g):
        W, G, t = self.W, self.G, self.t
        return [("edges-of-the-first-g-groups-carry-their-iou",
                 ae_clause(W, self.Ae1, lambda a, b: AND(G(W.tm(b), a, b), it.gpos(W.tm(b)) < g), lambda a, b: W.io(t, a, W.tm(b), b)))]


class BulkIou(Contract):
    qualname = f"{EA}.compute"
    props = ("C09", "C10")

    def run(self, I, cfg):
        ctx = I.ctx
        W, tracks, ann, table = make(ctx)
        I.ext["collections.defaultdict"] = defaultdict_ext
        c = IouUpdate()
        ctx.contracts[c.qualname] = c
        Ae0 = W.Ae
        # documented input: edges go forward in time, node times are frame indices
        ctx.assume(forall([a_, b_], IMP(W.E(a_, b_), W.tm(a_) < W.tm(b_))), "pre.forward")
        ctx.assume(forall([a_], IMP(W.N(a_), AND(W.tm(a_) >= 0, W.tm(a_) < W.nfr))), "pre.times-are-frame-indices")
        req = None if cfg.get("keys") == "none" else SymList.fresh(ctx, "feature_keys", Key)
        ctx.loopspecs[(self.qualname, 0)] = NodesLoop(W)
        ctx.loopspecs[(self.qualname, 1)] = FramesLoop(W)
        ctx.loopspecs[(self.qualname, 2)] = OutEdgesLoop(W)
        ctx.loopspecs[(self.qualname, 3)] = GroupsLoop(W)
        out = call_real(I, self.qualname, [ann] + ([req] if req is not None else []), {})
        q = "EdgeAnnotator.compute"
        if out[0] != "return":
            ctx.oblige(f"C09/{q}/no-exception", False, props=self.props, note=str(out[1]))
            return out
        active = AND(S(table.dom, IOU_KEY), S(table.act, IOU_KEY))
        wanted = active if req is None else AND(active, z3.Exists([j_], AND(j_ >= 0, j_ < req.n, to_z3(req.get(j_), Key) == IOU_KEY)))
        ctx.oblige(f"C09/{q}/ensures:every-edge-carries-the-iou-of-its-endpoints'-masks-in-their-own-frames-iff-the-iou-key-is-requested-and-active",
                   ae_clause(W, Ae0, lambda a, b: AND(wanted, W.E(a, b)), W.iou_of), props=self.props)
        ctx.oblige(f"C09/{q}/ensures:segmentation-not-written", z3.BoolVal(W.seg_writes == 0), props=self.props)
        return out


def units():
    from pyvc.verify import Unit
    return [Unit(IouUpdate(), {}), Unit(BulkIou(), {"keys": "list"}), Unit(BulkIou(), {"keys": "none"})]
