"""C01 - ActionGroup.inverse inverts the contained actions in reverse order.

Ghost: every action record a has src(a), dst(a) (states before/after it was applied); calling
a.inverse() requires world == dst(a) ("invertible where it was applied" - for primitives this is the
round-trip obligation C01/<Prim>/*, for nested groups this very contract), moves the world to src(a)
and returns a record with src and dst swapped.  A group's records form a chain.
"""
from __future__ import annotations

import z3

from pyvc.spec import Contract, LoopSpec
from pyvc.terms import AND, IMP, Int, Sym, forall
from pyvc.tracksmodel import ActRef, St
from pyvc.values import Instance, SymList
from pyvc.verify import call_real, repo

from .history import _act_attr, dst, src

AG = "funtracks.actions._base.ActionGroup"
j_ = z3.Int("j!g")
_dummy = z3.Function("dummy!grp", Int, ActRef)


class InverseComp(LoopSpec):
    props = ("C01",)
    result_sort = ActRef

    def __init__(self, L, n, w_end):
        self.L, self.n, self.w_end = L, n, w_end

    def dummy(self, i):
        return Sym(_dummy(i))

    def havoc(self, I, fr, it, i, assigned):
        I.ctx.ghost["world"] = I.ctx.fresh("world", St)

    def inv(self, I, fr, it, i, res):
        L, n = self.L, self.n
        w = I.ctx.ghost["world"]
        return [
            ("world-is-where-the-next-inverse-applies", w == z3.If(i == 0, self.w_end, src(L.get(n - i).e))),
            ("result-holds-the-inverses-in-reverse-order",
             forall([j_], IMP(AND(j_ >= 0, j_ < i), AND(src(res.get(j_).e) == dst(L.get(n - 1 - j_).e),
                                                         dst(res.get(j_).e) == src(L.get(n - 1 - j_).e))))),
        ]


class GroupInverse(Contract):
    qualname = f"{AG}.inverse"
    props = ("C01",)
    sym_attr = {"ActRef": _act_attr}

    def run(self, I, cfg):
        ctx = I.ctx
        cls = repo().get_class(AG)
        L = SymList.fresh(ctx, "actions", ActRef)
        n = L.n
        # the group was applied: its records form a chain that ends in the current world
        ctx.assume(forall([j_], IMP(AND(j_ >= 0, j_ < n - 1), dst(L.get(j_).e) == src(L.get(j_ + 1).e))))
        w_end = ctx.fresh("world_after_group", St)
        ctx.assume(IMP(n > 0, w_end == dst(L.get(n - 1).e)))
        ctx.ghost["world"] = w_end
        tracks = Instance(repo().get_class("funtracks.data_model.tracks.Tracks"), {})
        grp = Instance(cls, {"tracks": tracks, "actions": L})
        ctx.loopspecs[(self.qualname, "comp0")] = InverseComp(L, n, w_end)
        out = call_real(I, self.qualname, [grp])
        q = "ActionGroup.inverse"
        if out[0] != "return":
            ctx.oblige(f"C01/{q}/no-exception", False, props=self.props)
            return out
        res = out[1]
        R = res.fields["actions"]
        ctx.oblige(f"C01/{q}/ensures:returns-an-ActionGroup-on-the-same-tracks",
                   z3.BoolVal(isinstance(res, Instance) and res.cls.name == "ActionGroup" and res.fields["tracks"] is tracks), props=self.props)
        ctx.oblige(f"C01/{q}/ensures:as-many-inverses-as-actions", R.n == n, props=self.props)
        ctx.oblige(f"C01/{q}/ensures:world-is-the-state-before-the-group", ctx.ghost["world"] == z3.If(n > 0, src(L.get(z3.IntVal(0)).e), w_end), props=self.props)
        ctx.oblige(f"C01/{q}/ensures:result-is-the-reversed-list-of-inverses",
                   forall([j_], IMP(AND(j_ >= 0, j_ < n), AND(src(R.get(j_).e) == dst(L.get(n - 1 - j_).e), dst(R.get(j_).e) == src(L.get(n - 1 - j_).e)))), props=self.props)
        ctx.oblige(f"C01/{q}/ensures:result-is-again-a-chain(so-inverse-of-inverse-re-applies)",
                   forall([j_], IMP(AND(j_ >= 0, j_ < n - 1), dst(R.get(j_).e) == src(R.get(j_ + 1).e))), props=self.props)
        return out


def units():
    from pyvc.verify import Unit
    return [Unit(GroupInverse())]
