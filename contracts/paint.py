"""UserUpdateSegmentation.__init__ (the paint-driven seventh user action) at the level of abstract world states.

The world is one ghost value `world : St`.  Each sub-action the constructor creates (UserDeleteNode, UpdateNodeSeg,
UserAddNode) is used through its call-site contract, which is what the units of contracts/useractions.py and
contracts/segprims.py prove of the real constructors:
    - it either raises and leaves the world unchanged (C11 of the sub-action), or
    - returns a record a with src(a) = world before, dst(a) = world after (a fresh state), and
    - registers itself in the history / emits refresh iff its _top_level flag is true (C02 / C20 of the sub-action;
      UpdateNodeSeg is a primitive: never).
`a.inverse()` moves the world from dst(a) back to src(a) (C01's conclusion, as in contracts/history.py).

Proved of the real constructor, for updated_pixels of every length:
  C11  on every raise (no segmentation, a refused sub-action, the one-time-point assertion, a missing tracklet key):
       the world is the entry world, nothing was registered, nothing emitted
  C02  on return: exactly one history entry, and it is this action
  C20  on return: exactly one refresh; it carries new_value iff a node was created, else None
  C01  on return: self.actions is a chain  entry world = src(a0), dst(a_k) = src(a_k+1), dst(a_last) = world,
       which is what ActionGroup.inverse (contracts/groups.py) needs to lead back to the entry world
"""
from __future__ import annotations

import z3

from pyvc.spec import Contract, LoopSpec
from pyvc.terms import AND, IMP, Bool, Int, Key, Sym, forall, lit
from pyvc.tracksmodel import ActRef, SignalModel, St
from pyvc.values import BuiltinExc, Instance, ModelObj, PyRaise, SymList
from pyvc.verify import repo

from . import common as C
from .history import _act_attr, as_symlist, dst, src

UUS = "funtracks.user_actions.user_update_segmentation.UserUpdateSegmentation"
SUBS = {
    "UserDeleteNode": "funtracks.user_actions.user_delete_node.UserDeleteNode",
    "UserAddNode": "funtracks.user_actions.user_add_node.UserAddNode",
    "UpdateNodeSeg": "funtracks.actions.update_segmentation.UpdateNodeSeg",
}
k_ = z3.Int("k!p")


class Opaque(ModelObj):
    """a numpy value whose content is irrelevant here (pixel index arrays, masks, frames)"""

    type_names = ("ndarray", "tuple")

    def m_getitem(self, I, idx):
        return Opaque()

    def m_eq(self, I, other):
        return Opaque()

    def m_len(self, I):
        n = I.ctx.fresh("len", Int)
        I.ctx.assume(n >= 1)
        return Sym(n)


def _opaque(I, args, kw):
    return Opaque()


def _np_sum(I, args, kw):
    n = I.ctx.fresh("npsum", Int)
    I.ctx.assume(n >= 0)
    return Sym(n)


class GraphStub(ModelObj):
    def do_has_node(self, I, n):
        return Sym(I.ctx.fresh("has_node", Bool))


class SubAction(Contract):
    """call-site contract of a sub-action constructor (see module docstring)"""

    def __init__(self, name, tracks):
        self.name, self.tracks = name, tracks
        self.qualname = SUBS[name] + ".__init__"

    def apply(self, I, args, kw):
        ctx, g = I.ctx, I.ctx.ghost
        cls = repo().get_class(SUBS[self.name])
        node = cls.find("__init__")[1]
        env = I.bind_args(node, [Instance(cls)] + list(args), kw, lambda d: I.eval_in_module(d, cls.module))
        tag = f"call:{I.call_site_id(self.name)}"
        ctx.oblige(f"{tag}/requires:applied-to-these-tracks", z3.BoolVal(env.get("tracks") is self.tracks), kind="pre", props=("C11", "C01"))
        if ctx.branch(ctx.fresh(f"{self.name}_refuses", Bool), f"{self.name} refuses"):
            raise PyRaise(Instance(repo().get_class("funtracks.exceptions.InvalidActionError"), {"forceable": False}))
        a = ctx.fresh("act", ActRef)
        new = ctx.fresh("state", St)
        ctx.assume(AND(src(a) == g["world"], dst(a) == new))
        g["world"] = new
        g["log"].append((self.name,))
        if self.name == "UserAddNode":
            g["created"] = env.get("node")
        if self.name != "UpdateNodeSeg" and I.truthy(env["_top_level"], "sub-action registers itself (_top_level)"):
            g["hadd"] += 1
            g.setdefault("hadd_actions", []).append(Sym(a))
            g["emits"].append(())
        return Sym(a)


def chain(A, s0, world):
    """self.actions leads from the entry world to the current world"""
    m = A.n
    return [
        ("chain.first", IMP(m > 0, src(A.get(z3.IntVal(0)).e) == s0)),
        ("chain.links", forall([k_], IMP(AND(k_ >= 1, k_ < m), src(A.get(k_).e) == dst(A.get(k_ - 1).e)))),
        ("chain.world", world == z3.If(m == 0, s0, dst(A.get(m - 1).e))),
    ]


class ApplyLoop(LoopSpec):
    """for pixels, old_value in updated_pixels: the applied sub-actions form a chain from the entry world to the
    current world; nothing registered, nothing emitted, no node created yet"""

    props = ("C11", "C02", "C20", "C01")

    def __init__(self, s0):
        self.s0 = s0

    def enter(self, I, fr, it):
        inst = fr.env["self"]
        inst.fields["actions"] = as_symlist(I, inst.fields["actions"])

    def havoc(self, I, fr, it, i, assigned):
        super().havoc(I, fr, it, i, assigned)
        inst = fr.env["self"]
        inst.fields["actions"] = SymList.fresh(I.ctx, "actions", ActRef)
        I.ctx.ghost["world"] = I.ctx.fresh("world", St)
        nd = I.ctx.fresh("ndim", Int)
        I.ctx.assume(nd >= 1)
        fr.env["ndim"] = Sym(nd)
        fr.env["time"] = Opaque()

    def havoc_local(self, I, fr, name, v):
        fr.env.pop(name, None)

    def inv(self, I, fr, it, i):
        g = I.ctx.ghost
        A = fr.env["self"].fields["actions"]
        quiet = g["hadd"] == 0 and len(g["emits"]) == 0 and g.get("created") is None and g.get("inverse_calls", 0) == 0
        return chain(A, self.s0, g["world"]) + [("nothing-registered-emitted-or-created", z3.BoolVal(quiet))]


class RollbackLoop(LoopSpec):
    """for action in reversed(self.actions): after k inversions the world is the source of the k-th last sub-action"""

    props = ("C11",)

    def __init__(self, s0):
        self.s0 = s0

    def enter(self, I, fr, it):
        self.A = fr.env["self"].fields["actions"]
        self.w_at_raise = I.ctx.ghost["world"]
        self.calls0 = I.ctx.ghost.get("inverse_calls", 0)

    def havoc(self, I, fr, it, i, assigned):
        super().havoc(I, fr, it, i, assigned)
        I.ctx.ghost["world"] = I.ctx.fresh("world", St)
        I.ctx.ghost["inverse_calls"] = self.calls0

    def havoc_local(self, I, fr, name, v):
        fr.env.pop(name, None)

    def ghost_step(self, I, fr, it, i):
        # the ghost counter of inverse() calls is concrete: one call per iteration, normalised for the invariant
        g = I.ctx.ghost
        self.step_ok = g.get("inverse_calls", 0) == self.calls0 + 1
        g["inverse_calls"] = self.calls0

    def inv(self, I, fr, it, k):
        g = I.ctx.ghost
        A = self.A
        m = A.n
        same = fr.env["self"].fields["actions"] is A
        out = [
            ("world-is-the-source-of-the-last-inverted-sub-action", g["world"] == z3.If(k == 0, self.w_at_raise, src(A.get(m - k).e))),
            ("actions-list-not-modified", z3.BoolVal(same)),
            ("nothing-registered-or-emitted", z3.BoolVal(g["hadd"] == 0 and len(g["emits"]) == 0)),
        ]
        if hasattr(self, "step_ok"):
            out.append(("each-sub-action-inverted-once", z3.BoolVal(self.step_ok)))
            del self.step_ok
        return out


class UserUpdateSegmentation(Contract):
    qualname = UUS + ".__init__"
    props = ("C01", "C02", "C11", "C20")
    sym_attr = {"ActRef": _act_attr}
    ext = {"numpy.sum": _np_sum, "numpy.concatenate": _opaque, "numpy.unique": _opaque}

    def run(self, I, cfg):
        ctx, g = I.ctx, I.ctx.ghost
        R = repo()
        g.update({"hadd": 0, "emits": [], "log": [], "muts": 0, "created": None})
        s0 = ctx.fresh("world0", St)
        g["world"] = s0
        feats = Instance(R.get_class("funtracks.features._feature_dict.FeatureDict"),
                         {"time_key": lit("time"), "tracklet_key": None if cfg.get("no_tracklet_key") else lit("track_id")})
        ah = Instance(R.get_class("funtracks.actions.action_history.ActionHistory"), {})
        seg = None if cfg.get("no_seg") else Opaque()
        tracks = Instance(R.get_class("funtracks.data_model.solution_tracks.SolutionTracks"),
                          {"segmentation": seg, "graph": GraphStub(), "features": feats, "action_history": ah, "refresh": SignalModel()})
        for nm in SUBS:
            c = SubAction(nm, tracks)
            ctx.contracts[c.qualname] = c
        ctx.contracts[C.AddNewActionGhost.qualname] = C.AddNewActionGhost()
        ctx.loopspecs[(self.qualname, 0)] = ApplyLoop(s0)
        ctx.loopspecs[(self.qualname, 1)] = RollbackLoop(s0)
        new_value = ctx.fresh("new_value", Int)
        tid = ctx.fresh("current_track_id", Int)
        force = ctx.fresh("force", Bool)
        old = ctx.fresh_fun("old_value", Int, Int)
        n = ctx.fresh("n_groups", Int)
        ctx.assume(n >= 0)
        updated = SymList(n, lambda i: (Opaque(), Sym(old(i))))
        from .useractions import construct
        out = construct(I, UUS, [tracks, Sym(new_value), updated, Sym(tid)], {"force": Sym(force)})
        q = "UserUpdateSegmentation"
        if out[0] == "raise":
            ctx.oblige(f"C11/{q}/on-raise:world-is-the-entry-world", g["world"] == s0, props=("C11",), note=f"log={g['log']}")
            ctx.oblige(f"C11/{q}/on-raise:history-unchanged", z3.BoolVal(g["hadd"] == 0), props=("C11", "C02"))
            ctx.oblige(f"C20/{q}/on-raise:no-refresh", z3.BoolVal(len(g["emits"]) == 0), props=("C20", "C11"))
            return out
        inst = out[1]
        ok_h = g["hadd"] == 1 and g["hadd_actions"][0] is inst
        ctx.oblige(f"C02/{q}/ensures:one-history-entry-and-it-is-this-action", z3.BoolVal(ok_h), props=("C02",))
        em = g["emits"]
        ok_e = len(em) == 1 and len(em[0]) == 1
        ctx.oblige(f"C20/{q}/ensures:exactly-one-refresh", z3.BoolVal(ok_e), props=("C20",))
        if ok_e:
            arg, created = em[0][0], g.get("created")
            if created is None:
                ctx.oblige(f"C20/{q}/ensures:refresh-carries-None-when-no-node-is-created", z3.BoolVal(arg is None), props=("C20",))
            else:
                ctx.oblige(f"C20/{q}/ensures:refresh-carries-the-created-node", AND(I.eq_formula(arg, created), I.eq_formula(created, Sym(new_value))) if arg is not None else z3.BoolVal(False), props=("C20",))
        A = inst.fields.get("actions")
        ok_a = isinstance(A, SymList)
        ctx.oblige(f"C01/{q}/ensures:actions-is-a-list-of-the-applied-sub-actions", z3.BoolVal(ok_a), props=("C01",))
        if ok_a:
            for lbl, f in chain(A, s0, g["world"]):
                ctx.oblige(f"C01/{q}/ensures:{lbl}", f, props=("C01", "C02"))
        ctx.oblige(f"C01/{q}/ensures:no-sub-action-inverted-on-success", z3.BoolVal(g.get("inverse_calls", 0) == 0), props=("C01",))
        ctx.oblige(f"C01/{q}/ensures:tracks-field-set", z3.BoolVal(inst.fields.get("tracks") is tracks), props=("C01",))
        return out


def units():
    from pyvc.verify import Unit
    return [Unit(UserUpdateSegmentation(), {}), Unit(UserUpdateSegmentation(), {"no_seg": True}),
            Unit(UserUpdateSegmentation(), {"no_tracklet_key": True})]
