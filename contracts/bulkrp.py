"""C08 - the bulk path of the region measurements: RegionpropsAnnotator.compute / _regionprops_update /
GraphAnnotator._filter_feature_keys / GraphAnnotator.features.

Abstract state: node set N with times tm(n), node attributes A(n, k) (versioned), a label video Seg(t, p) (not written),
the annotator's table key -> (Feature, is_active) and its map key -> regionprops attribute name.
External: regionprops_extended(frame, spacing) yields one region per non-zero label of the frame, each once; a region's
attribute is the uninterpreted measurement RP(name, t, label, spacing) of pyvc/segmodel.py.

Preconditions (C07's invariant, restricted to what is used): a label that is a node's id sits in that node's frame; node times are
frame indices.

Ensures, for every number of frames / regions / requested keys:
  keys_to_compute = the requested keys that are active (all active keys when none are requested)
  A'(n, k) = stored(RP(name(k), tm(n), n, spacing))   for every node n that labels a pixel and every k in keys_to_compute
  every other attribute of every node is unchanged; a label without a node is skipped; the segmentation is not written
"""
from __future__ import annotations

import z3

from pyvc.core import Unsupported
from pyvc.segmodel import Frame, Mask, Region, rp_fun
from pyvc.spec import Contract, LoopSpec
from pyvc.terms import AND, IMP, OR, Bool, Int, Key, Pix, Sym, Val, VNone, forall, to_z3
from pyvc.values import Instance, ModelObj, SymDict, SymList
from pyvc.verify import call_real, repo

from . import common as C
from .registry import FeatTable
from .segspec import stored

RPA = "funtracks.annotators._regionprops_annotator.RegionpropsAnnotator"
GA = "funtracks.annotators._graph_annotator.GraphAnnotator"
a_, i_, j_, t_ = z3.Ints("a!q i!q j!q t!q")
k_ = z3.Const("k!q", Key)
p_ = z3.Const("p!q", Pix)
S = z3.Select
KeySet = z3.ArraySort(Key, Bool)


class World:
    def __init__(self, ctx):
        self.ctx = ctx
        self.N = ctx.fresh_fun("N", Int, Bool)
        self.tm = ctx.fresh_fun("time", Int, Int)
        self.A = ctx.fresh_fun("A", Int, Key, Val)
        self.Seg = ctx.fresh_fun("Seg", Int, Pix, Int)
        self.nfr = ctx.fresh("n_frames", Int)
        # regions of a frame: nreg(t), label lab(t, j), position labpos(t, n)
        self.nreg = ctx.fresh_fun("n_regions", Int, Int)
        self.lab = ctx.fresh_fun("region_label", Int, Int, Int)
        self.labpos = ctx.fresh_fun("region_pos", Int, Int, Int)
        self.labpix = ctx.fresh_fun("region_pixel", Int, Int, Pix)
        Seg, nreg, lab, labpos = self.Seg, self.nreg, self.lab, self.labpos
        ctx.assume(self.nfr >= 0)
        ctx.assume(forall([t_], nreg(t_) >= 0), "regions")
        ctx.assume(forall([t_, j_], IMP(AND(j_ >= 0, j_ < nreg(t_)), AND(lab(t_, j_) != 0, Seg(t_, self.labpix(t_, j_)) == lab(t_, j_), labpos(t_, lab(t_, j_)) == j_))), "regions")
        ctx.assume(forall([t_, p_], IMP(Seg(t_, p_) != 0, AND(labpos(t_, Seg(t_, p_)) >= 0, labpos(t_, Seg(t_, p_)) < nreg(t_), lab(t_, labpos(t_, Seg(t_, p_))) == Seg(t_, p_)))), "regions")
        self.seg_writes = 0


class SegArr(ModelObj):
    type_names = ("ndarray",)

    def __init__(self, W):
        self.W = W

    def attr_shape(self, I):
        return (Sym(self.W.nfr),)

    def m_getitem(self, I, t):
        return Frame(None, to_z3(t, Int), self.W.Seg)

    def m_setitem(self, I, idx, v):
        self.W.seg_writes += 1


class NodeAttrView(ModelObj):
    def __init__(self, W, n):
        self.W, self.n = W, n

    def m_setitem(self, I, k, v):
        W = self.W
        ke, ve = to_z3(k, Key), to_z3(v, Val)
        old, n = W.A, self.n
        W.A = W.ctx.fresh_fun("A", Int, Key, Val)
        W.ctx.assume(forall([a_, k_], W.A(a_, k_) == z3.If(AND(a_ == n, k_ == ke), ve, old(a_, k_))))


class NodesView(ModelObj):
    def __init__(self, W):
        self.W = W

    def m_getitem(self, I, n):
        return NodeAttrView(self.W, to_z3(n, Int))


class Graph(ModelObj):
    type_names = ("DiGraph",)

    def __init__(self, W):
        self.W = W

    def m_contains(self, I, n):
        return Sym(self.W.N(to_z3(n, Int)))

    def attr_nodes(self, I):
        return NodesView(self.W)


class Scale(ModelObj):
    type_names = ("list",)

    def __init__(self, sp):
        self.sp = sp

    def m_getitem(self, I, idx):
        if isinstance(idx, slice) and idx.start == 1 and idx.stop is None:
            return Sym(self.sp)  # tuple(scale[1:]) is the opaque spacing value
        raise Unsupported("scale index")


def regionprops_whole_frame(I, args, kw):
    fr = args[0]
    W = I.ctx.ghost["bulkrp_world"]
    if not isinstance(fr, Frame) or not fr.SegV.eq(W.Seg):
        raise Unsupported("regionprops_extended argument")
    spacing = kw.get("spacing", args[1] if len(args) > 1 else None)
    sp = to_z3(spacing, Val) if spacing is not None else VNone
    t = fr.t
    out = SymList(W.nreg(t), lambda j: Region(Mask(fr, W.lab(t, j)), sp))
    out.frame_t = t
    return out


class RegionpropsWholeFrameAssumed(Contract):
    """assumed contract of regionprops_extended (skimage wrapper) on a whole frame: one region per non-zero label, each once"""

    qualname = "funtracks.annotators._regionprops_extended.regionprops_extended"

    def apply(self, I, args, kw):
        return regionprops_whole_frame(I, args, kw)


def region_getattr(I, args, kw):
    region, name = args[0], args[1]
    if not isinstance(region, Region):
        raise Unsupported("getattr target")
    m = region.mask
    _, rp, _, _ = rp_fun(I.ctx, m.frame.SegV)
    return Sym(rp(to_z3(name, Key), m.frame.t, m.lab, region.spacing))


def rpv(W, n, k):
    _, rp, _, _ = rp_fun(W.ctx, W.Seg)
    return stored(rp(S(W.names, k), W.tm(n), n, W.spacing))


def attr_clause(W, done):
    """A = A0 rewritten with the measurement where done(n, k)"""
    return forall([a_, k_], W.A(a_, k_) == z3.If(AND(W.N(a_), done(a_, k_)), rpv(W, a_, k_), W.A0(a_, k_)))


def has_region(W, n):
    """node n labels a pixel of its frame (its label is one of the frame's regions)"""
    t = W.tm(n)
    return AND(W.labpos(t, n) >= 0, W.labpos(t, n) < W.nreg(t), W.lab(t, W.labpos(t, n)) == n)


class FramesLoop(LoopSpec):
    """compute: for t in range(seg.shape[0])"""

    props = ("C08", "C10")

    def __init__(self, W):
        self.W = W

    def enter(self, I, fr, it):
        W = self.W
        keys = fr.env["keys_to_compute"]
        # ghost: the set of keys to compute (as a membership array of the list)
        W.KS = I.ctx.fresh("keys_set", KeySet)
        kpos = I.ctx.fresh_fun("keys_pos", Key, Int)
        I.ctx.assume(forall([j_], IMP(AND(j_ >= 0, j_ < keys.n), S(W.KS, to_z3(keys.get(j_), Key)))), "ghost.keys")
        I.ctx.assume(forall([k_], IMP(S(W.KS, k_), AND(kpos(k_) >= 0, kpos(k_) < keys.n, to_z3(keys.get(kpos(k_)), Key) == k_))), "ghost.keys")
        W.keys_list = keys

    def havoc(self, I, fr, it, i, assigned):
        fr.env.pop("t", None)
        self.W.A = I.ctx.fresh_fun("A", Int, Key, Val)

    def inv(self, I, fr, it, t):
        W = self.W
        return [("frames-before-t-measured", attr_clause(W, lambda n, k: AND(S(W.KS, k), W.tm(n) < t, has_region(W, n)))),
                ("segmentation-not-written", z3.BoolVal(W.seg_writes == 0))]


class RegionsLoop(LoopSpec):
    """_regionprops_update: for region in regionprops_extended(seg_frame, spacing)"""

    props = ("C08", "C10")

    def __init__(self, W):
        self.W = W

    def enter(self, I, fr, it):
        self.t = it.frame_t

    def havoc(self, I, fr, it, i, assigned):
        for nm in ("region", "node", "key", "value"):
            fr.env.pop(nm, None)
        self.W.A = I.ctx.fresh_fun("A", Int, Key, Val)

    def inv(self, I, fr, it, r):
        W, t = self.W, self.t
        return [("regions-before-r-measured", attr_clause(W, lambda n, k: AND(S(W.KS, k), has_region(W, n), OR(W.tm(n) < t, AND(W.tm(n) == t, W.labpos(t, n) < r))))),
                ("segmentation-not-written", z3.BoolVal(W.seg_writes == 0))]


class KeysLoop(LoopSpec):
    """for key in feature_keys  (Done = keys already written for this node)"""

    props = ("C08", "C10")

    def __init__(self, W, regions):
        self.W, self.regions = W, regions

    def enter(self, I, fr, it):
        self.t = self.regions.t
        self.node = to_z3(fr.env["node"], Int)
        self.Done = z3.K(Key, z3.BoolVal(False))
        self.r = self.W.labpos(self.t, self.node)

    def havoc(self, I, fr, it, i, assigned):
        for nm in ("key", "value"):
            fr.env.pop(nm, None)
        self.W.A = I.ctx.fresh_fun("A", Int, Key, Val)
        self.Done = I.ctx.fresh("Done", KeySet)

    def ghost_step(self, I, fr, it, i):
        self.Done = z3.Store(self.Done, to_z3(it.get(i), Key), z3.BoolVal(True))

    def inv(self, I, fr, it, q):
        W, t, node, Done = self.W, self.t, self.node, self.Done
        seen = AND(forall([j_], IMP(AND(j_ >= 0, j_ < q), S(Done, to_z3(it.get(j_), Key)))),
                   forall([k_], IMP(S(Done, k_), z3.Exists([j_], AND(j_ >= 0, j_ < q, to_z3(it.get(j_), Key) == k_)))))
        return [("ghost.seen-keys", seen),
                ("keys-before-q-written-for-this-node",
                 attr_clause(W, lambda n, k: AND(S(W.KS, k), has_region(W, n), OR(W.tm(n) < t, AND(W.tm(n) == t, W.labpos(t, n) < self.r), AND(n == node, S(Done, k)))))),
                ("segmentation-not-written", z3.BoolVal(W.seg_writes == 0))]


class BulkRegionprops(Contract):
    qualname = f"{RPA}.compute"
    props = ("C08", "C10")

    def run(self, I, cfg):
        ctx = I.ctx
        I.ext.update(C.EXT)
        W = World(ctx)
        ctx.ghost["bulkrp_world"] = W
        R = repo()
        W.A0 = W.A
        has_scale = bool(cfg.get("scale"))
        sp = ctx.fresh("spacing", Val)
        W.spacing = sp if has_scale else VNone
        table = FeatTable.fresh(ctx, "rp")
        names = SymDict.fresh(ctx, "regionprops_names", Key, Key)
        W.names = names.val
        ctx.assume(forall([k_], IMP(S(table.dom, k_), S(names.dom, k_))), "pre.every-feature-has-a-regionprops-name")
        tracks = Instance(R.get_class("funtracks.data_model.tracks.Tracks"),
                          {"graph": Graph(W), "segmentation": SegArr(W), "scale": Scale(sp) if has_scale else None})
        ann = Instance(R.get_class(RPA), {"tracks": tracks, "all_features": table, "regionprops_names": names})
        # C07's invariant, as far as it is needed: a node's label sits in the node's frame; times are frame indices
        ctx.assume(forall([t_, p_], IMP(AND(W.Seg(t_, p_) != 0, W.N(W.Seg(t_, p_))), W.tm(W.Seg(t_, p_)) == t_)), "pre.S2")
        ctx.assume(forall([a_], IMP(W.N(a_), AND(W.tm(a_) >= 0, W.tm(a_) < W.nfr))), "pre.times-are-frame-indices")
        if cfg.get("keys") == "none":
            req = None
        else:
            req = SymList.fresh(ctx, "feature_keys", Key)
        ctx.contracts[RegionpropsWholeFrameAssumed.qualname] = RegionpropsWholeFrameAssumed()
        old_getattr = I.ext.get("builtins.getattr")

        def _getattr(I_, args, kw):
            if isinstance(args[0], Region):
                return region_getattr(I_, args, kw)
            return old_getattr(I_, args, kw)
        I.ext["builtins.getattr"] = _getattr
        regions = RegionsLoop(W)
        ctx.loopspecs[(self.qualname, 0)] = FramesLoop(W)
        ctx.loopspecs[(f"{RPA}._regionprops_update", 0)] = regions
        ctx.loopspecs[(f"{RPA}._regionprops_update", 1)] = KeysLoop(W, regions)
        out = call_real(I, self.qualname, [ann] + ([req] if req is not None else []), {})
        q = "RegionpropsAnnotator.compute"
        if out[0] != "return":
            ctx.oblige(f"C08/{q}/no-exception", False, props=self.props, note=str(out[1]))
            return out
        # which keys are to be computed: requested and active (all active ones when nothing is requested)
        active = lambda k: AND(S(table.dom, k), S(table.act, k))
        if req is None:
            wanted = active
        else:
            wanted = lambda k: AND(active(k), z3.Exists([j_], AND(j_ >= 0, j_ < req.n, to_z3(req.get(j_), Key) == k)))
        ctx.oblige(f"C08/{q}/ensures:every-labelled-node-carries-the-measurement-of-its-own-mask-for-every-requested-active-key-everything-else-unchanged",
                   forall([a_, k_], W.A(a_, k_) == z3.If(AND(W.N(a_), wanted(k_), has_region(W, a_)), rpv(W, a_, k_), W.A0(a_, k_))), props=self.props)
        ctx.oblige(f"C08/{q}/ensures:segmentation-not-written", z3.BoolVal(W.seg_writes == 0), props=self.props)
        ctx.oblige(f"C08/{q}/ensures:table-not-changed", z3.BoolVal(ann.fields["all_features"] is table and all(x is y for x, y in zip(table.snapshot(), self._t0))) if hasattr(self, "_t0") else z3.BoolVal(ann.fields["all_features"] is table), props=self.props)
        return out


def units():
    from pyvc.verify import Unit
    return [Unit(BulkRegionprops(), {"keys": "list"}), Unit(BulkRegionprops(), {"keys": "none"}), Unit(BulkRegionprops(), {"keys": "list", "scale": True})]
