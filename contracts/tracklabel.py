"""C19 - funtracks.utils._segmentation_utils.relabel_segmentation_with_track_id (three loop invariants).

Abstract state: solution graph (N, E, od = out-degree, time tm(n), seg id sid(n)), label video src(t, p).
Documented preconditions: node times are frame indices; a (time, seg id) pair names at most one node.

Assumed (external) semantics:
  graph.out_degree()                    every node once, with its out-degree
  graph.copy() / remove_edges_from(graph.out_edges(n))   a copy with the same nodes; removes exactly n's out-edges from the copy
  nx.weakly_connected_components(G)     a partition comp of G's nodes into non-empty classes, each yielded once
                                        (comp = the weakly connected components of G's edge relation)

Ensures (every graph, every array size):
  F1  the graph handed to weakly_connected_components is the solution minus the out-edges of dividing nodes
      - its components are the unbranched track segments, by definition
  F2  every pixel of a node's (time, seg id) carries 1 + the index of the node's segment: same segment same label,
      different segments different labels, never 0
  F3  every pixel that is no node's (time, seg id) is background (detections outside the solution are removed)
  F4  the input array and the solution graph are not modified
"""
from __future__ import annotations

import z3

from pyvc import arraymodel as A
from pyvc.core import Unsupported
from pyvc.spec import Contract, LoopSpec
from pyvc.terms import AND, IMP, OR, Bool, Int, Pix, Sym, forall, to_z3
from pyvc.values import ModelObj, SymList
from pyvc.verify import call_real

RT = "funtracks.utils._segmentation_utils.relabel_segmentation_with_track_id"
a_, b_, i_, j_, t_ = z3.Ints("a!t b!t i!t j!t t!t")
p_ = A.p_


class World:
    def __init__(self, ctx):
        self.ctx = ctx
        self.N = ctx.fresh_fun("N", Int, Bool)
        self.E = ctx.fresh_fun("E", Int, Int, Bool)
        self.od = ctx.fresh_fun("out_degree", Int, Int)
        self.tm = ctx.fresh_fun("time", Int, Int)
        self.sid = ctx.fresh_fun("seg_id", Int, Int)
        # enumeration of the nodes (out_degree())
        self.nn = ctx.fresh("n_nodes", Int)
        self.at = ctx.fresh_fun("node_at", Int, Int)
        self.pos = ctx.fresh_fun("node_pos", Int, Int)
        ctx.assume(self.nn >= 0)
        ctx.assume(forall([i_], IMP(AND(i_ >= 0, i_ < self.nn), AND(self.N(self.at(i_)), self.pos(self.at(i_)) == i_))))
        ctx.assume(forall([a_], IMP(self.N(a_), AND(self.pos(a_) >= 0, self.pos(a_) < self.nn, self.at(self.pos(a_)) == a_))))
        self.wcc_calls = []
        self.E_now = self.E  # the solution graph's current edge relation (it must stay E)
        self.graph_writes = 0

    def R(self, a, b):
        """the solution without the out-edges of dividing nodes"""
        return AND(self.E(a, b), self.od(a) <= 1)


class NodeAttrs(ModelObj):
    def __init__(self, W, n):
        self.W, self.n = W, n

    def m_getitem(self, I, k):
        if k == "time":
            return Sym(self.W.tm(self.n))
        if k == "seg_id":
            return Sym(self.W.sid(self.n))
        raise Unsupported(f"node attribute {k!r}")


class NodesView(ModelObj):
    def __init__(self, W):
        self.W = W

    def m_getitem(self, I, n):
        return NodeAttrs(self.W, to_z3(n, Int))


class OutEdges(ModelObj):
    def __init__(self, n):
        self.n = n


class SolGraph(ModelObj):
    """the solution graph: read-only here (any mutator is unsupported, so F4 holds by construction of the model)"""

    type_names = ("DiGraph",)

    def __init__(self, W):
        self.W = W

    def do_out_degree(self, I):
        W = self.W
        return SymList(W.nn, lambda i: (Sym(W.at(i)), Sym(W.od(W.at(i)))))

    def do_copy(self, I):
        return CopyGraph(self.W)

    def do_out_edges(self, I, n):
        return OutEdges(to_z3(n, Int))

    def attr_nodes(self, I):
        return NodesView(self.W)

    def do_remove_edges_from(self, I, edges):
        # a write to the caller's graph: modelled so that F4 fails instead of the run ending undecided
        if not isinstance(edges, OutEdges):
            raise Unsupported("remove_edges_from argument")
        W = self.W
        old, n = W.E_now, edges.n
        new = W.ctx.fresh_fun("E", Int, Int, Bool)
        W.ctx.assume(forall([a_, b_], new(a_, b_) == AND(old(a_, b_), a_ != n)))
        W.E_now = new
        W.graph_writes += 1


class CopyGraph(ModelObj):
    type_names = ("DiGraph",)

    def __init__(self, W):
        self.W = W
        self.E = W.E_now  # same nodes, same edges

    def do_remove_edges_from(self, I, edges):
        if not isinstance(edges, OutEdges):
            raise Unsupported("remove_edges_from argument")
        old, n = self.E, edges.n
        new = self.W.ctx.fresh_fun("Ec", Int, Int, Bool)
        self.W.ctx.assume(forall([a_, b_], new(a_, b_) == AND(old(a_, b_), a_ != n)))
        self.E = new


class CompSet(ModelObj):
    type_names = ("set",)

    def __init__(self, C, j):
        self.C, self.j = C, j

    def m_iter(self, I):
        C, j = self.C, self.j
        out = SymList(C.cn(j), lambda i: Sym(C.cel(j, i)), elem_sort=Int)
        out.comp_index, out.C = j, C
        return out


class Components:
    def __init__(self, ctx, W, E_at_call):
        self.m = ctx.fresh("n_components", Int)
        self.comp = ctx.fresh_fun("comp", Int, Int)
        self.cn = ctx.fresh_fun("comp_size", Int, Int)
        self.cel = ctx.fresh_fun("comp_el", Int, Int, Int)
        self.cpos = ctx.fresh_fun("comp_pos", Int, Int)
        m, comp, cn, cel, cpos = self.m, self.comp, self.cn, self.cel, self.cpos
        ctx.assume(m >= 0)
        ctx.assume(forall([j_], IMP(AND(j_ >= 0, j_ < m), cn(j_) > 0)), "wcc")
        ctx.assume(forall([j_, i_], IMP(AND(j_ >= 0, j_ < m, i_ >= 0, i_ < cn(j_)), AND(W.N(cel(j_, i_)), comp(cel(j_, i_)) == j_, cpos(cel(j_, i_)) == i_))), "wcc")
        ctx.assume(forall([a_], IMP(W.N(a_), AND(comp(a_) >= 0, comp(a_) < m, cpos(a_) >= 0, cpos(a_) < cn(comp(a_)), cel(comp(a_), cpos(a_)) == a_))), "wcc")
        ctx.assume(forall([a_, b_], IMP(E_at_call(a_, b_), comp(a_) == comp(b_))), "wcc")


def wcc_ext(I, args, kw):
    g = args[0]
    if not isinstance(g, (CopyGraph, SolGraph)):
        raise Unsupported("weakly_connected_components argument")
    W = g.W
    Ecall = g.E if isinstance(g, CopyGraph) else W.E_now
    C = Components(I.ctx, W, Ecall)
    W.wcc_calls.append((Ecall, C))
    out = SymList(C.m, lambda j: CompSet(C, j))
    out.C = C
    return out


def matched(W, n, p):
    return W.src(W.tm(n), p) == W.sid(n)


class ParentsLoop(LoopSpec):
    """for parent_node in parent_nodes  (k dividing nodes processed): the copy lost exactly their out-edges"""

    props = ("C19",)

    def __init__(self, W):
        self.W = W

    def enter(self, I, fr, it):
        self.P = it

    def havoc(self, I, fr, it, i, assigned):
        for nm in ("parent_node", "out_edges"):
            fr.env.pop(nm, None)
        fr.env["soln_copy"].E = I.ctx.fresh_fun("Ec", Int, Int, Bool)

    def inv(self, I, fr, it, k):
        W = self.W
        Ec = fr.env["soln_copy"].E
        rank = it.rank
        return [("copy-lost-exactly-the-out-edges-of-the-first-k-dividing-nodes",
                 forall([a_, b_], Ec(a_, b_) == AND(W.E(a_, b_), z3.Not(AND(W.N(a_), W.od(a_) > 1, rank(W.pos(a_)) < k))))),
                ("edges-start-at-nodes", forall([a_, b_], IMP(W.E(a_, b_), W.N(a_))))]


def pixel_clauses(W, out, done):
    """done(n): node n has been painted"""
    return [
        ("painted-nodes-carry-1+their-segment-index", forall([a_, p_], IMP(AND(W.N(a_), done(a_), matched(W, a_, p_)), out(W.tm(a_), p_) == W.C.comp(a_) + 1))),
        ("all-other-pixels-are-background", forall([t_, p_], IMP(forall([a_], IMP(AND(W.N(a_), done(a_)), z3.Not(AND(W.tm(a_) == t_, W.sid(a_) == W.src(t_, p_))))), out(t_, p_) == 0))),
        ("input-array-not-written", z3.BoolVal(W.src_arr.L is W.src)),
    ]


def havoc_out(I, fr):
    fr.env["tracked_masks"].L = I.ctx.fresh_fun("L", Int, Pix, Int)


class ComponentsLoop(LoopSpec):
    """for node_set in components  (j segments painted, id_counter = j + 1)"""

    props = ("C19",)

    def __init__(self, W):
        self.W = W

    def enter(self, I, fr, it):
        self.W.C = it.C

    def havoc(self, I, fr, it, i, assigned):
        for nm in ("node_set", "node", "time_frame", "previous_seg_id", "previous_seg_mask"):
            fr.env.pop(nm, None)
        fr.env["id_counter"] = Sym(I.ctx.fresh("id_counter", Int))
        havoc_out(I, fr)

    def inv(self, I, fr, it, j):
        W = self.W
        out = fr.env["tracked_masks"].L
        idc = to_z3(fr.env["id_counter"], Int)
        return [("id_counter-is-1+number-of-painted-segments", idc == j + 1)] + pixel_clauses(W, out, lambda n: W.C.comp(n) < j)


class NodesLoop(LoopSpec):
    """for node in node_set  (i nodes of segment j painted)"""

    props = ("C19",)

    def __init__(self, W):
        self.W = W

    def enter(self, I, fr, it):
        self.j = it.comp_index
        self.idc = to_z3(fr.env["id_counter"], Int)

    def havoc(self, I, fr, it, i, assigned):
        for nm in ("node", "time_frame", "previous_seg_id", "previous_seg_mask"):
            fr.env.pop(nm, None)
        havoc_out(I, fr)

    def inv(self, I, fr, it, i):
        W, j = self.W, self.j
        out = fr.env["tracked_masks"].L
        C = W.C
        same = z3.BoolVal(True) if to_z3(fr.env["id_counter"], Int).eq(self.idc) else (to_z3(fr.env["id_counter"], Int) == self.idc)
        return [("id_counter-unchanged-inside-a-segment", same)] + pixel_clauses(W, out, lambda n: OR(C.comp(n) < j, AND(C.comp(n) == j, C.cpos(n) < i)))


class RelabelByTrack(Contract):
    qualname = RT
    props = ("C19",)

    @property
    def ext(self):
        e = dict(A.EXT)
        e["networkx.weakly_connected_components"] = wcc_ext
        return e

    def run(self, I, cfg):
        ctx = I.ctx
        W = World(ctx)
        src_arr = A.LabelArr(ctx, name="src")
        W.src_arr, W.src = src_arr, src_arr.L
        nfr = src_arr.n
        ctx.assume(nfr >= 0)
        ctx.assume(forall([a_], IMP(W.N(a_), AND(W.tm(a_) >= 0, W.tm(a_) < nfr))), "pre.times-are-frame-indices")
        ctx.assume(forall([a_, b_], IMP(AND(W.N(a_), W.N(b_), a_ != b_), z3.Not(AND(W.tm(a_) == W.tm(b_), W.sid(a_) == W.sid(b_))))), "pre.time-segid-unique")
        ctx.assume(forall([a_, b_], IMP(W.E(a_, b_), AND(W.N(a_), W.N(b_)))), "pre.edges-join-nodes")
        g = SolGraph(W)
        ctx.loopspecs[(RT, 0)] = ParentsLoop(W)
        ctx.loopspecs[(RT, 1)] = ComponentsLoop(W)
        ctx.loopspecs[(RT, 2)] = NodesLoop(W)
        out = call_real(I, RT, [g, src_arr], {})
        q = "relabel_segmentation_with_track_id"
        if out[0] != "return":
            ctx.oblige(f"C19/{q}/no-exception", False, props=self.props, note=str(out[1]))
            return out
        res = out[1]
        ok = isinstance(res, A.LabelArr) and res is not src_arr and len(W.wcc_calls) == 1
        ctx.oblige(f"C19/{q}/ensures:returns-a-new-array-after-one-components-call", z3.BoolVal(ok), props=self.props)
        if not ok:
            return out
        Ecall, C = W.wcc_calls[0]
        W.C = C
        ctx.oblige(f"C19/{q}/ensures:F1.components-are-taken-of-the-solution-minus-out-edges-of-dividing-nodes",
                   forall([a_, b_], Ecall(a_, b_) == W.R(a_, b_)), props=self.props)
        L = res.L
        for lbl, f in pixel_clauses(W, L, lambda n: z3.BoolVal(True)):
            ctx.oblige(f"C19/{q}/ensures:F2F3.{lbl}", f, props=self.props)
        ctx.oblige(f"C19/{q}/ensures:F2.labels-are-positive-equal-within-a-segment-and-differ-across-segments",
                   forall([a_, b_, p_, A.q_], IMP(AND(W.N(a_), W.N(b_), matched(W, a_, p_), matched(W, b_, A.q_)),
                                                  AND(L(W.tm(a_), p_) > 0, (L(W.tm(a_), p_) == L(W.tm(b_), A.q_)) == (C.comp(a_) == C.comp(b_))))), props=self.props)
        ctx.oblige(f"C19/{q}/ensures:F4.solution-graph-not-modified", z3.BoolVal(W.graph_writes == 0 and W.E_now is W.E), props=self.props)
        ctx.oblige(f"C19/{q}/ensures:same-shape", AND(res.n == nfr, res.lead == src_arr.lead), props=self.props)
        return out


def units():
    from pyvc.verify import Unit
    return [Unit(RelabelByTrack(), {})]
