"""Loop invariants and contracts of the primitive (Basic) actions in funtracks.actions.*"""
from __future__ import annotations

import z3

from pyvc.core import Unsupported
from pyvc.spec import LoopSpec
from pyvc.terms import AND, IMP, OR, Int, Key, Sym, Val, forall, to_z3
from pyvc.tracksmodel import k_
from pyvc.values import ModelObj, SymDict

from . import common as C

ACT = "funtracks.actions"


class FinSet(ModelObj):
    """set(...) of finitely many (possibly symbolic) keys"""

    type_names = ("set",)

    def __init__(self, items):
        self.items = list(items)

    def do_add(self, I, x):
        self.items.append(x)

    def m_contains(self, I, x):
        return Sym(z3.simplify(OR(*[I.eq_formula(x, y) for y in self.items])))

    def m_iter(self, I):
        raise Unsupported("iteration over a set")

    def formula(self, I, x):
        return OR(*[I.eq_formula(x, y) for y in self.items])


def _ext_set(I, args, kw):
    if not args:
        return FinSet([])
    it = I.iterate(args[0])
    if isinstance(it, list):
        return FinSet(it)
    raise Unsupported("set() of a symbolic sequence")


class ProtectedLoop(LoopSpec):
    """UpdateNodeAttrs.__init__: `for attr in attrs: if attr in protected_attrs: raise ValueError`
    invariant(i): none of the first i keys is protected."""

    props = ("C10", "C11")

    def inv(self, I, fr, it, i):
        src = it.src_dict
        n, ks, pos = src.enum(I.ctx)
        prot = fr.env["protected_attrs"]
        j = z3.Int("j!p")
        return [("no-protected-key-so-far", forall([j], IMP(AND(j >= 0, j < i), z3.Not(prot.formula(I, Sym(ks(j)))))))]


def install_loopspecs(I, W):
    I.ext["model.set"] = _ext_set
    ls = I.ctx.loopspecs
    ls[(f"{ACT}.add_delete_edge.DeleteEdge.__init__", 0)] = C.CaptureLoop(
        lambda I_, fr: (lambda k, fr=fr: _edge_attr(I_, fr, k)))
    ls[(f"{ACT}.add_delete_node.DeleteNode.__init__", 0)] = C.CaptureLoop(
        lambda I_, fr: (lambda k, fr=fr: I_.ctx.state.v.A(to_z3(fr.env["node"], Int), k)),
        guard=lambda I_, fr: I_.ctx.state.v.N(to_z3(fr.env["node"], Int)))
    ls[(f"{ACT}.add_delete_node.AddNode._apply", 0)] = C.ApplyAttrsLoop(
        lambda I_, fr: fr.env["attrs"], lambda I_, fr: fr.env["self"].fields["node"])
    ls[(f"{ACT}.update_node_attrs.UpdateNodeAttrs._apply", 0)] = C.ApplyAttrsLoop(
        lambda I_, fr: fr.env["self"].fields["new_attrs"], lambda I_, fr: fr.env["self"].fields["node"])
    ls[(f"{ACT}.update_node_attrs.UpdateNodeAttrs.__init__", 0)] = ProtectedLoop()


def _edge_attr(I, fr, k):
    u, w = I.unpack(fr.env["edge"], 2)
    return I.ctx.state.v.Ae(to_z3(u, Int), to_z3(w, Int), k)


# =============================================================================== primitive action contracts
from pyvc import theory as T  # noqa: E402
from pyvc.spec import Contract  # noqa: E402
from pyvc.terms import Bool, VInt, VNone, is_VInt, is_VNone, iv  # noqa: E402
from pyvc.tracksfactory import ftype  # noqa: E402
from pyvc.tracksmodel import a_, b_  # noqa: E402
from pyvc.values import AssocDict, BuiltinExc, Instance, PyRaise, exc_names  # noqa: E402
from pyvc.verify import repo  # noqa: E402
from pyvc.terms import lit  # noqa: E402

i_, n_ = z3.Ints("i!p n!p")


def feat_dict_view(W, kind):
    """(has(k), _) of tracks.features.<kind>_features at entry"""
    F = W.F
    return lambda k: AND(F.has(k), ftype(F.at(k)) == lit(kind))


class Prim(Contract):
    """Contract of one primitive action constructor.  `ensures` is a list of formulas over the
    pre/post snapshots; the call-site form havocs `modifies` and assumes exactly these formulas,
    the verification form proves them of the real body."""

    cls_qual = ""
    modifies: tuple = ()
    params: tuple = ()
    props = ("C01", "C03", "C06", "C07", "C08", "C09", "C11")
    raise_props = ("C11",)

    def __init__(self, W=None):
        self.W = W
        self.qualname = self.cls_qual + ".__init__"

    # -- to be provided
    def requires(self, W, s0, env):
        return []

    def raise_cases(self, W, s0, env):
        return []

    def ensures(self, W, s0, s1, env):
        return []

    def fields(self, I, W, s0, env):
        return {}

    def check_fields(self, I, W, s0, env, inst):
        return []

    # -- call-site form
    def apply(self, I, args, kw):
        W, ctx = self.W, I.ctx
        self.ctx = ctx
        cls = repo().get_class(self.cls_qual)
        node = cls.find("__init__")[1]
        inst = Instance(cls)
        env = I.bind_args(node, [inst] + list(args), kw, lambda d: I.eval_in_module(d, cls.module))
        s0 = C.Snap(W, I)
        tag = f"call:{I.call_site_id(cls.name)}"
        for lbl, f, props in self.requires(W, s0, env):
            ctx.oblige(f"{tag}/requires:{lbl}", f, kind="pre", props=props)
        if getattr(W, "check_invertible_here", False):
            for lbl, f, props in self.invertible_here(I, W, s0, env):
                ctx.oblige(f"{tag}/invertible-here:{lbl}", f, kind="pre", props=props)
        for exc, guard in self.raise_cases(W, s0, env):
            if ctx.branch(guard, f"{cls.name} raises {exc}"):
                raise PyRaise(BuiltinExc(exc, ()))
        C.havoc_components(I, W, self.modifies)
        s1 = C.Snap(W, I)
        for lbl, f, props in self.ensures(W, s0, s1, env):
            ctx.assume(f)
        inst.fields.update(self.fields(I, W, s0, env))
        inst.fields["tracks"] = W.tracks
        if "E" in self.modifies and getattr(W, "step_lemmas", False):
            # step lemmas: the degree bounds of the intermediate graph, proved once here so that later
            # obligations need not chase the chain of pointwise degree updates
            v1 = s1.v
            ctx.lemma(f"{tag}/lemma:in<=1-after", forall([a_], v1.idg(a_) <= 1), props=("C03",), tag="lemma.in1")
            ctx.lemma(f"{tag}/lemma:out<=2-after", forall([a_], v1.od(a_) <= 2), props=("C03",), tag="lemma.out2")
        ctx.ghost["log"].append((cls.name,))
        ctx.ghost.setdefault("applied", []).append(inst)
        return inst

    # -- verification form
    def symbolic_args(self, I, W):
        raise NotImplementedError

    def run(self, I, cfg):
        ctx = I.ctx
        self.ctx = ctx
        W = C.world(I, has_seg=cfg.get("seg", False), inv=cfg.get("inv", ("b1", "b2")))
        self.W = W
        if W.seg is not None:
            from . import segprims
            segprims.install_seg(I, W)
            segprims.assume_seg_invariants(I, W, which=cfg.get("seg_inv", ("S",)))
        install_loopspecs(I, W)
        c = ctx.contracts
        c[C.WalkAssumed.qualname] = C.WalkAssumed(W)
        cls = repo().get_class(self.cls_qual)
        node = cls.find("__init__")[1]
        args, kw = self.symbolic_args(I, W)
        env = I.bind_args(node, [None] + args, kw, lambda d: I.eval_in_module(d, cls.module))
        s0 = C.Snap(W, I)
        for lbl, f, props in self.requires(W, s0, env):
            ctx.assume(f)
        I.under_verification = self.qualname
        try:
            inst = I.instantiate(cls, args, kw)
            out = ("return", inst)
        except PyRaise as pr:
            out = ("raise", pr.exc)
        q = cls.name
        cases = self.raise_cases(W, s0, env)
        if out[0] == "raise":
            nm = exc_names(out[1])
            allowed = OR(*[g for e, g in cases if e in nm])
            ctx.oblige(f"{q}/raises:only-when-specified({nm[0]})", allowed, props=self.raise_props, kind="raise")
            ctx.oblige(f"{q}/on-raise:no-mutation", z3.BoolVal(ctx.ghost["muts"] == s0.muts), props=self.raise_props, kind="raise",
                       note=f"log={[x[0] for x in ctx.ghost['log']]}")
            return out
        for e, gd in cases:
            ctx.oblige(f"{q}/raises:{e}-whenever-specified", z3.Not(gd), props=self.raise_props, kind="raise")
        s1 = C.Snap(W, I)
        for lbl, f, props in self.ensures(W, s0, s1, env):
            ctx.oblige(f"{q}/ensures:{lbl}", f, props=props)
        for lbl, f, props in self.check_fields(I, W, s0, env, inst):
            ctx.oblige(f"{q}/ensures:{lbl}", f, props=props)
        if W.seg is not None and cfg.get("seg_inv"):
            # C07 / C08 / C09: the segmentation invariants hold again after the primitive
            from . import segspec
            v1 = s1.v
            which = cfg.get("seg_inv")
            goals = []
            if "S" in which:
                goals += segspec.S_goals(W, v1)
            if "R" in which:
                goals += segspec.R_clauses(ctx, W, v1)
            if "Q" in which:
                goals += segspec.Q_clause(ctx, W, v1)
            for lbl, f, props in goals:
                ctx.oblige(f"{props[0]}/{q}/preserves:{lbl}", f, props=props, drop=("cache.", "inv.C06", "inv.C10"))
        return out


def _edge(I, env):
    u, w = I_unpack(env["edge"])
    return to_z3(u, Int), to_z3(w, Int)


def I_unpack(e):
    if isinstance(e, (tuple, list)) and len(e) == 2:
        return e
    raise Unsupported("edge must be a pair")


def struct_edge_removed(s0, s1, u, w):
    v0, v1 = s0.v, s1.v
    return [
        ("E'=E-{edge}", forall([a_, b_], v1.E(a_, b_) == AND(v0.E(a_, b_), z3.Not(AND(a_ == u, b_ == w)))), ("C01", "C03")),
        ("out-degrees", forall([a_], v1.od(a_) == v0.od(a_) - z3.If(a_ == u, 1, 0)), ("C01", "C03")),
        ("in-degrees", forall([a_], v1.idg(a_) == v0.idg(a_) - z3.If(a_ == w, 1, 0)), ("C01", "C03")),
        ("edge-attrs-of-removed-edge-cleared", forall([a_, b_, k_], v1.Ae(a_, b_, k_) == z3.If(AND(a_ == u, b_ == w), VNone, v0.Ae(a_, b_, k_))), ("C01",)),
    ]


def struct_edge_added(s0, s1, u, w):
    v0, v1 = s0.v, s1.v
    new = z3.Not(v0.E(u, w))
    return [
        ("E'=E+{edge}", forall([a_, b_], v1.E(a_, b_) == OR(v0.E(a_, b_), AND(a_ == u, b_ == w))), ("C01", "C03")),
        ("out-degrees", forall([a_], v1.od(a_) == v0.od(a_) + z3.If(AND(new, a_ == u), 1, 0)), ("C01", "C03")),
        ("in-degrees", forall([a_], v1.idg(a_) == v0.idg(a_) + z3.If(AND(new, a_ == w), 1, 0)), ("C01", "C03")),
    ]


def frames(s0, s1, comps, props=("C01", "C16")):
    return [(lbl, f, props) for lbl, f in C.unchanged(s0, s1, comps)]


class DeleteEdgeC(Prim):
    cls_qual = f"{ACT}.add_delete_edge.DeleteEdge"
    modifies = ("E", "od", "idg", "Ae")

    def symbolic_args(self, I, W):
        return [W.tracks, (Sym(I.ctx.fresh("u", Int)), Sym(I.ctx.fresh("w", Int)))], {}

    def raise_cases(self, W, s0, env):
        u, w = _edge(None, env)
        return [("ValueError", z3.Not(s0.v.E(u, w)))]

    def ensures(self, W, s0, s1, env):
        u, w = _edge(None, env)
        return struct_edge_removed(s0, s1, u, w) + frames(s0, s1, ["N", "A", "Seg", "T2N", "L2N", "maxT", "maxL"])

    def captured(self, W, s0, env):
        u, w = _edge(None, env)
        is_edge_feat = feat_dict_view(W, "edge")
        has = lambda k: AND(is_edge_feat(k), z3.Not(is_VNone(s0.v.Ae(u, w, k))))
        at = lambda k: s0.v.Ae(u, w, k)
        return has, at

    def fields(self, I, W, s0, env):
        has, at = self.captured(W, s0, env)
        d = SymDict(z3.Lambda([k_], has(k_)), z3.Lambda([k_], at(k_)), Key, Val)
        return {"edge": env["edge"], "attributes": d}

    def check_fields(self, I, W, s0, env, inst):
        has, at = self.captured(W, s0, env)
        h1, a1 = C.dict_view(inst.fields["attributes"])
        return [
            ("captures-exactly-the-registered-edge-features-present", forall([k_], h1(k_) == has(k_)), ("C01",)),
            ("captured-values", forall([k_], IMP(has(k_), a1(k_) == at(k_))), ("C01",)),
            ("records-edge", I.eq_formula(inst.fields["edge"], env["edge"]), ("C01",)),
        ]


class AddEdgeC(Prim):
    cls_qual = f"{ACT}.add_delete_edge.AddEdge"
    modifies = ("E", "od", "idg", "Ae")

    def symbolic_args(self, I, W):
        attrs = SymDict.fresh(I.ctx, "eattrs", Key, Val)
        return [W.tracks, (Sym(I.ctx.fresh("u", Int)), Sym(I.ctx.fresh("w", Int)))], {"attributes": attrs}

    def raise_cases(self, W, s0, env):
        u, w = _edge(None, env)
        return [("ValueError", OR(z3.Not(s0.v.N(u)), z3.Not(s0.v.N(w))))]

    def attr_view(self, env):
        at = env.get("attributes")
        if at is None:
            return (lambda k: z3.BoolVal(False)), (lambda k: VNone)
        return C.dict_view(at)

    def ensures(self, W, s0, s1, env):
        u, w = _edge(None, env)
        has, at = self.attr_view(env)
        v0, v1 = s0.v, s1.v
        out = struct_edge_added(s0, s1, u, w)
        iou_override = self.iou_clause(W, s0, s1, u, w)
        if iou_override is None:
            out.append(("edge-attrs", forall([a_, b_, k_], v1.Ae(a_, b_, k_) == z3.If(AND(a_ == u, b_ == w, has(k_)), at(k_), v0.Ae(a_, b_, k_))), ("C01",)))
        else:
            out += iou_override(has, at)
        return out + frames(s0, s1, ["N", "A", "Seg", "T2N", "L2N", "maxT", "maxL"])

    def iou_clause(self, W, s0, s1, u, w):
        if W.seg is None:
            return None
        from . import segspec
        return segspec.add_edge_iou(W, s0, s1, u, w, self.ctx)

    def fields(self, I, W, s0, env):
        at = env.get("attributes")
        return {"edge": env["edge"], "attributes": at if at is not None else AssocDict()}


class AddNodeC(Prim):
    cls_qual = f"{ACT}.add_delete_node.AddNode"
    modifies = ("N", "A", "T2N", "L2N", "maxT", "maxL", "Seg")

    def symbolic_args(self, I, W):
        attrs = SymDict.fresh(I.ctx, "nattrs", Key, Val)
        pixels = None
        if W.seg is not None:
            from pyvc.segmodel import PixSet
            pixels = PixSet.fresh(I.ctx, "pixels")
        return [W.tracks, Sym(I.ctx.fresh("node", Int)), attrs], {"pixels": pixels}

    def requires(self, W, s0, env):
        has, at = C.dict_view(env["attributes"])
        K = W.K
        out = [("track-id-and-time-are-integers", AND(IMP(has(K.trk), is_VInt(norm(at(K.trk)))), IMP(has(K.tk), is_VInt(norm(at(K.tk))))), ("C11",)),
               ("lineage-id-is-an-integer-if-given", IMP(has(K.lk), OR(is_VInt(norm(at(K.lk))), is_VNone(norm(at(K.lk))))), ("C11",)),
               ("position-value-is-not-None", IMP(has(K.pk), z3.Not(is_VNone(norm(at(K.pk))))), ("C01",))]
        if W.seg is not None and env.get("pixels") is not None:
            from . import segspec
            out += segspec.add_node_requires(W, s0, env)
        return out

    def raise_cases(self, W, s0, env):
        has, at = C.dict_view(env["attributes"])
        K = W.K
        g = OR(z3.Not(has(K.tk)), z3.Not(has(K.trk)))
        if env.get("pixels") is None:
            g = OR(g, z3.Not(has(K.pk)))
        return [("ValueError", g)]

    def ensures(self, W, s0, s1, env):
        has, at = C.dict_view(env["attributes"])
        K = W.K
        node = to_z3(env["node"], Int)
        v0, v1 = s0.v, s1.v
        new_tid, new_lid = norm(at(K.trk)), z3.If(has(K.lk), norm(at(K.lk)), v0.A(node, K.lk))
        out = [("N'=N+{node}", forall([a_], v1.N(a_) == OR(v0.N(a_), a_ == node)), ("C01", "C07"))]
        rp = None
        if W.seg is not None:
            from . import segspec
            rp = segspec.add_node_attrs(W, s0, s1, env, node, self.ctx)
            out += segspec.add_node_seg(W, s0, s1, env, node)
        if rp is None:
            out.append(("attrs-of-node-set", forall([a_, k_], v1.A(a_, k_) == z3.If(AND(a_ == node, has(k_)), norm(at(k_)), v0.A(a_, k_))), ("C01",)))
        else:
            out += rp(has, at)
        kT, cT, lT = s0.T
        kT1, cT1, lT1 = s1.T
        t = iv(new_tid)
        out += [
            ("track-lookup:node-added-under-its-id", forall([i_, n_], cT1(i_, n_) == cT(i_, n_) + z3.If(AND(i_ == t, n_ == node), 1, 0)), ("C06", "C01")),
            ("track-lookup:keys", forall([i_], kT1(i_) == OR(kT(i_), i_ == t)), ("C06",)),
            ("track-lookup:lengths", forall([i_], lT1(i_) == lT(i_) + z3.If(i_ == t, 1, 0)), ("C06",)),
            ("max-track-id-raised", s1.maxT == z3.If(t > s0.maxT, t, s0.maxT), ("C06",)),
        ]
        kL, cL, lL = s0.L
        kL1, cL1, lL1 = s1.L
        upd = AND(W.act["lineage"], z3.Not(is_VNone(new_lid)))
        l = iv(new_lid)
        addl = AND(upd, cL(l, node) == 0)
        out += [
            ("lineage-lookup:node-added-once", forall([i_, n_], cL1(i_, n_) == cL(i_, n_) + z3.If(AND(addl, i_ == l, n_ == node), 1, 0)), ("C06", "C01")),
            ("lineage-lookup:keys", forall([i_], kL1(i_) == OR(kL(i_), AND(upd, i_ == l))), ("C06",)),
            ("lineage-lookup:lengths", forall([i_], lL1(i_) == lL(i_) + z3.If(AND(addl, i_ == l), 1, 0)), ("C06",)),
            ("max-lineage-id-raised", s1.maxL == z3.If(AND(upd, l > s0.maxL), l, s0.maxL), ("C06",)),
        ]
        fr = ["E", "Ae"] + ([] if W.seg is not None else ["Seg"])
        return out + frames(s0, s1, fr)

    def fields(self, I, W, s0, env):
        return {"node": env["node"], "attributes": env["attributes"], "pixels": env.get("pixels")}


def norm(e):
    return C.norm_val(e)


class DeleteNodeC(Prim):
    cls_qual = f"{ACT}.add_delete_node.DeleteNode"
    modifies = ("N", "A", "T2N", "L2N", "Seg")

    def symbolic_args(self, I, W):
        return [W.tracks, Sym(I.ctx.fresh("node", Int))], {"pixels": None}

    def requires(self, W, s0, env):
        node = to_z3(env["node"], Int)
        return [("no-incident-edges(documented)", AND(s0.v.od(node) == 0, s0.v.idg(node) == 0), ("C01", "C03"))]

    def raise_cases(self, W, s0, env):
        node = to_z3(env["node"], Int)
        return [("KeyError", z3.Not(s0.v.N(node)))]

    def captured(self, W, s0, env):
        node = to_z3(env["node"], Int)
        is_node_feat = feat_dict_view(W, "node")
        has = lambda k: AND(is_node_feat(k), z3.Not(is_VNone(s0.v.A(node, k))))
        at = lambda k: s0.v.A(node, k)
        return has, at

    def ensures(self, W, s0, s1, env):
        node = to_z3(env["node"], Int)
        K = W.K
        v0, v1 = s0.v, s1.v
        has, at = self.captured(W, s0, env)
        out = [
            ("N'=N-{node}", forall([a_], v1.N(a_) == AND(v0.N(a_), a_ != node)), ("C01", "C07")),
            ("attrs-of-node-cleared", forall([a_, k_], v1.A(a_, k_) == z3.If(a_ == node, VNone, v0.A(a_, k_))), ("C01",)),
        ]
        if W.seg is not None:
            from . import segspec
            out += segspec.delete_node_seg(W, s0, s1, env, node)
        kT, cT, lT = s0.T
        kT1, cT1, lT1 = s1.T
        t = iv(at(K.trk))
        rem = AND(has(K.trk), kT(t), cT(t, node) > 0)
        out += [
            ("track-lookup:node-removed-from-its-id", forall([i_, n_], cT1(i_, n_) == cT(i_, n_) - z3.If(AND(rem, i_ == t, n_ == node), 1, 0)), ("C06", "C01")),
            ("track-lookup:lengths", forall([i_], lT1(i_) == lT(i_) - z3.If(AND(rem, i_ == t), 1, 0)), ("C06",)),
            ("track-lookup:empty-entry-dropped", forall([i_], kT1(i_) == AND(kT(i_), z3.Not(AND(has(K.trk), i_ == t, lT1(t) == 0)))), ("C06",)),
        ]
        kL, cL, lL = s0.L
        kL1, cL1, lL1 = s1.L
        l = iv(at(K.lk))
        reml = AND(W.act["lineage"], has(K.lk), kL(l), cL(l, node) > 0)
        out += [
            ("lineage-lookup:node-removed-from-its-id", forall([i_, n_], cL1(i_, n_) == cL(i_, n_) - z3.If(AND(reml, i_ == l, n_ == node), 1, 0)), ("C06", "C01")),
            ("lineage-lookup:lengths", forall([i_], lL1(i_) == lL(i_) - z3.If(AND(reml, i_ == l), 1, 0)), ("C06",)),
            ("lineage-lookup:empty-entry-dropped", forall([i_], kL1(i_) == AND(kL(i_), z3.Not(AND(W.act["lineage"], has(K.lk), kL(l), i_ == l, lL1(l) == 0)))), ("C06",)),
        ]
        fr = ["E", "Ae", "maxT", "maxL"] + ([] if W.seg is not None else ["Seg"])
        return out + frames(s0, s1, fr)

    def fields(self, I, W, s0, env):
        has, at = self.captured(W, s0, env)
        d = SymDict(z3.Lambda([k_], has(k_)), z3.Lambda([k_], at(k_)), Key, Val)
        px = env.get("pixels")
        if px is None and W.seg is not None:
            from . import segspec
            px = segspec.pixels_of(W, s0, to_z3(env["node"], Int))
        return {"node": env["node"], "attributes": d, "pixels": px}

    def check_fields(self, I, W, s0, env, inst):
        has, at = self.captured(W, s0, env)
        h1, a1 = C.dict_view(inst.fields["attributes"])
        return [
            ("captures-exactly-the-registered-node-features-present", forall([k_], h1(k_) == has(k_)), ("C01",)),
            ("captured-values", forall([k_], IMP(has(k_), a1(k_) == at(k_))), ("C01",)),
        ]


class UpdateNodeAttrsC(Prim):
    cls_qual = f"{ACT}.update_node_attrs.UpdateNodeAttrs"
    modifies = ("A",)
    raise_props = ("C11", "C10")

    def symbolic_args(self, I, W):
        return [W.tracks, Sym(I.ctx.fresh("node", Int)), SymDict.fresh(I.ctx, "uattrs", Key, Val)], {}

    def protected(self, W, k):
        ks = [W.K.tk, W.K.trk, W.K.lk]
        if W.seg is not None:
            ks += list(W.rp_keys.values()) + [W.iou_key]
        return OR(*[k == x for x in ks])

    def raise_cases(self, W, s0, env):
        has, at = C.dict_view(env["attrs"])
        node = to_z3(env["node"], Int)
        kx = z3.Const("k!prot", Key)
        any_prot = z3.Exists([kx], AND(has(kx), self.protected(W, kx)))
        return [("ValueError", any_prot), ("KeyError", AND(z3.Not(any_prot), z3.Not(s0.v.N(node))))]

    def ensures(self, W, s0, s1, env):
        has, at = C.dict_view(env["attrs"])
        node = to_z3(env["node"], Int)
        v0, v1 = s0.v, s1.v
        return [("attrs-updated", forall([a_, k_], v1.A(a_, k_) == z3.If(AND(a_ == node, has(k_)), norm(at(k_)), v0.A(a_, k_))), ("C01", "C10"))] + \
            frames(s0, s1, ["N", "E", "Ae", "Seg", "T2N", "L2N", "maxT", "maxL"])

    def fields(self, I, W, s0, env):
        has, at = C.dict_view(env["attrs"])
        node = to_z3(env["node"], Int)
        d = SymDict(z3.Lambda([k_], has(k_)), z3.Lambda([k_], s0.v.A(node, k_)), Key, Val)
        return {"node": env["node"], "prev_attrs": d, "new_attrs": env["attrs"]}

    def check_fields(self, I, W, s0, env, inst):
        has, at = C.dict_view(env["attrs"])
        node = to_z3(env["node"], Int)
        h1, a1 = C.dict_view(inst.fields["prev_attrs"])
        return [("prev_attrs-domain", forall([k_], h1(k_) == has(k_)), ("C01",)),
                ("prev_attrs-values", forall([k_], IMP(has(k_), a1(k_) == s0.v.A(node, k_))), ("C01",))]


class UpdateTrackIDsC(Prim):
    """UpdateTrackIDs.__init__ : captures old ids then delegates to the walk (contract K1)."""

    cls_qual = f"{ACT}.update_track_id.UpdateTrackIDs"
    modifies = ("A", "T2N", "L2N", "maxT", "maxL")

    def symbolic_args(self, I, W):
        ctx = I.ctx
        lid = Sym(ctx.fresh("new_lid", Val))
        ctx.assume(OR(is_VNone(lid.e), is_VInt(lid.e)))
        return [W.tracks, Sym(ctx.fresh("start", Int)), Sym(ctx.fresh("new_tid", Int)), lid], {}

    def raise_cases(self, W, s0, env):
        start = to_z3(env["start_node"], Int)
        return [("KeyError", OR(z3.Not(s0.v.N(start)), is_VNone(T.tid(s0.v, W.K, start))))]

    # the effect is that of the walk contract applied with the captured ids
    def apply(self, I, args, kw):
        W, ctx = self.W, I.ctx
        cls = repo().get_class(self.cls_qual)
        node = cls.find("__init__")[1]
        inst = Instance(cls)
        env = I.bind_args(node, [inst] + list(args), kw, lambda d: I.eval_in_module(d, cls.module))
        s0 = C.Snap(W, I)
        for exc, guard in self.raise_cases(W, s0, env):
            if ctx.branch(guard, f"UpdateTrackIDs raises {exc}"):
                raise PyRaise(BuiltinExc(exc, ()))
        start = to_z3(env["start_node"], Int)
        if getattr(W, "check_invertible_here", False):
            tag = f"call:{I.call_site_id('UpdateTrackIDs')}"
            for lbl, f, props in self.invertible_here(I, W, s0, env):
                ctx.oblige(f"{tag}/invertible-here:{lbl}", f, kind="pre", props=props)
        ctx.ghost.setdefault("applied", []).append(inst)
        inst.fields.update({
            "tracks": W.tracks, "start_node": env["start_node"],
            "old_tracklet_id": Sym(T.tid(s0.v, W.K, start)), "new_tracklet_id": env["tracklet_id"],
            "new_lineage_id": env["lineage_id"], "old_lineage_id": Sym(T.lid(s0.v, W.K, start)),
        })
        I.walk_site = I.call_site_id("UpdateTrackIDs")
        try:
            ctx.contracts[C.WalkAssumed.qualname].apply(I, [W.ta, inst], {})
        finally:
            I.walk_site = None
        ctx.ghost["log"].append(("UpdateTrackIDs",))
        return inst


PRIMS = [DeleteEdgeC, AddEdgeC, AddNodeC, DeleteNodeC, UpdateNodeAttrsC, UpdateTrackIDsC]


def install_prim_contracts(I, W, which=None):
    prims = list(PRIMS)
    if W.seg is not None:
        from .segprims import UpdateNodeSegC
        prims.append(UpdateNodeSegC)
    for cls in prims:
        if which is None or cls.__name__ in which:
            c = cls(W)
            I.ctx.contracts[c.qualname] = c


def units(cfg=None, names=None):
    from pyvc.verify import Unit
    out = []
    prims = list(PRIMS)
    if (cfg or {}).get("seg"):
        from .segprims import UpdateNodeSegC
        prims.append(UpdateNodeSegC)
    for cls in prims:
        if cls is UpdateTrackIDsC:
            continue
        if names and cls.__name__ not in names:
            continue
        out.append(Unit(cls(), dict(cfg or {})))
    return out


# =============================================================================== C01: invertibility of the primitives
def observable_equal(W, sa, sb, tag):
    """sa ~ sb on the observable state of property C01: nodes, edges, every *registered* node/edge feature
    value, the segmentation, and the two lookups as bags (max ids, counters and list order are not state)."""
    va, vb = sa.v, sb.v
    node_feat, edge_feat = feat_dict_view(W, "node"), feat_dict_view(W, "edge")
    out = [
        (f"{tag}:same-nodes", forall([a_], va.N(a_) == vb.N(a_))),
        (f"{tag}:same-edges", forall([a_, b_], va.E(a_, b_) == vb.E(a_, b_))),
        (f"{tag}:same-registered-node-feature-values", forall([a_, k_], IMP(AND(va.N(a_), node_feat(k_)), va.A(a_, k_) == vb.A(a_, k_)))),
        (f"{tag}:same-registered-edge-feature-values", forall([a_, b_, k_], IMP(AND(va.E(a_, b_), edge_feat(k_)), va.Ae(a_, b_, k_) == vb.Ae(a_, b_, k_)))),
        (f"{tag}:same-track-lookup(bag)", forall([i_, n_], sa.T[1](i_, n_) == sb.T[1](i_, n_))),
        (f"{tag}:same-lineage-lookup(bag)", forall([i_, n_], sa.L[1](i_, n_) == sb.L[1](i_, n_))),
    ]
    if va.Seg is not None:
        from pyvc.tracksmodel import p_, t_
        out.append((f"{tag}:same-segmentation", forall([t_, p_], va.Seg(t_, p_) == vb.Seg(t_, p_))))
    return out


class InvertPrim(Contract):
    """{INV & ipre_A}  s1 = A(s0); s2 = A.inverse()(s1); s3 = A.inverse().inverse()(s2)  {s2 ~ s0 and s3 ~ s1}
    with the real constructors and the real inverse() methods (only the relabel walk through its contract)."""

    props = ("C01",)

    def __init__(self, prim_cls):
        self.prim = prim_cls()
        self.qualname = self.prim.cls_qual + ".inverse"
        self.name = self.prim.cls_qual.split(".")[-1]

    def run(self, I, cfg):
        ctx = I.ctx
        W = C.world(I, has_seg=cfg.get("seg", False), inv=("forest", "trackids", "lineage", "b1", "b1l", "b2", "segfacts"))
        W.with_lineage = True
        W.lineage_lookup_contract = True
        if W.seg is not None:
            from . import segprims
            segprims.install_seg(I, W)
            segprims.assume_seg_invariants(I, W, which=("S", "R", "Q"))
        prim = self.prim
        prim.W = W
        install_loopspecs(I, W)
        ctx.contracts[C.WalkAssumed.qualname] = C.WalkAssumed(W)
        # modular: the action, its inverse and the inverse of the inverse are all used through the
        # contracts of the primitive constructors (each proved of its real body in its own unit);
        # what is executed for real here are the inverse() methods
        install_prim_contracts(I, W)
        prim = ctx.contracts[prim.qualname]
        prim.ctx = ctx
        cls = repo().get_class(prim.cls_qual)
        node = cls.find("__init__")[1]
        args, kw = prim.symbolic_args(I, W)
        env = I.bind_args(node, [None] + args, kw, lambda d: I.eval_in_module(d, cls.module))
        s0 = C.Snap(W, I)
        for lbl, f, props in prim.requires(W, s0, env) + prim.invertible_here(I, W, s0, env):
            ctx.assume(f)
        I.under_verification = "<c01>"
        q = self.name
        try:
            inst = I.instantiate(cls, args, kw)
        except PyRaise as pr:
            return ("raise", pr.exc)  # a refused primitive: nothing to invert (C11 covers it)
        s1 = C.Snap(W, I)
        try:
            inv = I.call(I.getattr(inst, "inverse"), [], {})
        except PyRaise as pr:
            ctx.oblige(f"C01/{q}/inverse-does-not-raise", False, props=("C01",), note=str(exc_names(pr.exc)))
            return ("raise", pr.exc)
        s2 = C.Snap(W, I)
        for lbl, f in observable_equal(W, s0, s2, "inverse-restores"):
            ctx.oblige(f"C01/{q}/{lbl}", f, props=("C01",))
        try:
            I.call(I.getattr(inv, "inverse"), [], {})
        except PyRaise as pr:
            ctx.oblige(f"C01/{q}/inverse-of-inverse-does-not-raise", False, props=("C01",), note=str(exc_names(pr.exc)))
            return ("raise", pr.exc)
        s3 = C.Snap(W, I)
        for lbl, f in observable_equal(W, s1, s3, "inverse-of-inverse-reapplies"):
            ctx.oblige(f"C01/{q}/{lbl}", f, props=("C01",))
        return ("return", None)


def _no_extra(self, I, W, s0, env):
    return []


Prim.invertible_here = _no_extra


def _addnode_inv_here(self, I, W, s0, env):
    node = to_z3(env["node"], Int)
    out = [("node-is-new", z3.Not(s0.v.N(node)), ("C01",))]
    return out


def _addedge_inv_here(self, I, W, s0, env):
    u, w = _edge(None, env)
    return [("edge-is-new", z3.Not(s0.v.E(u, w)), ("C01",))]


def _utid_inv_here(self, I, W, s0, env):
    start = to_z3(env["start_node"], Int)
    new = to_z3(env["tracklet_id"], Val)
    K, v0 = W.K, s0.v
    bel = C.below_of(I, W, view=v0)
    return [
        ("new-track-id-not-found-downstream", forall([a_], IMP(AND(bel(start, a_), T.tid(v0, K, a_) == new), new == T.tid(v0, K, start))), ("C01",)),
        ("start-in-graph", v0.N(start), ("C01",)),
    ]


AddNodeC.invertible_here = _addnode_inv_here
AddEdgeC.invertible_here = _addedge_inv_here
UpdateTrackIDsC.invertible_here = _utid_inv_here


def invert_units(cfg=None, names=None):
    from pyvc.verify import Unit
    out = []
    prims = list(PRIMS)
    if (cfg or {}).get("seg"):
        from .segprims import UpdateNodeSegC
        prims.append(UpdateNodeSegC)
    for cls in prims:
        if names and cls.__name__ not in names:
            continue
        c = InvertPrim(cls)
        out.append(Unit(c, dict(cfg or {}), name=f"C01:{c.name}" + ("[seg]" if (cfg or {}).get("seg") else "")))
    return out
