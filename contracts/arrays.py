"""C19 - funtracks.utils._segmentation_utils.ensure_unique_labels (loop invariant over frames)."""
from __future__ import annotations

import z3

from pyvc import arraymodel as A
from pyvc.spec import Contract, LoopSpec
from pyvc.terms import AND, IMP, OR, Int, Pix, Sym, forall
from pyvc.verify import call_real

EUL = "funtracks.utils._segmentation_utils.ensure_unique_labels"
p_, q_ = A.p_, A.q_
j_, k_ = A.j_, A.k_


class EULoop(LoopSpec):
    """invariant(i) over `for idx in range(segmentation.shape[0])`:
       I1  every label written so far is <= curr_max, curr_max >= 0
       I2  labels strictly increase from frame to frame (so no label occurs in two frames)
       I3  in each processed frame the zero pattern and the partition into regions are unchanged
       I4  unprocessed frames are untouched"""

    props = ("C19",)

    def __init__(self, arr0):
        self.arr0 = arr0  # the input array (its L0)

    def havoc(self, I, fr, it, i, assigned):
        super().havoc(I, fr, it, i, assigned - {"segmentation"})
        arr = fr.env["segmentation"]
        arr.L = I.ctx.fresh_fun("L", Int, Pix, Int)

    def inv(self, I, fr, it, i):
        arr = fr.env["segmentation"]
        L, L0 = arr.L, self.arr0
        cm = fr.env["curr_max"]
        cm = cm.e if isinstance(cm, Sym) else z3.IntVal(cm)
        return [
            ("I1.curr_max-dominates", AND(cm >= 0, forall([j_, p_], IMP(AND(j_ >= 0, j_ < i), L(j_, p_) <= cm)))),
            ("I2.labels-increase-across-frames", forall([j_, k_, p_, q_], IMP(AND(k_ >= 0, k_ < j_, j_ < i, L(j_, p_) != 0, L(k_, q_) != 0), L(k_, q_) < L(j_, p_)))),
            ("I3.zero-pattern-kept", forall([j_, p_], IMP(AND(j_ >= 0, j_ < i), (L(j_, p_) == 0) == (L0(j_, p_) == 0)))),
            ("I3.partition-kept", forall([j_, p_, q_], IMP(AND(j_ >= 0, j_ < i), (L(j_, p_) == L(j_, q_)) == (L0(j_, p_) == L0(j_, q_))))),
            ("I3.labels-nonnegative", forall([j_, p_], L(j_, p_) >= 0)),
            ("I4.rest-untouched", forall([j_, p_], IMP(j_ >= i, L(j_, p_) == L0(j_, p_)))),
        ]


class EnsureUniqueLabels(Contract):
    qualname = EUL
    props = ("C19",)
    ext = A.EXT

    def run(self, I, cfg):
        ctx = I.ctx
        arr = A.LabelArr(ctx)
        L0, n = arr.L, arr.n
        ctx.assume(n >= 0)
        if cfg.get("multiseg"):
            # (h, t, ...) input: shape[0] is the number of hypotheses h, the flattened view has n = h*t frames
            h = ctx.fresh("hypotheses", Int)
            ctx.assume(AND(h >= 0, h <= n))
            arr.lead = h
        lead0 = arr.lead
        ctx.assume(forall([j_, p_], L0(j_, p_) >= 0))  # label arrays hold non-negative integers
        ctx.loopspecs[(EUL, 0)] = EULoop(L0)
        out = call_real(I, EUL, [arr], {"multiseg": bool(cfg.get("multiseg", False))})
        q = "ensure_unique_labels"
        if out[0] != "return":
            ctx.oblige(f"C19/{q}/no-exception", False, props=self.props)
            return out
        res = out[1]
        ok = isinstance(res, A.LabelArr)
        ctx.oblige(f"C19/{q}/ensures:returns-an-array", z3.BoolVal(ok), props=self.props)
        if not ok:
            return out
        L = res.L
        inr = lambda x: AND(x >= 0, x < n)
        ctx.oblige(f"C19/{q}/ensures:no-label-occurs-in-two-different-frames",
                   forall([j_, k_, p_, q_], IMP(AND(inr(j_), inr(k_), L(j_, p_) != 0, L(j_, p_) == L(k_, q_)), j_ == k_)), props=self.props)
        ctx.oblige(f"C19/{q}/ensures:background-unchanged-in-every-frame",
                   forall([j_, p_], IMP(inr(j_), (L(j_, p_) == 0) == (L0(j_, p_) == 0))), props=self.props)
        ctx.oblige(f"C19/{q}/ensures:partition-into-regions-unchanged-in-every-frame",
                   forall([j_, p_, q_], IMP(inr(j_), (L(j_, p_) == L(j_, q_)) == (L0(j_, p_) == L0(j_, q_)))), props=self.props)
        ctx.oblige(f"C19/{q}/ensures:same-number-of-frames-and-shape", AND(res.n == n, res.lead == lead0), props=self.props)
        return out


def units():
    from pyvc.verify import Unit
    return [Unit(EnsureUniqueLabels(), {"multiseg": False}), Unit(EnsureUniqueLabels(), {"multiseg": True})]
