"""C06 - Tracks._get_new_node_ids: the returned ids are pairwise distinct, none of them is a node, and all lie below the
advanced counter (partial correctness: the inner `while` ends when the counter has passed every node id)."""
from __future__ import annotations

import z3

from pyvc.spec import Contract, LoopSpec
from pyvc.terms import AND, IMP, OR, Bool, Int, Sym, forall, to_z3
from pyvc.values import Instance, ModelObj, SymList
from pyvc.verify import call_real, repo

FN = "funtracks.data_model.tracks.Tracks._get_new_node_ids"
j_, k_ = z3.Ints("j!w k!w")


class Graph(ModelObj):
    type_names = ("DiGraph",)

    def __init__(self, N):
        self.N = N

    def do_has_node(self, I, n):
        return Sym(self.N(to_z3(n, Int)))


def ids_clauses(N, ids, n, c0, counter, k):
    g = lambda j: to_z3(ids.get(j), Int)
    return [
        ("length-and-counter", AND(ids.n == n, counter >= c0 + n)),
        ("processed-ids-are-fresh-and-below-the-counter", forall([j_], IMP(AND(j_ >= 0, j_ < k), AND(z3.Not(N(g(j_))), g(j_) >= c0, g(j_) < counter)))),
        ("unprocessed-ids-are-the-initial-ones", forall([j_], IMP(AND(j_ >= k, j_ < n), g(j_) == c0 + j_))),
        ("pairwise-distinct", forall([j_, k_], IMP(AND(j_ >= 0, j_ < k_, k_ < n), g(j_) != g(k_)))),
    ]


class Outer(LoopSpec):
    props = ("C06",)

    def __init__(self, N, n, c0, tracks):
        self.N, self.n, self.c0, self.tracks = N, n, c0, tracks

    def havoc(self, I, fr, it, i, assigned):
        for nm in ("idx", "_id"):
            fr.env.pop(nm, None)
        fr.env["ids"] = SymList.fresh(I.ctx, "ids", Int)
        self.tracks.fields["node_id_counter"] = Sym(I.ctx.fresh("counter", Int))

    def inv(self, I, fr, it, k):
        return ids_clauses(self.N, fr.env["ids"], self.n, self.c0, to_z3(self.tracks.fields["node_id_counter"], Int), k)


class Inner(LoopSpec):
    """while self.graph.has_node(_id): _id = counter; counter += 1"""

    props = ("C06",)

    def __init__(self, N, n, c0, tracks):
        self.N, self.n, self.c0, self.tracks = N, n, c0, tracks

    def enter(self, I, fr, it):
        self.ids = fr.env["ids"]
        self.f0 = self.ids.f
        self.idx = to_z3(fr.env["idx"], Int)
        self.cw0 = to_z3(self.tracks.fields["node_id_counter"], Int)

    def havoc(self, I, fr, it, i, assigned):
        fr.env["_id"] = Sym(I.ctx.fresh("_id", Int))
        self.tracks.fields["node_id_counter"] = Sym(I.ctx.fresh("counter", Int))

    def inv(self, I, fr, it, i):
        c = to_z3(self.tracks.fields["node_id_counter"], Int)
        x = to_z3(fr.env["_id"], Int)
        same = fr.env["ids"] is self.ids and self.ids.f is self.f0
        return [("candidate-is-the-initial-id-or-a-consumed-counter-value", AND(c >= self.cw0, self.cw0 >= self.c0 + self.n, x < c, OR(x == self.c0 + self.idx, x >= self.cw0))),
                ("list-untouched-inside-the-while", z3.BoolVal(same))]


class NewNodeIds(Contract):
    qualname = FN
    props = ("C06",)

    def run(self, I, cfg):
        ctx = I.ctx
        N = ctx.fresh_fun("N", Int, Bool)
        n, c0 = ctx.fresh("n", Int), ctx.fresh("counter0", Int)
        ctx.assume(n >= 0)
        tracks = Instance(repo().get_class("funtracks.data_model.tracks.Tracks"), {"graph": Graph(N), "node_id_counter": Sym(c0)})
        ctx.loopspecs[(FN, 0)] = Outer(N, n, c0, tracks)
        ctx.loopspecs[(FN, 1)] = Inner(N, n, c0, tracks)
        out = call_real(I, FN, [tracks, Sym(n)], {})
        q = "Tracks._get_new_node_ids"
        if out[0] != "return":
            ctx.oblige(f"C06/{q}/no-exception", False, props=self.props, note=str(out[1]))
            return out
        ids = out[1]
        ok = isinstance(ids, SymList)
        ctx.oblige(f"C06/{q}/ensures:returns-a-list", z3.BoolVal(ok), props=self.props)
        if ok:
            c1 = to_z3(tracks.fields["node_id_counter"], Int)
            g = lambda j: to_z3(ids.get(j), Int)
            ctx.oblige(f"C06/{q}/ensures:n-ids", ids.n == n, props=self.props)
            ctx.oblige(f"C06/{q}/ensures:no-returned-id-is-a-node", forall([j_], IMP(AND(j_ >= 0, j_ < n), z3.Not(N(g(j_))))), props=self.props)
            ctx.oblige(f"C06/{q}/ensures:returned-ids-pairwise-distinct", forall([j_, k_], IMP(AND(j_ >= 0, j_ < k_, k_ < n), g(j_) != g(k_))), props=self.props)
            ctx.oblige(f"C06/{q}/ensures:counter-advanced-past-every-returned-id", AND(c1 >= c0 + n, forall([j_], IMP(AND(j_ >= 0, j_ < n), AND(g(j_) >= c0, g(j_) < c1)))), props=self.props)
        return out


def units():
    from pyvc.verify import Unit
    return [Unit(NewNodeIds(), {})]
