"""C10 - feature switching at the level of the tables: Tracks.enable_features / disable_features,
AnnotatorRegistry.activate_features / deactivate_features / all_features, GraphAnnotator.activate_features / deactivate_features.

State: three annotators (what a Tracks object builds), each with a table  key -> (Feature, is_active)
       (dom_a, feat_a, act_a), and the FeatureDict of the tracks (regdom, regval).
Key lists are symbolic (every length, repetitions allowed).

  GraphAnnotator.activate / deactivate(keys)   act'(k) = (k in keys and k in dom) ? True/False : act(k); dom, feat unchanged
  registry.activate / deactivate(keys)         raises KeyError iff some key is in no table - and then nothing changed;
                                               otherwise every annotator's flags are set as above
  Tracks.enable_features(keys, recompute)      KeyError => tables and FeatureDict unchanged; otherwise flags set, every key
                                               registered (existing entries kept, new ones carry the annotator's Feature),
                                               and the registry's bulk compute is called exactly once with `keys` iff recompute
  Tracks.disable_features(keys)                KeyError => unchanged; otherwise flags cleared and exactly the given keys unregistered
"""
from __future__ import annotations

import z3

from pyvc.core import Unsupported
from pyvc.spec import Contract, LoopSpec
from pyvc.terms import AND, IMP, OR, Bool, Int, Key, Sym, Val, forall, to_z3
from pyvc.values import BuiltinExc, Instance, ModelObj, PyRaise, SymDict, SymList, exc_names
from pyvc.verify import call_real, repo

GA = "funtracks.annotators._graph_annotator.GraphAnnotator"
AR = "funtracks.annotators._annotator_registry.AnnotatorRegistry"
TR = "funtracks.data_model.tracks.Tracks"
k_ = z3.Const("k!r", Key)
j_ = z3.Int("j!r")
KeySet = z3.ArraySort(Key, Bool)
S = z3.Select


class FeatTable(ModelObj):
    """dict key -> (Feature, bool)"""

    type_names = ("dict",)

    def __init__(self, dom, feat, act):
        self.dom, self.feat, self.act = dom, feat, act

    @staticmethod
    def fresh(ctx, name):
        return FeatTable(ctx.fresh(name + "_dom", KeySet), ctx.fresh(name + "_feat", z3.ArraySort(Key, Val)), ctx.fresh(name + "_act", KeySet))

    def snapshot(self):
        return (self.dom, self.feat, self.act)

    def do_copy(self, I):
        return FeatTable(self.dom, self.feat, self.act)

    def m_contains(self, I, k):
        return Sym(S(self.dom, to_z3(k, Key)))

    def m_getitem(self, I, k):
        ke = to_z3(k, Key)
        if not I.ctx.branch(S(self.dom, ke), "key in feature table"):
            raise PyRaise(BuiltinExc("KeyError", (k,)))
        return (Sym(S(self.feat, ke)), Sym(S(self.act, ke)))

    def m_setitem(self, I, k, v):
        if not (isinstance(v, tuple) and len(v) == 2):
            raise Unsupported("feature table value")
        ke = to_z3(k, Key)
        self.dom = z3.Store(self.dom, ke, z3.BoolVal(True))
        self.feat = z3.Store(self.feat, ke, to_z3(v[0], Val))
        self.act = z3.Store(self.act, ke, to_z3(v[1], Bool))

    # --- as the source of a dict comprehension over .items(): key k, value (feat[k], act[k])
    ksort = Key

    def comp_value(self, kv):
        return (Sym(S(self.feat, kv)), Sym(S(self.act, kv)))

    def do_items(self, I):
        out = SymList(z3.IntVal(0), lambda i: None)
        out.src_dict, out.src_kind = self, "items"
        return out

    def do_update(self, I, other):
        if not isinstance(other, FeatTable):
            raise Unsupported("feature table update")
        d0, f0, a0 = self.dom, self.feat, self.act
        self.dom = z3.Lambda([k_], OR(S(d0, k_), S(other.dom, k_)))
        self.feat = z3.Lambda([k_], z3.If(S(other.dom, k_), S(other.feat, k_), S(f0, k_)))
        self.act = z3.Lambda([k_], z3.If(S(other.dom, k_), S(other.act, k_), S(a0, k_)))


def in_list(L, k):
    return z3.Exists([j_], AND(j_ >= 0, j_ < L.n, to_z3(L.get(j_), Key) == k))


def flags_spec(t0, t1, inkeys, value):
    """table t0 -> t1 after (de)activation of the keys satisfying inkeys"""
    d0, f0, a0 = t0
    d1, f1, a1 = t1
    return [
        ("same-keys-and-features", forall([k_], AND(S(d1, k_) == S(d0, k_), IMP(S(d0, k_), S(f1, k_) == S(f0, k_))))),
        ("flag-set-for-exactly-the-given-keys-of-this-table", forall([k_], IMP(S(d0, k_), S(a1, k_) == z3.If(inkeys(k_), z3.BoolVal(value), S(a0, k_))))),
    ]


class FlagsLoop(LoopSpec):
    """for key in keys: if key in self.all_features: ...   (Done = keys seen so far)"""

    props = ("C10",)

    def __init__(self, value):
        self.value = value

    def enter(self, I, fr, it):
        self.t = fr.env["self"].fields["all_features"]
        self.t0 = self.t.snapshot()
        self.Done = z3.K(Key, z3.BoolVal(False))

    def havoc(self, I, fr, it, i, assigned):
        ctx = I.ctx
        for nm in ("key", "feat", "_"):
            fr.env.pop(nm, None)
        t = self.t
        t.dom, t.feat, t.act = ctx.fresh("t_dom", KeySet), ctx.fresh("t_feat", z3.ArraySort(Key, Val)), ctx.fresh("t_act", KeySet)
        self.Done = ctx.fresh("Done", KeySet)

    def ghost_step(self, I, fr, it, i):
        self.Done = z3.Store(self.Done, to_z3(it.get(i), Key), z3.BoolVal(True))

    def inv(self, I, fr, it, i):
        Done = self.Done
        same_obj = fr.env["self"].fields["all_features"] is self.t
        w = I.ctx.fresh_fun("seen_at", Key, Int)
        return [("ghost.seen-keys", AND(forall([j_], IMP(AND(j_ >= 0, j_ < i), S(Done, to_z3(it.get(j_), Key)))),
                                        forall([k_], IMP(S(Done, k_), z3.Exists([j_], AND(j_ >= 0, j_ < i, to_z3(it.get(j_), Key) == k_)))))),
                ("table-object-kept", z3.BoolVal(same_obj))] + flags_spec(self.t0, self.t.snapshot(), lambda k: S(Done, k), self.value)


def make_annotator(ctx, name):
    cls = repo().get_class(GA)
    return Instance(cls, {"all_features": FeatTable.fresh(ctx, name)})


class AnnotatorFlags(Contract):
    """GraphAnnotator.activate_features / deactivate_features"""

    props = ("C10",)

    def __init__(self, fn):
        self.fn = fn
        self.value = fn == "activate_features"
        self.qualname = f"{GA}.{fn}"

    def run(self, I, cfg):
        ctx = I.ctx
        a = make_annotator(ctx, "T")
        t = a.fields["all_features"]
        t0 = t.snapshot()
        keys = SymList.fresh(ctx, "keys", Key)
        ctx.loopspecs[(self.qualname, 0)] = FlagsLoop(self.value)
        out = call_real(I, self.qualname, [a, keys], {})
        q = f"GraphAnnotator.{self.fn}"
        if out[0] != "return":
            ctx.oblige(f"C10/{q}/no-exception", False, props=self.props, note=str(out[1]))
            return out
        ctx.oblige(f"C10/{q}/ensures:table-object-kept", z3.BoolVal(a.fields["all_features"] is t), props=self.props)
        for lbl, f in flags_spec(t0, t.snapshot(), lambda k: in_list(keys, k), self.value):
            ctx.oblige(f"C10/{q}/ensures:{lbl}", f, props=self.props)
        return out

    def apply(self, I, args, kw):
        ctx = I.ctx
        a, keys = args
        t = a.fields["all_features"]
        t0 = t.snapshot()
        t.dom, t.feat, t.act = ctx.fresh("t_dom", KeySet), ctx.fresh("t_feat", z3.ArraySort(Key, Val)), ctx.fresh("t_act", KeySet)
        for lbl, f in flags_spec(t0, t.snapshot(), lambda k: in_list(keys, k), self.value):
            ctx.assume(f, "flags")
        ctx.ghost["flag_calls"] = ctx.ghost.get("flag_calls", 0) + 1
        return None


def make_registry(ctx, n=3):
    anns = [make_annotator(ctx, f"T{i}") for i in range(n)]
    reg = Instance(repo().get_class(AR), {})
    reg.store = list(anns)
    return reg, anns


def any_dom(snaps, k):
    return OR(*[S(s[0], k) for s in snaps])


def unchanged(snaps0, anns):
    return AND(*[AND(forall([k_], S(a.fields["all_features"].dom, k_) == S(s[0], k_)),
                     forall([k_], IMP(S(s[0], k_), AND(S(a.fields["all_features"].feat, k_) == S(s[1], k_), S(a.fields["all_features"].act, k_) == S(s[2], k_)))))
                 for s, a in zip(snaps0, anns)])


class RegistryFlags(Contract):
    """AnnotatorRegistry.activate_features / deactivate_features (three annotators)"""

    props = ("C10",)

    def __init__(self, fn):
        self.fn = fn
        self.value = fn == "activate_features"
        self.qualname = f"{AR}.{fn}"

    def run(self, I, cfg):
        ctx = I.ctx
        reg, anns = make_registry(ctx)
        snaps0 = [a.fields["all_features"].snapshot() for a in anns]
        keys = SymList.fresh(ctx, "keys", Key)
        for fn in ("activate_features", "deactivate_features"):
            c = AnnotatorFlags(fn)
            ctx.contracts[c.qualname] = c
        out = call_real(I, self.qualname, [reg, keys], {})
        self.check(I, out, anns, snaps0, keys, f"AnnotatorRegistry.{self.fn}", self.value)
        return out

    @staticmethod
    def check(I, out, anns, snaps0, keys, q, value, props=("C10",)):
        ctx = I.ctx
        missing = z3.Exists([j_], AND(j_ >= 0, j_ < keys.n, z3.Not(any_dom(snaps0, to_z3(keys.get(j_), Key)))))
        if out[0] == "raise":
            names = exc_names(out[1])
            ctx.oblige(f"C10/{q}/on-raise:it-is-a-KeyError-for-an-unknown-key", AND(z3.BoolVal("KeyError" in names), missing), props=props)
            ctx.oblige(f"C10/{q}/on-raise:no-table-changed", unchanged(snaps0, anns), props=props + ("C11",))
            ctx.oblige(f"C10/{q}/on-raise:no-annotator-was-touched", z3.BoolVal(ctx.ghost.get("flag_calls", 0) == 0), props=props)
            return
        ctx.oblige(f"C10/{q}/ensures:every-key-is-known", z3.Not(missing), props=props)
        for i, (s0, a) in enumerate(zip(snaps0, anns)):
            for lbl, f in flags_spec(s0, a.fields["all_features"].snapshot(), lambda k: in_list(keys, k), value):
                ctx.oblige(f"C10/{q}/ensures:annotator{i}.{lbl}", f, props=props)


class ComputeGhost(Contract):
    """AnnotatorRegistry.compute at the call site: recorded (bulk computation is C08/C09's bounded stand-in)"""

    qualname = f"{AR}.compute"

    def apply(self, I, args, kw):
        I.ctx.ghost.setdefault("compute_calls", []).append(args[1] if len(args) > 1 else kw.get("feature_keys"))
        return None


class RegisterLoop(LoopSpec):
    """for key in feature_keys: if key not in self.features: self.features[key] = <the annotator's Feature>"""

    props = ("C10",)

    def __init__(self, reg0, tables):
        self.reg0, self.tables = reg0, tables

    def enter(self, I, fr, it):
        self.fd = fr.env["self"].fields["features"].store
        self.Done = z3.K(Key, z3.BoolVal(False))
        self.entry = [a.fields["all_features"].snapshot() for a, _ in self.tables]

    def havoc(self, I, fr, it, i, assigned):
        ctx = I.ctx
        for nm in ("key", "feature", "_"):
            fr.env.pop(nm, None)
        self.fd.dom, self.fd.val = ctx.fresh("reg_dom", KeySet), ctx.fresh("reg_val", z3.ArraySort(Key, Val))
        self.Done = ctx.fresh("Done", KeySet)

    def ghost_step(self, I, fr, it, i):
        self.Done = z3.Store(self.Done, to_z3(it.get(i), Key), z3.BoolVal(True))

    def inv(self, I, fr, it, i):
        Done = self.Done
        d0, v0 = self.reg0
        fd = self.fd
        agg = aggregated_feat(self.tables)
        return [("ghost.seen-keys", AND(forall([j_], IMP(AND(j_ >= 0, j_ < i), S(Done, to_z3(it.get(j_), Key)))),
                                        forall([k_], IMP(S(Done, k_), z3.Exists([j_], AND(j_ >= 0, j_ < i, to_z3(it.get(j_), Key) == k_)))))),
                ("tables-not-touched-by-registration", z3.BoolVal(all(all(x is y for x, y in zip(a.fields["all_features"].snapshot(), e))
                                                                     for (a, _), e in zip(self.tables, self.entry)))),
                ("registered-keys", forall([k_], S(fd.dom, k_) == OR(S(d0, k_), S(Done, k_)))),
                ("existing-entries-kept-new-ones-carry-the-annotator's-feature",
                 forall([k_], IMP(S(fd.dom, k_), S(fd.val, k_) == z3.If(S(d0, k_), S(v0, k_), agg(k_)))))]


def aggregated_feat(tables):
    """registry.all_features[k][0]: the last annotator that has k wins (dict.update order)"""
    def agg(k):
        e = None
        for a, s in tables:
            t = a.fields["all_features"]
            e = S(t.feat, k) if e is None else z3.If(S(t.dom, k), S(t.feat, k), e)
        return e
    return agg


class UnregisterLoop(LoopSpec):
    """for key in feature_keys: if key in self.features: del self.features[key]"""

    props = ("C10",)

    def __init__(self, reg0):
        self.reg0 = reg0

    def enter(self, I, fr, it):
        self.fd = fr.env["self"].fields["features"].store
        self.Done = z3.K(Key, z3.BoolVal(False))

    def havoc(self, I, fr, it, i, assigned):
        ctx = I.ctx
        fr.env.pop("key", None)
        self.fd.dom, self.fd.val = ctx.fresh("reg_dom", KeySet), ctx.fresh("reg_val", z3.ArraySort(Key, Val))
        self.Done = ctx.fresh("Done", KeySet)

    def ghost_step(self, I, fr, it, i):
        self.Done = z3.Store(self.Done, to_z3(it.get(i), Key), z3.BoolVal(True))

    def inv(self, I, fr, it, i):
        Done = self.Done
        d0, v0 = self.reg0
        fd = self.fd
        return [("ghost.seen-keys", AND(forall([j_], IMP(AND(j_ >= 0, j_ < i), S(Done, to_z3(it.get(j_), Key)))),
                                        forall([k_], IMP(S(Done, k_), z3.Exists([j_], AND(j_ >= 0, j_ < i, to_z3(it.get(j_), Key) == k_)))))),
                ("registered-keys", forall([k_], S(fd.dom, k_) == AND(S(d0, k_), z3.Not(S(Done, k_))))),
                ("remaining-entries-kept", forall([k_], IMP(S(fd.dom, k_), S(fd.val, k_) == S(v0, k_))))]


class TracksSwitch(Contract):
    """Tracks.enable_features / disable_features"""

    props = ("C10",)

    def __init__(self, fn):
        self.fn = fn
        self.qualname = f"{TR}.{fn}"

    def run(self, I, cfg):
        ctx = I.ctx
        R = repo()
        reg, anns = make_registry(ctx)
        snaps0 = [a.fields["all_features"].snapshot() for a in anns]
        fdict = Instance(R.get_class("funtracks.features._feature_dict.FeatureDict"), {})
        fdict.store = SymDict.fresh(ctx, "registry", Key, Val)
        reg0 = (fdict.store.dom, fdict.store.val)
        tracks = Instance(R.get_class(TR), {"annotators": reg, "features": fdict})
        keys = SymList.fresh(ctx, "feature_keys", Key)
        for fn in ("activate_features", "deactivate_features"):
            c = AnnotatorFlags(fn)
            ctx.contracts[c.qualname] = c
        ctx.contracts[ComputeGhost.qualname] = ComputeGhost()
        enable = self.fn == "enable_features"
        recompute = ctx.fresh("recompute", Bool)
        if enable:
            ctx.loopspecs[(self.qualname, 0)] = RegisterLoop(reg0, list(zip(anns, snaps0)))
            out = call_real(I, self.qualname, [tracks, keys], {"recompute": Sym(recompute)})
        else:
            ctx.loopspecs[(self.qualname, 0)] = UnregisterLoop(reg0)
            out = call_real(I, self.qualname, [tracks, keys], {})
        q = f"Tracks.{self.fn}"
        fd = fdict.store
        same_fd = tracks.fields["features"] is fdict and fdict.store is fd
        calls = ctx.ghost.get("compute_calls", [])
        RegistryFlags.check(I, out, anns, snaps0, keys, q, enable)
        if out[0] == "raise":
            ctx.oblige(f"C10/{q}/on-raise:feature-registry-unchanged",
                       AND(z3.BoolVal(same_fd), forall([k_], AND(S(fd.dom, k_) == S(reg0[0], k_), IMP(S(reg0[0], k_), S(fd.val, k_) == S(reg0[1], k_))))), props=("C10", "C11"))
            ctx.oblige(f"C10/{q}/on-raise:nothing-computed", z3.BoolVal(len(calls) == 0), props=self.props)
            return out
        ctx.oblige(f"C10/{q}/ensures:registry-object-kept", z3.BoolVal(same_fd), props=self.props)
        if enable:
            tables = [(a, s) for a, s in zip(anns, snaps0)]
            agg = aggregated_feat(tables)
            ctx.oblige(f"C10/{q}/ensures:registered = previously-registered + the-given-keys",
                       forall([k_], S(fd.dom, k_) == OR(S(reg0[0], k_), in_list(keys, k_))), props=self.props)
            ctx.oblige(f"C10/{q}/ensures:existing-entries-kept-new-ones-carry-the-annotator's-feature",
                       forall([k_], IMP(S(fd.dom, k_), S(fd.val, k_) == z3.If(S(reg0[0], k_), S(reg0[1], k_), agg(k_)))), props=self.props)
            ok_calls = z3.If(recompute, z3.BoolVal(len(calls) == 1 and calls[0] is keys), z3.BoolVal(len(calls) == 0))
            ctx.oblige(f"C10/{q}/ensures:bulk-compute-called-once-with-the-given-keys-iff-recompute", ok_calls, props=self.props)
        else:
            ctx.oblige(f"C10/{q}/ensures:registered = previously-registered - the-given-keys",
                       forall([k_], S(fd.dom, k_) == AND(S(reg0[0], k_), z3.Not(in_list(keys, k_)))), props=self.props)
            ctx.oblige(f"C10/{q}/ensures:remaining-entries-kept", forall([k_], IMP(S(fd.dom, k_), S(fd.val, k_) == S(reg0[1], k_))), props=self.props)
            ctx.oblige(f"C10/{q}/ensures:nothing-computed", z3.BoolVal(len(calls) == 0), props=self.props)
        return out


class AnnotatorComputeGhost(Contract):
    """an annotator's compute() at the call site inside AnnotatorRegistry.compute: recorded (each is proved on its own:
    contracts/bulkrp.py, bulkiou.py, bulkids.py + TrackCompute below)"""

    qualname = f"{GA}.compute"

    def apply(self, I, args, kw):
        I.ctx.ghost.setdefault("annotator_computes", []).append((args[0], args[1] if len(args) > 1 else kw.get("feature_keys")))
        return None


class RegistryCompute(Contract):
    """AnnotatorRegistry.compute(keys): every annotator's compute is called exactly once, in order, with the same keys"""

    qualname = f"{AR}.compute"
    props = ("C10",)

    def run(self, I, cfg):
        ctx = I.ctx
        reg, anns = make_registry(ctx)
        ctx.contracts[AnnotatorComputeGhost.qualname] = AnnotatorComputeGhost()
        keys = None if cfg.get("keys") == "none" else SymList.fresh(ctx, "feature_keys", Key)
        out = call_real(I, self.qualname, [reg] + ([keys] if keys is not None else []), {})
        q = "AnnotatorRegistry.compute"
        if out[0] != "return":
            ctx.oblige(f"C10/{q}/no-exception", False, props=self.props, note=str(out[1]))
            return out
        calls = ctx.ghost.get("annotator_computes", [])
        ok = len(calls) == len(anns) and all(c[0] is a and c[1] is keys for c, a in zip(calls, anns))
        ctx.oblige(f"C10/{q}/ensures:every-annotator-computes-once-with-the-given-keys", z3.BoolVal(ok), props=self.props)
        return out


TA = "funtracks.annotators._track_annotator.TrackAnnotator"


class AssignGhost(Contract):
    def __init__(self, fn):
        self.fn = fn
        self.qualname = f"{TA}.{fn}"

    def apply(self, I, args, kw):
        I.ctx.ghost.setdefault("assigned", []).append(self.fn)
        return None


class TrackCompute(Contract):
    """TrackAnnotator.compute(keys): bulk-assigns track ids iff the tracklet key is requested and active, lineage ids iff the
    lineage key is (the two assignments themselves: contracts/bulkids.py)"""

    qualname = f"{TA}.compute"
    props = ("C10", "C04", "C05")

    def run(self, I, cfg):
        ctx = I.ctx
        table = FeatTable.fresh(ctx, "trk")
        ann = Instance(repo().get_class(TA), {"all_features": table, "tracklet_key": lit_key("track_id"), "lineage_key": lit_key("lineage_id")})
        for fn in ("_assign_tracklet_ids", "_assign_lineage_ids"):
            c = AssignGhost(fn)
            ctx.contracts[c.qualname] = c
        keys = None if cfg.get("keys") == "none" else SymList.fresh(ctx, "feature_keys", Key)
        out = call_real(I, self.qualname, [ann] + ([keys] if keys is not None else []), {})
        q = "TrackAnnotator.compute"
        if out[0] != "return":
            ctx.oblige(f"C10/{q}/no-exception", False, props=self.props, note=str(out[1]))
            return out
        done = ctx.ghost.get("assigned", [])
        tk, lk = to_z3(lit_key("track_id"), Key), to_z3(lit_key("lineage_id"), Key)
        active = lambda k: AND(S(table.dom, k), S(table.act, k))
        wanted = (lambda k: active(k)) if keys is None else (lambda k: AND(active(k), in_list(keys, k)))
        ctx.oblige(f"C10/{q}/ensures:track-ids-assigned-iff-the-tracklet-key-is-requested-and-active",
                   z3.BoolVal(done.count("_assign_tracklet_ids") == 1) if "_assign_tracklet_ids" in done else z3.Not(wanted(tk)), props=self.props)
        ctx.oblige(f"C10/{q}/ensures:track-ids-assigned=>requested-and-active", wanted(tk) if "_assign_tracklet_ids" in done else z3.BoolVal(True), props=self.props)
        ctx.oblige(f"C10/{q}/ensures:lineage-ids-assigned-iff-the-lineage-key-is-requested-and-active",
                   z3.BoolVal(done.count("_assign_lineage_ids") == 1) if "_assign_lineage_ids" in done else z3.Not(wanted(lk)), props=self.props)
        ctx.oblige(f"C10/{q}/ensures:lineage-ids-assigned=>requested-and-active", wanted(lk) if "_assign_lineage_ids" in done else z3.BoolVal(True), props=self.props)
        ctx.oblige(f"C10/{q}/ensures:track-ids-before-lineage-ids", z3.BoolVal(done in ([], ["_assign_tracklet_ids"], ["_assign_lineage_ids"], ["_assign_tracklet_ids", "_assign_lineage_ids"])), props=self.props)
        return out


def lit_key(s):
    from pyvc.terms import lit
    return Sym(lit(s))


def units():
    from pyvc.verify import Unit
    return [Unit(AnnotatorFlags("activate_features"), {}), Unit(AnnotatorFlags("deactivate_features"), {}),
            Unit(RegistryFlags("activate_features"), {}), Unit(RegistryFlags("deactivate_features"), {}),
            Unit(TracksSwitch("enable_features"), {}), Unit(TracksSwitch("disable_features"), {}),
            Unit(RegistryCompute(), {"keys": "list"}), Unit(RegistryCompute(), {"keys": "none"}),
            Unit(TrackCompute(), {"keys": "list"}), Unit(TrackCompute(), {"keys": "none"})]
