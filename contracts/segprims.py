"""UpdateNodeSeg contract and the seg-world set-up (C07/C08/C09)."""
from __future__ import annotations

import z3

from pyvc import theory as T
from pyvc.segmodel import EXT as SEG_EXT
from pyvc.segmodel import PixSet, as_pixcore, rp_fun
from pyvc.spec import Contract
from pyvc.terms import AND, IMP, OR, Bool, Int, Key, Pix, Sym, Val, VNone, forall, to_z3
from pyvc.tracksmodel import a_, b_, k_

from . import common as C
from . import primitives as P
from . import segspec as S

p_, t_ = S.p_, S.t_
ACT = "funtracks.actions"


class RegionpropsExtendedAssumed(Contract):
    """assumed contract of regionprops_extended (skimage wrapper): one region per non-zero label; every
    attribute is a deterministic function of the mask and the spacing (pyvc/segmodel.py)"""

    qualname = "funtracks.annotators._regionprops_extended.regionprops_extended"

    def apply(self, I, args, kw):
        return SEG_EXT[self.qualname](I, args, kw)


class ComputeIousAssumed(Contract):
    """assumed contract of _compute_ious on two single-label frames: [] if the masks do not overlap, else
    [(label1, label2, |A & B| / |A | B|)]  (bounded stand-in: native/pure_bounded.py c18 / harness C09)"""

    qualname = "funtracks.annotators._compute_ious._compute_ious"

    def apply(self, I, args, kw):
        return SEG_EXT["model.compute_ious"](I, args, kw)


def install_seg(I, W):
    """externals + assumed contracts + invariants of a world with segmentation"""
    ctx = I.ctx
    I.ext.update(SEG_EXT)
    ctx.contracts[RegionpropsExtendedAssumed.qualname] = RegionpropsExtendedAssumed()
    ctx.contracts[ComputeIousAssumed.qualname] = ComputeIousAssumed()
    # getattr(region, name)
    old = I.ext.get("builtins.getattr")

    def _getattr(I_, args, kw):
        from pyvc.segmodel import Region
        if isinstance(args[0], Region):
            return SEG_EXT["model.region_getattr"](I_, args, kw)
        return old(I_, args, kw)
    I.ext["builtins.getattr"] = _getattr
    # the annotators' update() are used through their contracts (bodies proved in annotator_units())
    for which in ("rp", "edge"):
        c = AnnotatorUpdate(W, which)
        ctx.contracts[c.qualname] = c


def assume_seg_invariants(I, W, which=("S", "R", "Q")):
    ctx = I.ctx
    v = W.st.v
    W.spacing_tuple = to_z3(W.scale.spacing, Val)
    if "S" in which:
        for lbl, f in S.S_invariants(ctx, W, v):
            ctx.assume(f, "inv." + lbl)
    if "R" in which:
        for lbl, f, _ in S.R_clauses(ctx, W, v):
            ctx.assume(f, "inv." + lbl)
    if "Q" in which:
        for lbl, f, _ in S.Q_clause(ctx, W, v):
            ctx.assume(f, "inv." + lbl)


class UpdateNodeSegC(P.Prim):
    cls_qual = f"{ACT}.update_segmentation.UpdateNodeSeg"
    modifies = ("Seg", "A", "Ae")

    def symbolic_args(self, I, W):
        ctx = I.ctx
        return [W.tracks, Sym(ctx.fresh("node", Int)), PixSet.fresh(ctx, "pixels")], {"added": Sym(ctx.fresh("added", Bool))}

    def requires(self, W, s0, env):
        node = to_z3(env["node"], Int)
        core = as_pixcore(env["pixels"])
        added = to_z3(env["added"], Bool)
        v0 = s0.v
        return [
            ("node-in-graph", v0.N(node), ("C07",)),
            ("pixels-lie-in-the-node's-frame", core.t == T.tm(v0, W.K, node), ("C07", "C01")),
            ("added-pixels-are-background / removed-pixels-belong-to-the-node",
             forall([p_], IMP(core.mem(p_), v0.Seg(core.t, p_) == z3.If(added, 0, node))), ("C07", "C01")),
            ("a-shrunk-node-keeps-at-least-one-pixel(otherwise-the-node-is-deleted-instead)",
             IMP(z3.Not(added), z3.Exists([p_], AND(v0.Seg(core.t, p_) == node, z3.Not(core.mem(p_))))), ("C07",)),
            ("node-id-is-not-the-background-label", node != 0, ("C07",)),
        ]

    def ensures(self, W, s0, s1, env):
        ctx = self.ctx
        node = to_z3(env["node"], Int)
        core = as_pixcore(env["pixels"])
        added = to_z3(env["added"], Bool)
        v0, v1, K = s0.v, s1.v, W.K
        out = [("pixels-set-to-the-node-id-or-background",
                forall([t_, p_], v1.Seg(t_, p_) == z3.If(AND(t_ == core.t, core.mem(p_)), z3.If(added, node, 0), v0.Seg(t_, p_))), ("C07", "C01"))]
        _, rp, io, ov = rp_fun(ctx, v1.Seg)
        empty = forall([p_], v1.Seg(T.tm(v0, K, node), p_) != node)
        expr = v0.A(a_, k_)
        for ke, act, rpn in reversed(S.rp_keys(W)):
            val = z3.If(empty, VNone, S.stored(rp(rpn, T.tm(v0, K, node), node, S.spacing_term(W))))
            expr = z3.If(AND(a_ == node, k_ == ke, act), val, expr)
        out.append(("measurements-of-the-node-recomputed-from-the-new-mask", forall([a_, k_], v1.A(a_, k_) == expr), ("C08", "C01")))
        tm0 = lambda n: T.tm(v0, K, n)
        incident = OR(a_ == node, b_ == node)
        out.append(("iou-of-incident-edges-recomputed",
                    forall([a_, b_, k_], v1.Ae(a_, b_, k_) == z3.If(AND(v0.E(a_, b_), incident, k_ == W.iou_key, W.act["iou"]),
                                                                    io(tm0(a_), a_, tm0(b_), b_), v0.Ae(a_, b_, k_))), ("C09", "C01")))
        return out + P.frames(s0, s1, ["N", "E", "T2N", "L2N", "maxT", "maxL"])

    def fields(self, I, W, s0, env):
        return {"node": env["node"], "pixels": env["pixels"], "added": env["added"]}

    def check_fields(self, I, W, s0, env, inst):
        return [("records-node-pixels-added", z3.BoolVal(inst.fields["pixels"] is env["pixels"] and inst.fields["node"] is env["node"]), ("C01",)),
                ("records-added-flag", I.eq_formula(inst.fields["added"], env["added"]), ("C01",))]


# =============================================================================== annotator update contracts
from pyvc.values import Instance  # noqa: E402
from pyvc.verify import call_real, repo  # noqa: E402

RPA = "funtracks.annotators._regionprops_annotator.RegionpropsAnnotator"
EA = "funtracks.annotators._edge_annotator.EdgeAnnotator"


def _action_kind(action):
    return action.cls.name if isinstance(action, Instance) else "?"


def rp_update_ensures(ctx, W, s0, s1, action):
    """RegionpropsAnnotator.update: AddNode / UpdateNodeSeg recompute every *active* regionprops key of the
    action's node from its current mask (None when the mask is empty); every other action: nothing."""
    v0, v1, K = s0.v, s1.v, W.K
    if _action_kind(action) not in ("AddNode", "UpdateNodeSeg"):
        return P.frames(s0, s1, ["A"], props=("C08", "C10"))
    node = to_z3(action.fields["node"], Int)
    _, rp, _, _ = rp_fun(ctx, v0.Seg)
    t = T.tm(v0, K, node)
    empty = forall([p_], v0.Seg(t, p_) != node)
    expr = v0.A(a_, k_)
    for ke, act, rpn in reversed(S.rp_keys(W)):
        val = z3.If(empty, VNone, S.stored(rp(rpn, t, node, S.spacing_term(W))))
        expr = z3.If(AND(a_ == node, k_ == ke, act), val, expr)
    return [("active-measurements-of-the-node-recomputed-from-its-current-mask(only-active-keys-written)",
             forall([a_, k_], v1.A(a_, k_) == expr), ("C08", "C10"))]


def edge_update_ensures(ctx, W, s0, s1, action):
    """EdgeAnnotator.update: AddEdge recomputes the IoU of that edge, UpdateNodeSeg of every edge incident to the
    node - each endpoint's mask taken in its own frame; only when iou is active; every other action: nothing."""
    v0, v1, K = s0.v, s1.v, W.K
    kind = _action_kind(action)
    if kind not in ("AddEdge", "UpdateNodeSeg"):
        return P.frames(s0, s1, ["Ae"], props=("C09", "C10"))
    _, _, io, ov = rp_fun(ctx, v0.Seg)
    tm0 = lambda n: T.tm(v0, K, n)
    if kind == "AddEdge":
        u, w = (to_z3(x, Int) for x in action.fields["edge"])
        affected = AND(a_ == u, b_ == w)
    else:
        node = to_z3(action.fields["node"], Int)
        affected = AND(v0.E(a_, b_), OR(a_ == node, b_ == node))
    return [("iou-of-the-affected-edges-is-the-overlap-of-the-endpoint-masks-each-in-its-own-frame",
             forall([a_, b_, k_], v1.Ae(a_, b_, k_) == z3.If(AND(affected, k_ == W.iou_key, W.act["iou"]),
                                                             io(tm0(a_), a_, tm0(b_), b_), v0.Ae(a_, b_, k_))), ("C09", "C10"))]


class AnnotatorUpdate(Contract):
    """call-site + verification form of <Annotator>.update(action)"""

    def __init__(self, W, which):
        self.W, self.which = W, which
        self.qualname = (RPA if which == "rp" else EA) + ".update"
        self.fn = rp_update_ensures if which == "rp" else edge_update_ensures
        self.comp = "A" if which == "rp" else "Ae"

    def requires(self, W, s0, action):
        kind = _action_kind(action)
        v0, K = s0.v, W.K
        out = []
        if kind in ("AddNode", "UpdateNodeSeg"):
            node = to_z3(action.fields["node"], Int)
            out.append(("node-in-graph-with-a-time", AND(v0.N(node), z3.Not(v0.A(node, K.tk) == VNone)), ("C08",)))
            out.append(("label-0-is-background-not-a-node", z3.Not(v0.N(0)), ("C07",)))
        if kind == "AddEdge" and self.which == "edge":
            u, w = (to_z3(x, Int) for x in action.fields["edge"])
            out.append(("edge-in-graph-endpoints-have-times", AND(v0.E(u, w), z3.Not(v0.A(u, K.tk) == VNone), z3.Not(v0.A(w, K.tk) == VNone)), ("C09",)))
            out.append(("label-0-is-background-not-a-node", z3.Not(v0.N(0)), ("C07",)))
        if kind == "UpdateNodeSeg" and self.which == "edge":
            out.append(("forest-degrees(in<=1,out<=2)-and-times", AND(forall([a_], AND(v0.idg(a_) <= 1, v0.od(a_) <= 2)),
                                                                      forall([a_], IMP(v0.N(a_), z3.Not(v0.A(a_, K.tk) == VNone)))), ("C09",)))
        return out

    def apply(self, I, args, kw):
        W, ctx = self.W, I.ctx
        _self, action = args
        s0 = C.Snap(W, I)
        tag = f"call:{_action_kind(action)}/{'Regionprops' if self.which == 'rp' else 'Edge'}Annotator.update"
        for lbl, f, props in self.requires(W, s0, action):
            ctx.oblige(f"{tag}/requires:{lbl}", f, kind="pre", props=props)
        if _action_kind(action) not in (("AddNode", "UpdateNodeSeg") if self.which == "rp" else ("AddEdge", "UpdateNodeSeg")):
            return None
        C.havoc_components(I, W, [self.comp])
        s1 = C.Snap(W, I)
        for lbl, f, props in self.fn(ctx, W, s0, s1, action):
            ctx.assume(f, "ann." + self.which)
        return None


class AnnotatorUpdateBody(Contract):
    """verification of the real update() bodies against the same clauses"""

    props = ("C08", "C09", "C10")

    def __init__(self, which, kind):
        self.which, self.kind = which, kind
        self.qualname = (RPA if which == "rp" else EA) + ".update"

    def run(self, I, cfg):
        ctx = I.ctx
        W = C.world(I, has_seg=True, inv=())
        install_seg(I, W)
        W.spacing_tuple = to_z3(W.scale.spacing, Val)
        P.install_loopspecs(I, W)
        con = AnnotatorUpdate(W, self.which)
        kind = self.kind
        acts = repo()
        fields = {"tracks": W.tracks}
        if kind in ("AddNode", "UpdateNodeSeg"):
            fields["node"] = Sym(ctx.fresh("node", Int))
            cls = acts.get_class(f"{ACT}.add_delete_node.AddNode" if kind == "AddNode" else f"{ACT}.update_segmentation.UpdateNodeSeg")
        elif kind == "AddEdge":
            fields["edge"] = (Sym(ctx.fresh("u", Int)), Sym(ctx.fresh("w", Int)))
            cls = acts.get_class(f"{ACT}.add_delete_edge.AddEdge")
        else:
            fields["edge"] = (Sym(ctx.fresh("u", Int)), Sym(ctx.fresh("w", Int)))
            cls = acts.get_class(f"{ACT}.add_delete_edge.DeleteEdge")
        action = Instance(cls, fields)
        s0 = C.Snap(W, I)
        for lbl, f, props in con.requires(W, s0, action):
            ctx.assume(f)
        ann = W.rp if self.which == "rp" else W.ea
        out = call_real(I, self.qualname, [ann, action])
        q = ("RegionpropsAnnotator" if self.which == "rp" else "EdgeAnnotator") + f".update[{kind}]"
        if out[0] != "return":
            ctx.oblige(f"{q}/no-exception", False, props=self.props)
            return out
        s1 = C.Snap(W, I)
        for lbl, f, props in con.fn(ctx, W, s0, s1, action):
            ctx.oblige(f"{q}/ensures:{lbl}", f, props=props)
        comps = [c for c in C.ALL_COMPONENTS if c != con.comp]
        for lbl, f in C.unchanged(s0, s1, comps):
            ctx.oblige(f"{q}/ensures:{lbl}", f, props=("C16", "C10"))
        return out


def annotator_units():
    from pyvc.verify import Unit
    out = []
    for which, kinds in (("rp", ("AddNode", "UpdateNodeSeg", "DeleteEdge")), ("edge", ("AddEdge", "UpdateNodeSeg", "DeleteEdge"))):
        for k in kinds:
            out.append(Unit(AnnotatorUpdateBody(which, k), name=f"{'Regionprops' if which == 'rp' else 'Edge'}Annotator.update[{k}]"))
    return out
