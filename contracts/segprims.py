"""UpdateNodeSeg contract and the seg-world set-up (C07/C08/C09)."""
from __future__ import annotations

import z3

from pyvc import theory as T
from pyvc.segmodel import EXT as SEG_EXT
from pyvc.segmodel import PixSet, as_pixcore, rp_fun
from pyvc.spec import Contract
from pyvc.terms import AND, IMP, OR, Bool, Int, Key, Pix, Sym, Val, VNone, forall, to_z3
from pyvc.tracksmodel import a_, b_, k_

from . import common as C
from . import primitives as P
from . import segspec as S

p_, t_ = S.p_, S.t_
ACT = "funtracks.actions"


class RegionpropsExtendedAssumed(Contract):
    """assumed contract of regionprops_extended (skimage wrapper): one region per non-zero label; every
    attribute is a deterministic function of the mask and the spacing (pyvc/segmodel.py)"""

    qualname = "funtracks.annotators._regionprops_extended.regionprops_extended"

    def apply(self, I, args, kw):
        return SEG_EXT[self.qualname](I, args, kw)


class ComputeIousAssumed(Contract):
    """assumed contract of _compute_ious on two single-label frames: [] if the masks do not overlap, else
    [(label1, label2, |A & B| / |A | B|)]  (bounded stand-in: native/pure_bounded.py c18 / harness C09)"""

    qualname = "funtracks.annotators._compute_ious._compute_ious"

    def apply(self, I, args, kw):
        return SEG_EXT["model.compute_ious"](I, args, kw)


def install_seg(I, W):
    """externals + assumed contracts + invariants of a world with segmentation"""
    ctx = I.ctx
    I.ext.update(SEG_EXT)
    ctx.contracts[RegionpropsExtendedAssumed.qualname] = RegionpropsExtendedAssumed()
    ctx.contracts[ComputeIousAssumed.qualname] = ComputeIousAssumed()
    # getattr(region, name)
    old = I.ext.get("builtins.getattr")

    def _getattr(I_, args, kw):
        from pyvc.segmodel import Region
        if isinstance(args[0], Region):
            return SEG_EXT["model.region_getattr"](I_, args, kw)
        return old(I_, args, kw)
    I.ext["builtins.getattr"] = _getattr


def assume_seg_invariants(I, W, which=("S", "R", "Q")):
    ctx = I.ctx
    v = W.st.v
    W.spacing_tuple = to_z3(W.scale.spacing, Val)
    if "S" in which:
        for lbl, f in S.S_invariants(ctx, W, v):
            ctx.assume(f, "inv." + lbl)
    if "R" in which:
        for lbl, f, _ in S.R_clauses(ctx, W, v):
            ctx.assume(f, "inv." + lbl)
    if "Q" in which:
        for lbl, f, _ in S.Q_clause(ctx, W, v):
            ctx.assume(f, "inv." + lbl)


class UpdateNodeSegC(P.Prim):
    cls_qual = f"{ACT}.update_segmentation.UpdateNodeSeg"
    modifies = ("Seg", "A", "Ae")

    def symbolic_args(self, I, W):
        ctx = I.ctx
        return [W.tracks, Sym(ctx.fresh("node", Int)), PixSet.fresh(ctx, "pixels")], {"added": Sym(ctx.fresh("added", Bool))}

    def requires(self, W, s0, env):
        node = to_z3(env["node"], Int)
        core = as_pixcore(env["pixels"])
        added = to_z3(env["added"], Bool)
        v0 = s0.v
        return [
            ("node-in-graph", v0.N(node), ("C07",)),
            ("pixels-lie-in-the-node's-frame", core.t == T.tm(v0, W.K, node), ("C07", "C01")),
            ("added-pixels-are-background / removed-pixels-belong-to-the-node",
             forall([p_], IMP(core.mem(p_), v0.Seg(core.t, p_) == z3.If(added, 0, node))), ("C07", "C01")),
        ]

    def ensures(self, W, s0, s1, env):
        ctx = self.ctx
        node = to_z3(env["node"], Int)
        core = as_pixcore(env["pixels"])
        added = to_z3(env["added"], Bool)
        v0, v1, K = s0.v, s1.v, W.K
        out = [("pixels-set-to-the-node-id-or-background",
                forall([t_, p_], v1.Seg(t_, p_) == z3.If(AND(t_ == core.t, core.mem(p_)), z3.If(added, node, 0), v0.Seg(t_, p_))), ("C07", "C01"))]
        _, rp, io, ov = rp_fun(ctx, v1.Seg)
        empty = forall([p_], v1.Seg(T.tm(v0, K, node), p_) != node)
        expr = v0.A(a_, k_)
        for ke, act, rpn in reversed(S.rp_keys(W)):
            val = z3.If(empty, VNone, S.stored(rp(rpn, T.tm(v0, K, node), node, S.spacing_term(W))))
            expr = z3.If(AND(a_ == node, k_ == ke, act), val, expr)
        out.append(("measurements-of-the-node-recomputed-from-the-new-mask", forall([a_, k_], v1.A(a_, k_) == expr), ("C08", "C01")))
        tm0 = lambda n: T.tm(v0, K, n)
        incident = OR(a_ == node, b_ == node)
        out.append(("iou-of-incident-edges-recomputed",
                    forall([a_, b_, k_], v1.Ae(a_, b_, k_) == z3.If(AND(v0.E(a_, b_), incident, k_ == W.iou_key, W.act["iou"]),
                                                                    io(tm0(a_), a_, tm0(b_), b_), v0.Ae(a_, b_, k_))), ("C09", "C01")))
        return out + P.frames(s0, s1, ["N", "E", "T2N", "L2N", "maxT", "maxL"])

    def fields(self, I, W, s0, env):
        return {"node": env["node"], "pixels": env["pixels"], "added": env["added"]}

    def check_fields(self, I, W, s0, env, inst):
        return [("records-node-pixels-added", z3.BoolVal(inst.fields["pixels"] is env["pixels"] and inst.fields["node"] is env["node"]), ("C01",)),
                ("records-added-flag", I.eq_formula(inst.fields["added"], env["added"]), ("C01",))]
