"""C13 - funtracks.import_export._import_segmentation.relabel_segmentation (nested loop invariants).

Inputs: a label video src(t, p), a node table of n rows (node id nid(i), seg id sid(i), time tv(i)), a graph.
Documented preconditions: times are frame indices; a (time, seg id) pair names at most one node; ids are non-negative.

Ensures, with off = 1 if some node id is 0 else 0:
  E1  every source pixel of row i's (time, seg id) carries nid(i) + off
  E2  a pixel whose (frame, source label) is no row's (time, seg id) is background
  E3  the input array is not written
  E4  off = 1: the graph is relabelled in place, exactly once, every node k -> k + 1;  off = 0: never
"""
from __future__ import annotations

import z3

from pyvc import arraymodel as A
from pyvc import vecmodel as V
from pyvc.core import Unsupported
from pyvc.spec import Contract, LoopSpec
from pyvc.terms import AND, IMP, OR, Int, Pix, Sym, forall
from pyvc.values import ModelObj, SymDict
from pyvc.verify import call_real

RS = "funtracks.import_export._import_segmentation.relabel_segmentation"
p_ = A.p_
i_, j_ = V.i_, V.j_
t_ = z3.Int("t!r")


class GraphStub(ModelObj):
    """only the node set matters here; relabelling is an external call recorded as a ghost event"""

    type_names = ("DiGraph",)

    def __init__(self, ctx):
        self.nodes = SymDict.fresh(ctx, "gnodes", Int, Int)

    def do_nodes(self, I):
        return self.nodes.do_keys(I)


class World:
    pass


def havoc_out(I, fr):
    arr = fr.env["new_segmentation"]
    arr.L = I.ctx.fresh_fun("L", Int, Pix, Int)
    return arr


class OuterLoop(LoopSpec):
    """for t in np.unique(time_values)   (u = number of distinct times already processed)
       O1  rows whose time was processed: their source pixels carry the node id
       O2  frames of unprocessed times are still all background
       O3  pixels matching no row are background (in every frame)"""

    props = ("C13",)

    def __init__(self, W):
        self.W = W

    def havoc(self, I, fr, it, i, assigned):
        super().havoc(I, fr, it, i, assigned)
        havoc_out(I, fr)

    def havoc_local(self, I, fr, name, v):
        fr.env.pop(name, None)

    def inv(self, I, fr, it, u):
        W = self.W
        out = fr.env["new_segmentation"].L
        U, uo = it.U, it.uniq_of
        return [
            ("O1.processed-rows-relabelled", forall([i_, p_], IMP(AND(W.inr(i_), uo(i_) < u, W.src(W.tv(i_), p_) == W.sid(i_)), out(W.tv(i_), p_) == W.nid1(i_)))),
            ("O2.unprocessed-frames-background", forall([j_, p_], IMP(AND(j_ >= u, j_ < it.n), out(U(j_), p_) == 0))),
            ("O3.unmatched-pixels-background", forall([t_, p_], IMP(forall([i_], IMP(W.inr(i_), z3.Not(AND(W.tv(i_) == t_, W.sid(i_) == W.src(t_, p_))))), out(t_, p_) == 0))),
            ("input-not-written", z3.BoolVal(W.src_arr.L is W.src)),
        ]


class InnerLoop(LoopSpec):
    """for seg_id, node_id in seg_to_node.items()   (d items already applied to frame t)
       I1  the other frames are as at loop entry
       I2  a pixel of frame t whose source label is one of the first d keys carries that item's value
       I3  the other pixels of frame t are background"""

    props = ("C13",)

    def __init__(self, W):
        self.W = W

    def enter(self, I, fr, it):
        self.L_entry = fr.env["new_segmentation"].L

    def havoc(self, I, fr, it, i, assigned):
        super().havoc(I, fr, it, i, assigned)
        havoc_out(I, fr)

    def havoc_local(self, I, fr, name, v):
        fr.env.pop(name, None)

    def inv(self, I, fr, it, d):
        W = self.W
        out = fr.env["new_segmentation"].L
        t = fr.env["t"].e
        pd = it.pairdict
        L0 = self.L_entry
        return [
            ("I1.other-frames-kept", forall([t_, p_], IMP(t_ != t, out(t_, p_) == L0(t_, p_)))),
            ("I2.applied-items", forall([j_, p_], IMP(AND(j_ >= 0, j_ < d, W.src(t, p_) == pd.key(j_)), out(t, p_) == pd.val(j_)))),
            ("I3.rest-background", forall([p_], IMP(forall([j_], IMP(AND(j_ >= 0, j_ < d), pd.key(j_) != W.src(t, p_))), out(t, p_) == 0))),
            ("input-not-written", z3.BoolVal(W.src_arr.L is W.src)),
        ]


def relabel_nodes_ext(I, args, kw):
    I.ctx.ghost.setdefault("relabel_calls", []).append((args, dict(kw)))
    return args[0]


class RelabelSegmentation(Contract):
    qualname = RS
    props = ("C13",)

    @property
    def ext(self):
        e = dict(A.EXT)
        e.update(V.EXT)
        e["networkx.relabel_nodes"] = relabel_nodes_ext
        return e

    def run(self, I, cfg):
        ctx = I.ctx
        W = World()
        src_arr = A.LabelArr(ctx, name="src")
        nfr = src_arr.n
        n = ctx.fresh("nrows", Int)
        ctx.assume(AND(n >= 0, nfr >= 0))
        nid, sid, tv = (V.Vec(ctx, n, name=x) for x in ("nid", "sid", "tv"))
        W.src_arr, W.src = src_arr, src_arr.L
        W.inr = lambda i: AND(i >= 0, i < n)
        W.nid, W.sid, W.tv = nid.f, sid.f, tv.f
        # documented preconditions
        ctx.assume(forall([i_], IMP(W.inr(i_), AND(tv.f(i_) >= 0, tv.f(i_) < nfr, nid.f(i_) >= 0))), "pre.times-are-frame-indices")
        ctx.assume(forall([i_, j_], IMP(AND(W.inr(i_), W.inr(j_), i_ != j_), z3.Not(AND(tv.f(i_) == tv.f(j_), sid.f(i_) == sid.f(j_))))), "pre.time-segid-unique")
        has0 = ctx.fresh("some_node_id_is_0", z3.BoolSort())
        w0 = ctx.fresh("row_with_id_0", Int)
        ctx.assume(IMP(has0, AND(W.inr(w0), nid.f(w0) == 0)))
        ctx.assume(IMP(z3.Not(has0), forall([i_], IMP(W.inr(i_), nid.f(i_) != 0))))
        off = z3.If(has0, 1, 0)
        W.nid1 = lambda i: nid.f(i) + off
        graph = GraphStub(ctx)
        ctx.loopspecs[(RS, 0)] = OuterLoop(W)
        ctx.loopspecs[(RS, 1)] = InnerLoop(W)
        out = call_real(I, RS, [src_arr, graph, nid, sid, tv], {})
        q = "relabel_segmentation"
        if out[0] != "return":
            ctx.oblige(f"C13/{q}/no-exception", False, props=self.props, note=str(out[1]))
            return out
        res = out[1]
        ok = isinstance(res, A.LabelArr) and res is not src_arr
        ctx.oblige(f"C13/{q}/ensures:returns-a-new-array", z3.BoolVal(ok), props=self.props)
        if not ok:
            return out
        L = res.L
        ctx.oblige(f"C13/{q}/ensures:E1.pixels-of-(time,seg-id)-carry-the-node-id(+1-if-id-0-exists)",
                   forall([i_, p_], IMP(AND(W.inr(i_), W.src(tv.f(i_), p_) == sid.f(i_)), L(tv.f(i_), p_) == W.nid1(i_))), props=self.props)
        ctx.oblige(f"C13/{q}/ensures:E2.background-everywhere-else",
                   forall([t_, p_], IMP(forall([i_], IMP(W.inr(i_), z3.Not(AND(tv.f(i_) == t_, sid.f(i_) == W.src(t_, p_))))), L(t_, p_) == 0)), props=self.props)
        ctx.oblige(f"C13/{q}/ensures:E3.input-array-not-written", z3.BoolVal(src_arr.L is W.src), props=self.props)
        ctx.oblige(f"C13/{q}/ensures:same-number-of-frames", AND(res.n == nfr, res.lead == src_arr.lead), props=self.props)
        calls = ctx.ghost.get("relabel_calls", [])
        k_ = z3.Int("k!g")
        if len(calls) == 0:
            ctx.oblige(f"C13/{q}/ensures:E4.graph-relabelled-iff-id-0-exists", z3.Not(has0), props=self.props)
        else:
            (args, kw) = calls[0]
            m = args[1] if len(args) > 1 else None
            shape_ok = len(calls) == 1 and args[0] is graph and isinstance(m, SymDict) and kw.get("copy") is False
            ctx.oblige(f"C13/{q}/ensures:E4.graph-relabelled-in-place-exactly-once", z3.BoolVal(bool(shape_ok)), props=self.props)
            ctx.oblige(f"C13/{q}/ensures:E4.graph-relabelled-iff-id-0-exists", has0, props=self.props)
            if shape_ok:
                ctx.oblige(f"C13/{q}/ensures:E4.every-node-k-becomes-k+1",
                           forall([k_], AND(m.has(k_) == graph.nodes.has(k_), IMP(graph.nodes.has(k_), z3.Select(m.val, k_) == k_ + 1))), props=self.props)
        return out


def units():
    from pyvc.verify import Unit
    return [Unit(RelabelSegmentation(), {})]
