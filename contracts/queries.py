"""C06 - bodies of SolutionTracks.get_track_neighbors / has_track_id_at_time against their query contracts
(the same clauses the user-action proofs assume at call sites, contracts/common.py)."""
from __future__ import annotations

import z3

from pyvc import theory as T
from pyvc.spec import Contract, LoopSpec
from pyvc.terms import AND, IMP, OR, Bool, Int, Sym, Val, VInt, VNone, forall, is_VInt, is_VNone, iv, to_z3
from pyvc.tracksmodel import a_
from pyvc.verify import call_real

from . import common as C

ST = "funtracks.data_model.solution_tracks.SolutionTracks"
j_ = z3.Int("j!q")


def members(W, v, tidv):
    return lambda n: AND(v.N(n), T.tid(v, W.K, n) == tidv)


class NeighborsLoop(LoopSpec):
    """`for cand in candidates` over the lookup list sorted by time, with `break` at the first later node.
    invariant(i): succ is None; the first i candidates are not later than `time`; pred is None iff none of them is
    earlier, else pred is one of them, earlier than `time`, and none of them lies strictly between pred and `time`"""

    props = ("C06", "C03")

    def __init__(self, W, tidv, t):
        self.W, self.tidv, self.t = W, tidv, t

    def enter(self, I, fr, it):
        self.it = it

    def havoc(self, I, fr, it, i, assigned):
        super().havoc(I, fr, it, i, assigned - {"pred", "succ"})
        fr.env["pred"] = Sym(I.ctx.fresh("pred", Val))

    def inv(self, I, fr, it, i):
        W, t = self.W, self.t
        v = I.ctx.state.v
        tm = lambda n: T.tm(v, W.K, n)
        pred, succ = fr.env["pred"], fr.env["succ"]
        pe = to_z3(pred, Val)
        return [
            ("succ-not-found-yet", z3.BoolVal(succ is None)),
            ("seen-candidates-not-later", forall([j_], IMP(AND(j_ >= 0, j_ < i), tm(it.get(j_).e) <= t))),
            ("pred-none-iff-no-earlier-candidate", IMP(is_VNone(pe), forall([j_], IMP(AND(j_ >= 0, j_ < i), z3.Not(tm(it.get(j_).e) < t))))),
            ("pred-is-the-latest-earlier-candidate", IMP(z3.Not(is_VNone(pe)), AND(
                is_VInt(pe), tm(iv(pe)) < t, z3.Exists([j_], AND(j_ >= 0, j_ < i, it.get(j_).e == iv(pe))),
                forall([j_], IMP(AND(j_ >= 0, j_ < i, tm(it.get(j_).e) < t), tm(it.get(j_).e) <= tm(iv(pe))))))),
        ]


class QueryBody(Contract):
    props = ("C06", "C03")

    def __init__(self, which):
        self.which = which
        self.qualname = f"{ST}.{which}"

    def run(self, I, cfg):
        ctx = I.ctx
        I.safety_props = ("C06",)
        W = C.world(I, has_seg=False, inv=("forest", "trackids", "b1"))
        v, K = W.st.v, W.K
        tid_arg = ctx.fresh("track_id", Int)
        t = ctx.fresh("time", Int)
        tidv = VInt(tid_arg)
        mem = members(W, v, tidv)
        tm = lambda n: T.tm(v, K, n)
        muts0 = ctx.ghost["muts"]
        q = self.which
        if self.which == "get_track_neighbors":
            ctx.loopspecs[(self.qualname, 0)] = NeighborsLoop(W, tidv, t)
            out = call_real(I, self.qualname, [W.tracks, Sym(tid_arg), Sym(t)])
            if out[0] != "return":
                ctx.oblige(f"C06/{q}/no-exception", False, props=self.props)
                return out
            pred, succ = out[1]
            for nm, val, rel, ext in (("pred", pred, lambda n: tm(n) < t, lambda n, m: tm(n) <= tm(m)),
                                      ("succ", succ, lambda n: tm(n) > t, lambda n, m: tm(n) >= tm(m))):
                e = to_z3(val, Val)
                ctx.oblige(f"C06/{q}/ensures:{nm}-is-None-iff-the-track-has-no-node-{'before' if nm == 'pred' else 'after'}-time",
                           is_VNone(e) == forall([a_], IMP(mem(a_), z3.Not(rel(a_)))), props=self.props)
                ctx.oblige(f"C06/{q}/ensures:{nm}-carries-the-track-id-and-is-the-{'latest-earlier' if nm == 'pred' else 'earliest-later'}-node",
                           IMP(z3.Not(is_VNone(e)), AND(is_VInt(e), mem(iv(e)), rel(iv(e)), forall([a_], IMP(AND(mem(a_), rel(a_)), ext(a_, iv(e)))))),
                           props=self.props)
        else:
            out = call_real(I, self.qualname, [W.tracks, Sym(tid_arg), Sym(t)])
            if out[0] != "return":
                ctx.oblige(f"C06/{q}/no-exception", False, props=self.props)
                return out
            r = out[1]
            re = r.e if isinstance(r, Sym) else z3.BoolVal(bool(r))
            ctx.oblige(f"C06/{q}/ensures:true-iff-some-node-of-the-track-is-at-that-time",
                       re == z3.Exists([a_], AND(mem(a_), tm(a_) == t)), props=self.props)
        ctx.oblige(f"C06/{q}/ensures:graph-and-lookups-unchanged(as bags)", z3.BoolVal(ctx.ghost["muts"] == muts0), props=("C06", "C16"))
        return out


def units():
    from pyvc.verify import Unit
    return [Unit(QueryBody("get_track_neighbors")), Unit(QueryBody("has_track_id_at_time"))]
