"""C02 - contracts of funtracks.actions.action_history.ActionHistory against a ghost timeline.

Ghost state (DESIGN.md 7/C02):  TL : Int -> St  (timeline of visited states, length nU+1),
cursor cur = nU - nR, world = TL[cur].  Every action record `a` carries ghost src(a), dst(a):
the states before / after it was applied.  Assumed contract of `a.inverse()` (this is the
conclusion of C01, recorded as a dependency): requires world == dst(a); afterwards
world == src(a) and the returned record r has src(r) == dst(a), dst(r) == src(a).

Representation invariant INV_H(U, R, TL, world):
   0 <= nR <= nU,  world = TL[nU - nR]
   forall i in [0,nU):  src(U[i]) = TL[i]      and dst(U[i]) = TL[i+1]
   forall j in [0,nR):  src(R[j]) = TL[nU - j] and dst(R[j]) = TL[nU-1-j]
"""
from __future__ import annotations

import z3

from pyvc.spec import Contract
from pyvc.terms import AND, IMP, Int, Sym, forall
from pyvc.tracksmodel import ActRef, St
from pyvc.values import BoundModel, Instance, ModelObj, SymList
from pyvc.verify import call_real, repo

AH = "funtracks.actions.action_history.ActionHistory"
src = z3.Function("src", ActRef, St)
dst = z3.Function("dst", ActRef, St)
i_ = z3.Int("i!h")


class _ActionOps(ModelObj):
    def __init__(self, a):
        self.a = a

    def do_inverse(self, I):
        ctx = I.ctx
        g = ctx.ghost
        ctx.oblige(f"{ctx.func}/call/Action.inverse/requires:world==dst(action)", g["world"] == dst(self.a),
                   kind="pre", props=("C02", "C01"))
        r = ctx.fresh("inv", ActRef)
        ctx.assume(AND(src(r) == dst(self.a), dst(r) == src(self.a)))
        g["world"] = src(self.a)
        g["inverse_calls"] = g.get("inverse_calls", 0) + 1
        return Sym(r)


def _act_attr(I, sym, name):
    if name == "inverse":
        return BoundModel(_ActionOps(sym.e), "inverse")
    raise AttributeError(name)


def inv_h(U, R, tl, world):
    nU, nR = U.n, R.n
    return [
        ("sizes", AND(nU >= 0, nR >= 0, nR <= nU)),
        ("world", world == tl(nU - nR)),
        ("undo_chain", forall([i_], IMP(AND(i_ >= 0, i_ < nU),
                                      AND(src(U.get(i_).e) == tl(i_), dst(U.get(i_).e) == tl(i_ + 1))))),
        ("redo_chain", forall([i_], IMP(AND(i_ >= 0, i_ < nR),
                                      AND(src(R.get(i_).e) == tl(nU - i_), dst(R.get(i_).e) == tl(nU - 1 - i_))))),
    ]


_dummy = z3.Function("dummy!act", Int, ActRef)


def as_symlist(I, x):
    """A stack that the code replaced by a fresh concrete list (`self.redo_stack = []`)."""
    if isinstance(x, SymList):
        return x
    if isinstance(x, list) and not x:
        return SymList(z3.IntVal(0), lambda i: Sym(_dummy(i)), elem_sort=ActRef)
    return I.to_symseq(x)


def same_list(L0, n0, f0, L1):
    k = z3.Int("k!same")
    return AND(L1.n == n0, forall([k], IMP(AND(k >= 0, k < n0), L1.get(k).e == f0(k).e)))


class HistoryMethod(Contract):
    props = ("C02",)
    sym_attr = {"ActRef": _act_attr}

    def __init__(self, method):
        self.method = method
        self.qualname = f"{AH}.{method}"

    def entry(self, I):
        ctx = I.ctx
        cls = repo().get_class(AH)
        U = SymList.fresh(ctx, "U", ActRef)
        R = SymList.fresh(ctx, "R", ActRef)
        ah = Instance(cls, {"undo_stack": U, "redo_stack": R})
        tl = ctx.fresh_fun("TL", Int, St)
        world = ctx.fresh("world", St)
        ctx.ghost["world"] = world
        for _, f in inv_h(U, R, tl, world):
            ctx.assume(f)
        return ah, U, R, tl, world

    def run(self, I, config):
        ctx = I.ctx
        ah, U, R, tl, world0 = self.entry(I)
        nU0, nR0, fU0, fR0 = U.n, R.n, U.f, R.f
        cur0 = nU0 - nR0
        q = self.qualname
        P = ("C02",)
        if self.method == "add_new_action":
            act = ctx.fresh("action", ActRef)
            new = ctx.fresh("newstate", St)
            # caller: the action was just applied in state TL[cur] and produced `new`
            ctx.assume(AND(src(act) == tl(cur0), dst(act) == new))
            ctx.ghost["world"] = new
            out = call_real(I, q, [ah, Sym(act)])
            if out[0] != "return":
                ctx.oblige(f"{q}/no-exception", False, props=P)
                return out
            U1, R1 = as_symlist(I, ah.fields["undo_stack"]), as_symlist(I, ah.fields["redo_stack"])
            # TL' = TL ++ reverse(TL[cur .. nU-1]) ++ [new]      (absolute-index definition)
            tl1 = ctx.fresh_fun("TL1", Int, St)
            m = z3.Int("m!tl")
            ctx.assume(forall([m], tl1(m) == z3.If(m <= nU0, tl(m), z3.If(m <= nU0 + nR0, tl(2 * nU0 - m), new))))
            ctx.oblige(f"{q}/ensures/timeline-length:len(TL')==len(TL)+(len(TL)-1-cur)+1", U1.n + 1 == (nU0 + 1) + nR0 + 1, props=P)
            ctx.oblige(f"{q}/ensures/cursor-at-last", AND(R1.n == 0, U1.n - R1.n == U1.n), props=P)
            for lbl, f in inv_h(U1, R1, tl1, ctx.ghost["world"]):
                ctx.oblige(f"{q}/ensures/INV_H.{lbl}", f, props=P)
            ctx.oblige(f"{q}/ensures/last-entry-is-the-new-action", U1.get(U1.n - 1).e == act, props=P)
            ctx.oblige(f"{q}/ensures/no-inverse-applied", ctx.ghost.get("inverse_calls", 0) == 0, props=P)
            return out
        out = call_real(I, q, [ah])
        if out[0] != "return":
            ctx.oblige(f"{q}/no-exception", False, props=P)
            return out
        res = out[1]
        U1, R1 = as_symlist(I, ah.fields["undo_stack"]), as_symlist(I, ah.fields["redo_stack"])
        w1 = ctx.ghost["world"]
        if self.method == "_undo_pointer":
            ctx.oblige(f"{q}/ensures/result==cur-1", z3.simplify(res.e if isinstance(res, Sym) else z3.IntVal(res)) == cur0 - 1, props=P)
            return out
        can = (cur0 > 0) if self.method == "undo" else (nR0 > 0)
        rb = res.e if isinstance(res, Sym) else z3.BoolVal(bool(res))
        ctx.oblige(f"{q}/ensures/returns-True-iff-there-is-a-state-to-step-to", rb == can, props=P)
        step = -1 if self.method == "undo" else 1
        ctx.oblige(f"{q}/ensures/stepped:world==TL[cur{step:+d}]", IMP(can, w1 == tl(cur0 + step)), props=P)
        ctx.oblige(f"{q}/ensures/nothing-to-do:world-unchanged", IMP(z3.Not(can), w1 == world0), props=P)
        ctx.oblige(f"{q}/ensures/nothing-to-do:stacks-unchanged",
                   IMP(z3.Not(can), AND(same_list(U, nU0, fU0, U1), same_list(R, nR0, fR0, R1))), props=P)
        ctx.oblige(f"{q}/ensures/cursor-moves-by-one", IMP(can, U1.n - R1.n == cur0 + step), props=P)
        ctx.oblige(f"{q}/ensures/timeline-not-rewritten:undo-stack-unchanged", same_list(U, nU0, fU0, U1), props=P)
        n_inv = ctx.ghost.get("inverse_calls", 0)
        ctx.oblige(f"{q}/ensures/exactly-one-inverse-iff-stepped",
                   z3.BoolVal(True) if False else (can == z3.BoolVal(n_inv == 1)) if n_inv in (0, 1) else z3.BoolVal(False), props=P)
        for lbl, f in inv_h(U1, R1, tl, w1):
            ctx.oblige(f"{q}/ensures/INV_H.{lbl}", f, props=P)
        return out


def units():
    from pyvc.verify import Unit
    return [Unit(HistoryMethod(m)) for m in ("_undo_pointer", "add_new_action", "undo", "redo")]


class TracksUndoRedo(Contract):
    """Tracks.undo / Tracks.redo: step the history and emit refresh exactly when a step was made."""

    props = ("C02", "C20")
    sym_attr = {"ActRef": _act_attr}

    def __init__(self, method):
        self.method = method
        self.qualname = f"funtracks.data_model.tracks.Tracks.{method}"

    def run(self, I, config):
        from pyvc.tracksfactory import make_tracks
        ctx = I.ctx
        W = make_tracks(I, has_seg=False)
        U, R = W.ah.fields["undo_stack"], W.ah.fields["redo_stack"]
        tl = ctx.fresh_fun("TL", Int, St)
        world = ctx.fresh("world", St)
        ctx.ghost["world"] = world
        for _, f in inv_h(U, R, tl, world):
            ctx.assume(f)
        nU0, nR0 = U.n, R.n
        cur0 = nU0 - nR0
        muts0 = ctx.ghost["muts"]
        out = call_real(I, self.qualname, [W.tracks])
        q = f"Tracks.{self.method}"
        if out[0] != "return":
            ctx.oblige(f"{q}/no-exception", False, props=self.props)
            return out
        res = out[1]
        rb = res.e if isinstance(res, Sym) else z3.BoolVal(bool(res))
        can = (cur0 > 0) if self.method == "undo" else (nR0 > 0)
        step = -1 if self.method == "undo" else 1
        em = ctx.ghost["emits"]
        ctx.oblige(f"C02/{q}/ensures:returns-True-iff-there-is-a-state-to-step-to", rb == can, props=("C02",))
        ctx.oblige(f"C02/{q}/ensures:world-steps-along-the-timeline",
                   ctx.ghost["world"] == z3.If(can, tl(cur0 + step), world), props=("C02",))
        ctx.oblige(f"C20/{q}/ensures:one-refresh-iff-stepped", can == z3.BoolVal(len(em) == 1 and len(em[0]) == 0)
                   if len(em) in (0, 1) else z3.BoolVal(False), props=("C20",))
        ctx.oblige(f"C02/{q}/ensures:no-direct-mutation-of-the-tracks", z3.BoolVal(ctx.ghost["muts"] == muts0), props=("C02", "C16"))
        return out


def tracks_units():
    from pyvc.verify import Unit
    return [Unit(TracksUndoRedo(m)) for m in ("undo", "redo")]
