"""C04 / C05 / C06 - the bulk assignment of track ids and lineage ids at construction
(TrackAnnotator._assign_tracklet_ids, _assign_lineage_ids, _assign_ids, Tracks._set_nodes_attr).

This is the base case of the invariants that the edit proofs preserve.

Abstract state: graph (N, E, od = out-degree, children ch(p, j)), node attributes A(n, k) (versioned), the annotator's
lookups and maxima.  weakly_connected_components(G) is the external model of contracts/tracklabel.py: a partition comp of
the nodes into non-empty classes, each yielded once, with  E_G(a, b) => comp(a) = comp(b).

Ensures of _assign_tracklet_ids (every graph):
  G1  the components are taken of the graph minus the out-edges of nodes with out-degree >= 2 (the original graph is not modified)
  G2  tid(n) = 1 + comp(n) for every node: positive ints; every other attribute unchanged
  G3  T1 (local): an edge leaving a node of out-degree 1 joins two nodes with the same track id
  G4  the lookup lists, for every id, exactly the nodes carrying it, each once (B1); its keys are 1..m; max_tracklet_id = m = number of
      components, so every id is <= the maximum (B2)
_assign_lineage_ids: the same with the components of the whole graph, giving L1 (every edge joins equal lineage ids).
'Distinct segment heads / distinct roots carry distinct ids' (T2 / L2) is the statement comp(a) != comp(b) for two heads - a fact about
weakly connected components of a forest (Lean: tracklet_iff_segment / lineage_iff_connected, converse directions), not re-proved here.
"""
from __future__ import annotations

import z3

from pyvc.core import Unsupported
from pyvc.spec import Contract, LoopSpec
from pyvc.terms import AND, IMP, OR, Bool, Int, Key, Sym, Val, VInt, forall, is_VInt, iv, lit, to_z3
from pyvc.values import Instance, ModelObj, SymList
from pyvc.verify import call_real, repo

from .tracklabel import Components, CompSet

TA = "funtracks.annotators._track_annotator.TrackAnnotator"
TR = "funtracks.data_model.tracks.Tracks"
a_, b_, i_, j_ = z3.Ints("a!g b!g i!g j!g")
k_ = z3.Const("k!g", Key)


class World:
    def __init__(self, ctx):
        self.ctx = ctx
        self.N = ctx.fresh_fun("N", Int, Bool)
        self.E = ctx.fresh_fun("E", Int, Int, Bool)
        self.od = ctx.fresh_fun("out_degree", Int, Int)
        self.ch = ctx.fresh_fun("child", Int, Int, Int)
        self.chpos = ctx.fresh_fun("child_pos", Int, Int, Int)
        self.A = ctx.fresh_fun("A", Int, Key, Val)
        self.nn = ctx.fresh("n_nodes", Int)
        self.at = ctx.fresh_fun("node_at", Int, Int)
        self.pos = ctx.fresh_fun("node_pos", Int, Int)
        N, E, od, ch, chpos = self.N, self.E, self.od, self.ch, self.chpos
        ctx.assume(self.nn >= 0)
        ctx.assume(forall([i_], IMP(AND(i_ >= 0, i_ < self.nn), AND(N(self.at(i_)), self.pos(self.at(i_)) == i_))), "graph")
        ctx.assume(forall([a_], IMP(N(a_), AND(self.pos(a_) >= 0, self.pos(a_) < self.nn, self.at(self.pos(a_)) == a_))), "graph")
        ctx.assume(forall([a_, b_], IMP(E(a_, b_), AND(N(a_), N(b_)))), "graph")
        # successors(p): the children of p, each once; their number is the out-degree
        ctx.assume(forall([a_], od(a_) >= 0), "graph")
        ctx.assume(forall([a_, j_], IMP(AND(N(a_), j_ >= 0, j_ < od(a_)), AND(E(a_, ch(a_, j_)), chpos(a_, ch(a_, j_)) == j_))), "graph")
        ctx.assume(forall([a_, b_], IMP(E(a_, b_), AND(chpos(a_, b_) >= 0, chpos(a_, b_) < od(a_), ch(a_, chpos(a_, b_)) == b_))), "graph")
        self.wcc_calls = []
        self.E_now = self.E
        self.graph_writes = 0


class NodeAttrView(ModelObj):
    def __init__(self, W, n):
        self.W, self.n = W, n

    def m_setitem(self, I, k, v):
        W = self.W
        ke, ve = to_z3(k, Key), to_z3(v, Val)
        old, n = W.A, self.n
        W.A = W.ctx.fresh_fun("A", Int, Key, Val)
        W.ctx.assume(forall([a_, k_], W.A(a_, k_) == z3.If(AND(a_ == n, k_ == ke), ve, old(a_, k_))))


class NodesView(ModelObj):
    def __init__(self, W):
        self.W = W

    def m_getitem(self, I, n):
        return NodeAttrView(self.W, to_z3(n, Int))


class Graph(ModelObj):
    type_names = ("DiGraph",)

    def __init__(self, W):
        self.W = W

    def attr_nodes(self, I):
        return NodesView(self.W)

    def do_out_degree(self, I):
        W = self.W
        return SymList(W.nn, lambda i: (Sym(W.at(i)), Sym(W.od(W.at(i)))))

    def do_successors(self, I, n):
        W = self.W
        ne = to_z3(n, Int)
        out = SymList(W.od(ne), lambda j: Sym(W.ch(ne, j)), elem_sort=Int)
        out.parent = ne
        return out

    def do_copy(self, I):
        return GraphCopy(self.W)


class GraphCopy(ModelObj):
    type_names = ("DiGraph",)

    def __init__(self, W):
        self.W = W
        self.E = W.E

    def do_remove_edge(self, I, a, b):
        ae, be = to_z3(a, Int), to_z3(b, Int)
        old = self.E
        self.E = self.W.ctx.fresh_fun("Ec", Int, Int, Bool)
        self.W.ctx.assume(forall([a_, b_], self.E(a_, b_) == AND(old(a_, b_), z3.Not(AND(a_ == ae, b_ == be)))))


class CompSet2(CompSet):
    def m_to_list(self, I):
        return self.m_iter(I)


def wcc_ext(I, args, kw):
    g = args[0]
    if not isinstance(g, (Graph, GraphCopy)):
        raise Unsupported("weakly_connected_components argument")
    W = g.W
    Ecall = g.E if isinstance(g, GraphCopy) else W.E
    C = Components(I.ctx, W, Ecall)
    C.W_N = W.N
    W.wcc_calls.append((Ecall, C, isinstance(g, GraphCopy)))
    out = SymList(C.m, lambda j: CompSet2(C, j))
    out.C = C
    return out


class IdDict(ModelObj):
    """id -> list of nodes, filled by `d[_id] = nodes`: key(i), cnt(i, n)"""

    type_names = ("dict",)

    def __init__(self, ctx):
        self.ctx = ctx
        self.key = ctx.fresh_fun("ids_key", Int, Bool)
        self.cnt = ctx.fresh_fun("ids_cnt", Int, Int, Int)

    @staticmethod
    def empty(ctx):
        d = IdDict(ctx)
        ctx.assume(forall([i_], z3.Not(d.key(i_))))
        ctx.assume(forall([i_, a_], d.cnt(i_, a_) == 0))
        return d

    def havoc(self):
        self.key = self.ctx.fresh_fun("ids_key", Int, Bool)
        self.cnt = self.ctx.fresh_fun("ids_cnt", Int, Int, Int)

    def m_setitem(self, I, i, nodes):
        if not (isinstance(nodes, SymList) and hasattr(nodes, "comp_index")):
            raise Unsupported("id dictionary value")
        ie = to_z3(i, Int)
        C, j = nodes.C, nodes.comp_index
        ok, oc = self.key, self.cnt
        self.havoc()
        # the list holds exactly the nodes of component j, each once
        self.ctx.assume(forall([i_], self.key(i_) == OR(ok(i_), i_ == ie)))
        self.ctx.assume(forall([i_, a_], self.cnt(i_, a_) == z3.If(i_ == ie, z3.If(AND(C.W_N(a_), C.comp(a_) == j), 1, 0), oc(i_, a_))))


# ------------------------------------------------------------------------------------------------ loop invariants
class SetAttrLoop(LoopSpec):
    """Tracks._set_nodes_attr: for node, value in zip(nodes, values): graph.nodes[node][attr] = value"""

    props = ("C04", "C05", "C06", "C10")

    def __init__(self, W):
        self.W = W

    def enter(self, I, fr, it):
        self.A0 = self.W.A
        self.nodes, self.values, self.attr = fr.env["nodes"], fr.env["values"], to_z3(fr.env["attr"], Key)

    def havoc(self, I, fr, it, i, assigned):
        for nm in ("node", "value"):
            fr.env.pop(nm, None)
        self.W.A = I.ctx.fresh_fun("A", Int, Key, Val)

    def inv(self, I, fr, it, i):
        W, nodes, vals = self.W, self.nodes, self.values
        C, j = nodes.C, nodes.comp_index
        member = lambda n: AND(W.N(n), C.comp(n) == j, C.cpos(n) < i)
        return [("first-i-nodes-of-the-list-carry-their-value",
                 forall([a_, k_], W.A(a_, k_) == z3.If(AND(k_ == self.attr, member(a_)), to_z3(vals.get(C.cpos(a_)), Val), self.A0(a_, k_))))]


class AssignLoop(LoopSpec):
    """_assign_ids: for component in components  (j components labelled, _id = j + 1)"""

    props = ("C04", "C05", "C06", "C10")

    def __init__(self, W):
        self.W = W

    def enter(self, I, fr, it):
        self.A0 = self.W.A
        self.C = it.C
        self.key = to_z3(fr.env["key"], Key)
        if not isinstance(fr.env["id_to_node"], IdDict):
            fr.env["id_to_node"] = IdDict.empty(I.ctx)

    def havoc(self, I, fr, it, i, assigned):
        for nm in ("component", "nodes", "ids"):
            fr.env.pop(nm, None)
        fr.env["_id"] = Sym(I.ctx.fresh("_id", Int))
        fr.env["id_to_node"].havoc()
        self.W.A = I.ctx.fresh_fun("A", Int, Key, Val)

    def inv(self, I, fr, it, j):
        W, C = self.W, self.C
        d = fr.env["id_to_node"]
        idv = to_z3(fr.env["_id"], Int)
        return assign_clauses(W, C, self.A0, self.key, d, idv, j)


def assign_clauses(W, C, A0, key, d, idv, j):
    return [
        ("next-id-is-1+number-of-labelled-components", idv == j + 1),
        ("labelled-nodes-carry-1+their-component-index-everything-else-unchanged",
         forall([a_, k_], W.A(a_, k_) == z3.If(AND(k_ == key, W.N(a_), C.comp(a_) < j), VInt(C.comp(a_) + 1), A0(a_, k_)))),
        ("lookup-keys-are-1..j", forall([i_], d.key(i_) == AND(i_ >= 1, i_ <= j))),
        ("lookup-lists-exactly-the-nodes-of-each-labelled-component-once",
         forall([i_, a_], d.cnt(i_, a_) == z3.If(AND(i_ >= 1, i_ <= j, W.N(a_), C.comp(a_) == i_ - 1), 1, 0))),
    ]


class ParentsLoop(LoopSpec):
    """_assign_tracklet_ids: for parent in parents  (k dividing nodes done)"""

    props = ("C04", "C10")

    def __init__(self, W):
        self.W = W

    def havoc(self, I, fr, it, i, assigned):
        for nm in ("parent", "daughters", "daughter"):
            fr.env.pop(nm, None)
        fr.env["graph_copy"].E = I.ctx.fresh_fun("Ec", Int, Int, Bool)

    def inv(self, I, fr, it, k):
        W = self.W
        Ec = fr.env["graph_copy"].E
        rank = it.rank
        return [("copy-lost-exactly-the-out-edges-of-the-first-k-dividing-nodes",
                 forall([a_, b_], Ec(a_, b_) == AND(W.E(a_, b_), z3.Not(AND(W.od(a_) >= 2, rank(W.pos(a_)) < k)))))]


class DaughtersLoop(LoopSpec):
    """for daughter in daughters  (i children of the current parent cut off)"""

    props = ("C04", "C10")

    def __init__(self, W):
        self.W = W

    def enter(self, I, fr, it):
        self.E_entry = fr.env["graph_copy"].E
        self.p = to_z3(fr.env["parent"], Int)

    def havoc(self, I, fr, it, i, assigned):
        fr.env.pop("daughter", None)
        fr.env["graph_copy"].E = I.ctx.fresh_fun("Ec", Int, Int, Bool)

    def inv(self, I, fr, it, i):
        W, p = self.W, self.p
        Ec = fr.env["graph_copy"].E
        return [("first-i-out-edges-of-the-parent-removed",
                 forall([a_, b_], Ec(a_, b_) == AND(self.E_entry(a_, b_), z3.Not(AND(a_ == p, W.E(p, b_), W.chpos(p, b_) < i)))))]


# ------------------------------------------------------------------------------------------------ contracts
def make(ctx):
    W = World(ctx)
    R = repo()
    g = Graph(W)
    tracks = Instance(R.get_class("funtracks.data_model.solution_tracks.SolutionTracks"), {"graph": g})
    cT0, cL0 = object(), object()
    ta = Instance(R.get_class(TA), {"tracks": tracks, "tracklet_key": lit("track_id"), "lineage_key": lit("lineage_id"),
                                    "max_tracklet_id": 0, "max_lineage_id": 0, "tracklet_id_to_nodes": cT0, "lineage_id_to_nodes": cL0})
    return W, g, tracks, ta


class BulkAssign(Contract):
    props = ("C04", "C05", "C06", "C10")

    def __init__(self, which):
        self.which = which
        self.fn = "_assign_tracklet_ids" if which == "trk" else "_assign_lineage_ids"
        self.qualname = f"{TA}.{self.fn}"
        self.ext = {"networkx.weakly_connected_components": wcc_ext}

    def run(self, I, cfg):
        ctx = I.ctx
        W, g, tracks, ta = make(ctx)
        A0 = W.A
        ctx.loopspecs[(f"{TA}._assign_ids", 0)] = AssignLoop(W)
        ctx.loopspecs[(f"{TR}._set_nodes_attr", 0)] = SetAttrLoop(W)
        if self.which == "trk":
            ctx.loopspecs[(self.qualname, 0)] = ParentsLoop(W)
            ctx.loopspecs[(self.qualname, 1)] = DaughtersLoop(W)
        out = call_real(I, self.qualname, [ta], {})
        q = self.fn
        P = ("C04", "C06", "C10") if self.which == "trk" else ("C05", "C06", "C10")
        if out[0] != "return":
            ctx.oblige(f"{P[0]}/{q}/no-exception", False, props=P, note=str(out[1]))
            return out
        ok = len(W.wcc_calls) == 1
        ctx.oblige(f"{P[0]}/{q}/ensures:components-taken-once", z3.BoolVal(ok), props=P)
        if not ok:
            return out
        Ecall, C, on_copy = W.wcc_calls[0]
        key = lit("track_id") if self.which == "trk" else lit("lineage_id")
        other = lit("lineage_id") if self.which == "trk" else lit("track_id")
        if self.which == "trk":
            ctx.oblige(f"C04/{q}/ensures:G1.components-of-the-graph-minus-out-edges-of-dividing-nodes",
                       AND(z3.BoolVal(on_copy), forall([a_, b_], Ecall(a_, b_) == AND(W.E(a_, b_), W.od(a_) < 2))), props=P)
        else:
            ctx.oblige(f"C05/{q}/ensures:G1.components-of-the-whole-graph", forall([a_, b_], Ecall(a_, b_) == W.E(a_, b_)), props=P)
        idf = lambda n: W.A(n, key)
        ctx.oblige(f"{P[0]}/{q}/ensures:G2.id = 1+component-index-for-every-node-other-attributes-unchanged",
                   forall([a_, k_], W.A(a_, k_) == z3.If(AND(k_ == key, W.N(a_)), VInt(C.comp(a_) + 1), A0(a_, k_))), props=P)
        ctx.oblige(f"{P[0]}/{q}/ensures:has_id(every-node-carries-a-positive-int)", forall([a_], IMP(W.N(a_), AND(is_VInt(idf(a_)), iv(idf(a_)) >= 1))), props=P)
        if self.which == "trk":
            ctx.oblige(f"C04/{q}/ensures:G3.T1(edge-leaving-a-non-dividing-node-keeps-the-track-id)",
                       forall([a_, b_], IMP(AND(W.E(a_, b_), W.od(a_) == 1), idf(a_) == idf(b_))), props=P)
        else:
            ctx.oblige(f"C05/{q}/ensures:G3.L1(every-edge-keeps-the-lineage-id)", forall([a_, b_], IMP(W.E(a_, b_), idf(a_) == idf(b_))), props=P)
        ctx.oblige(f"{P[0]}/{q}/ensures:same-id-iff-same-component", forall([a_, b_], IMP(AND(W.N(a_), W.N(b_)), (idf(a_) == idf(b_)) == (C.comp(a_) == C.comp(b_)))), props=P)
        d = ta.fields["tracklet_id_to_nodes" if self.which == "trk" else "lineage_id_to_nodes"]
        mx = ta.fields["max_tracklet_id" if self.which == "trk" else "max_lineage_id"]
        okd = isinstance(d, IdDict)
        ctx.oblige(f"C06/{q}/ensures:lookup-replaced-by-the-new-mapping", z3.BoolVal(okd), props=("C06",))
        if okd:
            ctx.oblige(f"C06/{q}/ensures:G4.B1(lookup-lists-exactly-the-nodes-per-id-once)",
                       forall([i_, a_], d.cnt(i_, a_) == z3.If(AND(W.N(a_), idf(a_) == VInt(i_)), 1, 0)), props=("C06",))
            ctx.oblige(f"C06/{q}/ensures:G4.keys-are-1..m-and-the-maximum-is-m", AND(forall([i_], d.key(i_) == AND(i_ >= 1, i_ <= C.m)), to_z3(mx, Int) == C.m), props=("C06",))
            ctx.oblige(f"C06/{q}/ensures:G4.B2(every-id <= maximum)", forall([a_], IMP(W.N(a_), iv(idf(a_)) <= to_z3(mx, Int))), props=("C06",))
        ctx.oblige(f"{P[0]}/{q}/ensures:graph-not-modified", z3.BoolVal(W.graph_writes == 0 and W.E_now is W.E), props=P)
        return out


def units():
    from pyvc.verify import Unit
    return [Unit(BulkAssign("trk"), {}), Unit(BulkAssign("lin"), {})]
