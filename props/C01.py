"""C01 - every edit is exactly invertible."""
from contracts import groups, primitives, useractions
from ._common import TRUSTED_TRACKS, UA_ALL

LEVEL = "other"
TRUSTED = TRUSTED_TRACKS + ["call-site contracts of the sub-action constructors used by UserUpdateSegmentation at the level of abstract world states (raise => world unchanged; return => a record with src/dst; registers/emits iff _top_level): proved of the real UserDeleteNode / UserAddNode constructors (clauses C11 on-raise, C02/C20 iff-top-level) and of the primitive UpdateNodeSeg (contracts/segprims.py); a.inverse() moves the world from dst(a) to src(a) (C01's conclusion)", "M4 (reversing a list of stepwise-invertible steps inverts their composition) - Lean: reverse_inverts"]
EXPLANATION = (
    "PROVED (SMT, unbounded): (1) for each primitive A (AddNode, DeleteNode, AddEdge, DeleteEdge, UpdateNodeAttrs, UpdateTrackIDs): "
    "{INV & documented precondition} s1=A(s0); s2=A.inverse()(s1); s3=inverse-of-inverse(s2) gives s2~s0 and s3~s1 on nodes, edges, "
    "every registered node/edge feature value and both lookups (as bags) - the inverse() methods are executed from their real source, "
    "the constructors through contracts that are proved of their real bodies (C11/C06/C03 units); (2) at every primitive call site inside "
    "every user action the documented invertibility precondition holds ('invertible-here' obligations) and the group's actions list "
    "records exactly the applied sub-actions in order; (3) the real ActionGroup.inverse returns the inverses in reverse order for "
    "lists of every length (comprehension invariant). Composition (2)+(3) => group inverse restores is lemma M4 (Lean). "
    "(4) the real UserUpdateSegmentation constructor (contracts/paint.py, abstract world states, updated_pixels of every length): its actions "
    "list is a chain from the entry world to the final world, so (3)+M4 apply to it. "
    "The relabel walk body is proved against its whole contract (attributes and lookups; contracts/walk.py, contracts/bookkeeping.py). Segmentation part: see C07 units.")
ASSUMPTIONS = ["observable state as in the property: nodes, edges, registered feature values, segmentation; max ids / counters / list order excluded",
               "attribute values stored on the graph are never raw ndarrays (the library's writers convert them)",
               "without segmentation the position is a registered node feature present on every node"]
LEMMAS = ["M4 reverse_inverts (Lean)", "M1b lineage ids equal along descendant paths", "M3 facts of below"]
NOT_UNDER_CONTRACT = ["pixel-level effect of UserUpdateSegmentation (which sub-actions a stroke needs: bounded stand-in paint-strokes-exhaustive)"]


def units(tier):
    from contracts import walk
    from contracts import paint
    from contracts import bookkeeping
    return paint.units() + walk.units() + bookkeeping.units() + primitives.invert_units() + groups.units() + useractions.units(UA_ALL, {"lineage_inv": True}) + primitives.units()


def _bounded(tier, seed):
    from pyvc.native_bridge import bounded_paint, bounded_walk
    return [bounded_walk(tier, "walk", "walk", "real _handle_update_track_ids vs contract K1 (the inverse walk covers the same set)"),
            bounded_paint(tier, "C01", "paint-driven UserUpdateSegmentation (not under contract): undo restores the canonical state exactly, redo re-applies it")]


def witness(label, failure, seed):
    from pyvc.native_bridge import tracks_witness
    return tracks_witness("C01", label, failure, seed)


def bounded(tier, seed):
    from ._common import model_checks
    return _bounded(tier, seed) + model_checks(tier, "networkx", shape=True, seed=seed)
