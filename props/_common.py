"""Shared unit lists of the tracks-state properties."""
from contracts import history, primitives, useractions

UA_ALL = ["UserDeleteEdge", "UserAddEdge", "UserDeleteNode", "UserAddNode", "UserSwapPredecessors", "UserUpdateNodeAttrs"]

TRUSTED_TRACKS = [
    "models of networkx.DiGraph (has_node/has_edge/add/remove/degrees/successors/predecessors/in_edges/out_edges, node and edge "
    "attribute views) in pyvc/tracksmodel.py - conformance-tested natively (native/conformance.py)",
    "declared heap shape of SolutionTracks (pyvc/tracksfactory.py) - compared with a really constructed object (native/shape_check.py)",
    "contract of TrackAnnotator._handle_update_track_ids (DESIGN 5.3) used at call sites; its preconditions are proved at every call site and the contract itself "
    "(attribute and lookup halves) is proved of the real body in contracts/walk.py + contracts/bookkeeping.py",
    "contracts of SolutionTracks.get_track_neighbors / has_track_id_at_time used at call sites (their bodies: C06)",
    "ghost forest theory: facts of the descendant closure (M3) and the segment facts (M2') - Lean lemmas in theory/lean, see coverage.lemmas",
]


def ua_units(tier):
    return useractions.units(UA_ALL)


def model_checks(tier, groups="networkx", shape=True, seed=0):
    """native cross-checks of the trusted base: the declared heap shape against real objects, and the assumed library
    contracts against the real libraries on random small inputs (bounded; they prove nothing)"""
    from pyvc.native_bridge import bounded_conformance, bounded_shape
    return ([bounded_shape(tier)] if shape else []) + [bounded_conformance(tier, groups, seed)]
