from contracts import history, primitives, useractions
from ._common import TRUSTED_TRACKS, UA_ALL

LEVEL = "other"
TRUSTED = TRUSTED_TRACKS
EXPLANATION = ("State invariant Forest (in-degree<=1, out-degree<=2, every node has a time, edges strictly forward) proved "
               "preserved by the real constructors of the user actions on a symbolic SolutionTracks (graphs of every size); "
               "primitives are used through their contracts, which are proved of their real bodies.")
ASSUMPTIONS = ["entry state satisfies INV = Forest & track-id partition (T1,T2) & lookup agreement (B1,B2) - each clause is the "
               "postcondition of C03/C04/C06 respectively", "UserUpdateSegmentation: covered by C07's units once registered"]
LEMMAS = ["M3 facts of below (descendant closure)", "M2' segment facts"]


def units(tier):
    from contracts import queries
    return queries.units() + useractions.units(UA_ALL) + primitives.units(names=["AddEdgeC", "DeleteEdgeC"])


def witness(label, failure, seed):
    from pyvc.native_bridge import tracks_witness
    return tracks_witness("C03", label, failure, seed)


def _bounded(tier, seed):
    from pyvc.native_bridge import bounded_walk
    return [bounded_walk(tier, "queries", "track-neighbour-queries",
                         "real get_track_neighbors/has_track_id_at_time (whose contracts the proofs of UserAddNode/UserDeleteNode use) vs a scan "
                         "of the graph, on canonical and time-reversed node numberings and with the lookup lists in every order")]


def bounded(tier, seed):
    from ._common import model_checks
    return _bounded(tier, seed) + model_checks(tier, "networkx", shape=True, seed=seed)
