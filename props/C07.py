"""C07 - segmentation labels and nodes stay in one-to-one correspondence."""
from contracts import primitives, segprims, useractions
from ._common import TRUSTED_TRACKS, UA_ALL

SEG = {"seg": True}
SEGP = {"seg": True, "seg_inv": ("S", "R", "Q"), "inv": ("forest", "b1", "b2")}
LEVEL = "other"
TRUSTED = TRUSTED_TRACKS + ["numpy model of the label video (pyvc/segmodel.py): seg[t] == label, np.nonzero, masked assignment seg[pixels] = v; "
                            "a SegMask is a pixel set inside one frame (documented shape of every pixels argument)"]
EXPLANATION = (
    "PROVED (SMT, unbounded, symbolic label video): S1 (every node labels a pixel of its own frame), S2 (every non-zero label is a node, in that "
    "node's frame) and 'label 0 is background' are preserved by every primitive (AddNode, DeleteNode, AddEdge, DeleteEdge, UpdateNodeAttrs, "
    "UpdateNodeSeg) under its documented precondition and by the six node/edge user actions; each primitive writes the node id / 0 into exactly the "
    "recorded pixels (clauses 'pixels-set-...'), get_pixels returns exactly the node's pixels (DeleteNode default pixels), and the inverse of each "
    "primitive restores the array bit for bit (C01 units in the segmentation configuration). BOUNDED STAND-IN: the paint-driven "
    "UserUpdateSegmentation (strokes over none/part/all of one or several nodes, new/existing/background label, with undo/redo) is explored natively "
    "by seeded random scenarios and by every rectangular stroke up to 2x3 on two fixtures (exhaustive), with the array compared with 'exactly as painted' and with the pre-stroke array after undo.")
ASSUMPTIONS = ["a node added to tracks with a segmentation comes with pixels (documented precondition of AddNode)",
               "UserUpdateSegmentation is under contract only at the level of abstract world states (contracts/paint.py); its pixel-level behaviour is the bounded stand-in"]
NOT_UNDER_CONTRACT = ["pixel-level effect of UserUpdateSegmentation.__init__ (under contract only at the level of abstract world states, contracts/paint.py; "
                      "which sub-actions a stroke needs and the resulting array: bounded stand-ins paint-strokes / paint-strokes-exhaustive)"]


def units(tier):
    return primitives.units(SEGP) + useractions.units(UA_ALL, SEG) + primitives.invert_units(SEG)


def _bounded(tier, seed):
    from pyvc.native_bridge import bounded_harness, bounded_paint
    return [bounded_harness(tier, "C07,C01", "paint-strokes", "paint/erase strokes, node/edge edits, undo/redo on small label videos; oracles: labels<->nodes, "
                            "array exactly as painted, undo restores bit for bit", seed, focus="paint,undo", segonly=True),
            bounded_paint(tier, "C07,C01", "labels<->nodes and array exactly as painted after the stroke; undo restores bit for bit, redo re-applies")]


def witness(label, failure, seed):
    from pyvc.native_bridge import tracks_witness
    return tracks_witness("C07", label, failure, seed, extra=["--segonly"])


def bounded(tier, seed):
    from ._common import model_checks
    return _bounded(tier, seed) + model_checks(tier, "networkx,numpy", shape=True, seed=seed)
