"""C02 - undo/redo follow a never-forgetting linear timeline."""
from contracts import history

LEVEL = "proof"
TRUSTED = ["assumed contract of Action.inverse() (moves the world from dst(a) to src(a)): that is C01's conclusion"]
EXPLANATION = ("Representation invariant INV_H of ActionHistory against a ghost timeline+cursor, proved preserved by "
               "the real add_new_action/undo/redo for stacks of every length (symbolic lists, quantified chain clauses).")
ASSUMPTIONS = ["C02 is conditional on C01 (each recorded action is invertible where it was applied)"]
NOT_UNDER_CONTRACT = []


def units(tier):
    from contracts import useractions
    from ._common import UA_ALL
    return history.units() + history.tracks_units() + useractions.units(UA_ALL)


def witness(label, failure, seed):
    from pyvc.native_bridge import tracks_witness
    return tracks_witness("C02", label, failure, seed)
