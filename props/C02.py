"""C02 - undo/redo follow a never-forgetting linear timeline."""
from contracts import history

LEVEL = "proof"
TRUSTED = ["assumed contract of Action.inverse() (moves the world from dst(a) to src(a)): that is C01's conclusion"]
EXPLANATION = ("Representation invariant INV_H of ActionHistory against a ghost timeline+cursor, proved preserved by "
               "the real add_new_action/undo/redo for stacks of every length (symbolic lists, quantified chain clauses).")
ASSUMPTIONS = ["C02 is conditional on C01 (each recorded action is invertible where it was applied)"]
NOT_UNDER_CONTRACT = []


def units(tier):
    return history.units()
