"""C02 - undo/redo follow a never-forgetting linear timeline."""
from contracts import history

LEVEL = "proof"
TRUSTED = ["call-site contracts of the sub-action constructors used by UserUpdateSegmentation at the level of abstract world states (raise => world unchanged; return => a record with src/dst; registers/emits iff _top_level): proved of the real UserDeleteNode / UserAddNode constructors (clauses C11 on-raise, C02/C20 iff-top-level) and of the primitive UpdateNodeSeg (contracts/segprims.py); a.inverse() moves the world from dst(a) to src(a) (C01's conclusion)", "assumed contract of Action.inverse() (moves the world from dst(a) to src(a)): that is C01's conclusion"]
EXPLANATION = ("Representation invariant INV_H of ActionHistory against a ghost timeline+cursor, proved preserved by "
               "the real add_new_action/undo/redo for stacks of every length (symbolic lists, quantified chain clauses).")
ASSUMPTIONS = ["C02 is conditional on C01 (each recorded action is invertible where it was applied)"]
NOT_UNDER_CONTRACT = []


def _bounded(tier, seed):
    from pyvc.native_bridge import bounded_paint
    return [bounded_paint(tier, "C02", "a stroke is exactly one timeline step however many nodes it adds, shrinks or removes; undo/redo step along the timeline")]


def units(tier):
    from contracts import useractions
    from ._common import UA_ALL
    from contracts import paint
    return history.units() + history.tracks_units() + useractions.units(UA_ALL) + paint.units()


def witness(label, failure, seed):
    from pyvc.native_bridge import tracks_witness
    return tracks_witness("C02", label, failure, seed)


def bounded(tier, seed):
    from ._common import model_checks
    return _bounded(tier, seed) + model_checks(tier, "networkx", shape=True, seed=seed)
