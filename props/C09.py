"""C09 - edge IoU always equals the true overlap of the endpoint masks."""
from contracts import primitives, segprims, useractions
from ._common import TRUSTED_TRACKS, UA_ALL
from .C07 import SEG, SEGP

LEVEL = "other"
TRUSTED = TRUSTED_TRACKS + [
    "assumed contract of _compute_ious on two single-label frames: [] if the masks share no pixel position, else [(l1, l2, IOU(mask1, mask2))]; IOU is an "
    "uninterpreted function of the two mask contents (congruence between array versions); its numeric value |A&B|/|A|B| is checked natively (harness oracle C09)"]
EXPLANATION = (
    "PROVED (SMT, unbounded): invariant Q - for every edge, when iou is active, the stored value is IOU(mask of the source in the source's frame, "
    "mask of the target in the target's frame), also for frame-skipping edges - is preserved by every primitive and the six node/edge user actions; "
    "EdgeAnnotator.update is proved to recompute exactly the added edge (AddEdge) or every edge incident to the node (UpdateNodeSeg), each endpoint in "
    "its own frame, 0 when a mask is empty, and nothing when iou is inactive or for other actions. "
    "BOUNDED STAND-IN: the bulk path EdgeAnnotator.compute (enable_features at any point) and the numeric IoU on random scenarios.")
ASSUMPTIONS = ["floats opaque; IoU of non-overlapping masks is the integer 0 as the code stores it"]
NOT_UNDER_CONTRACT = ["_compute_ious body (numpy unique/counts): bounded", "EdgeAnnotator.compute / _iou_update (bulk): bounded"]


def units(tier):
    return [u for u in segprims.annotator_units() if "Edge" in u.name] + primitives.units(SEGP) + useractions.units(UA_ALL, SEG)


def bounded(tier, seed):
    from pyvc.native_bridge import bounded_harness, bounded_paint
    return [bounded_harness(tier, "C09", "iou-oracle", "iou = |A&B|/|A|B| per edge after every edit/undo/redo, after bulk computation at construction "
                            "and after enable_features", seed, segonly=True),
            bounded_paint(tier, "C09", "iou of every edge equals the masks' after the stroke, its undo and its redo")]


def witness(label, failure, seed):
    from pyvc.native_bridge import tracks_witness
    return tracks_witness("C09", label, failure, seed, extra=["--segonly"])
