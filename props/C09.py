"""C09 - edge IoU always equals the true overlap of the endpoint masks."""
from contracts import primitives, segprims, useractions
from ._common import TRUSTED_TRACKS, UA_ALL
from .C07 import SEG, SEGP

LEVEL = "other"
TRUSTED = TRUSTED_TRACKS + [
    "assumed contract of _compute_ious on two single-label frames: [] if the masks share no pixel position, else [(l1, l2, IOU(mask1, mask2))]; IOU is an "
    "uninterpreted function of the two mask contents (congruence between array versions); its numeric value |A&B|/|A|B| is checked natively (harness oracle C09)"]
EXPLANATION = (
    "PROVED (SMT, unbounded): invariant Q - for every edge, when iou is active, the stored value is IOU(mask of the source in the source's frame, "
    "mask of the target in the target's frame), also for frame-skipping edges - is preserved by every primitive and the six node/edge user actions; "
    "EdgeAnnotator.update is proved to recompute exactly the added edge (AddEdge) or every edge incident to the node (UpdateNodeSeg), each endpoint in "
    "its own frame, 0 when a mask is empty, and nothing when iou is inactive or for other actions. "
    "Bulk path PROVED too (contracts/bulkiou.py; every number of frames, nodes, edges): EdgeAnnotator._iou_update gives every edge of its list the IoU of the two frames' "
    "masks (0 without overlap) and changes nothing else; EdgeAnnotator.compute - nodes filed by frame, out-edges of a frame grouped by the frame of their target, one _iou_update per "
    "group - gives every edge the IoU of its endpoints' masks in their own frames, also across skipped frames, iff the IoU key is requested and active (six loop invariants). "
    "BOUNDED STAND-IN: the numpy body of _compute_ious and the numeric IoU on random scenarios.")
ASSUMPTIONS = ["floats opaque; IoU of non-overlapping masks is the integer 0 as the code stores it"]
NOT_UNDER_CONTRACT = ["_compute_ious body (numpy unique/counts): assumed contract + bounded"]


def units(tier):
    from contracts import bulkiou
    return bulkiou.units() + [u for u in segprims.annotator_units() if "Edge" in u.name] + primitives.units(SEGP) + useractions.units(UA_ALL, SEG)


def _bounded(tier, seed):
    from pyvc.native_bridge import bounded_harness, bounded_paint
    return [bounded_harness(tier, "C09", "iou-oracle", "iou = |A&B|/|A|B| per edge after every edit/undo/redo, after bulk computation at construction "
                            "and after enable_features", seed, segonly=True),
            bounded_paint(tier, "C09", "iou of every edge equals the masks' after the stroke, its undo and its redo")]


def witness(label, failure, seed):
    from pyvc.native_bridge import tracks_witness
    return tracks_witness("C09", label, failure, seed, extra=["--segonly"])


def bounded(tier, seed):
    from ._common import model_checks
    return _bounded(tier, seed) + model_checks(tier, "networkx,compute_ious", shape=True, seed=seed)
