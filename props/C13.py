"""C13 - relabelling on import is pixel-exact"""
LEVEL = "other"
TRUSTED = ["reference semantics written from the property statement (native/pure_bounded.py)"]
EXPLANATION = ("BOUNDED STAND-IN ONLY (no obligation discharged yet): the real relabel_segmentation is run on every label array of 2 frames x 3 cells over a small label alphabet and every choice of up to 3 detections with node ids from {0,1,2,3,7} (chained/permuted label-id maps, unlisted labels, id 0) and compared with 'source pixels of (time, seg id) relabelled to the node id (+1 if id 0 present), background elsewhere; graph shifted together; input untouched'.")
ASSUMPTIONS = ["bounded stand-in only: exhaustive/sampled over the stated finite space, not a proof"]
NOT_UNDER_CONTRACT = ["relabel_segmentation (loop nest over np.unique / dict items: invariants not closed in the engine yet)"]


def units(tier):
    return []


def bounded(tier, seed):
    from pyvc.native_bridge import bounded_pure
    return [bounded_pure(tier, "c13", "c13", "all arrays 2x3 over labels 0..2 (quick) / 0..3 (thorough) x all <=3 detections x all id assignments from {0,1,2,3,7}", seed, exhaustive=True)]
