"""C13 - relabelling on import is pixel-exact"""
from contracts import relabel

LEVEL = "other"
TRUSTED = ["numpy models: label video (pyvc/arraymodel.py: a[i] is a view, masked in-place store, zeros_like/astype keep shape) and node-table columns "
           "(pyvc/vecmodel.py: x in v, v + c, v == c, v[mask], np.unique, dict(zip(a, b)) with last-pair-wins) - mathematical integers",
           "networkx.relabel_nodes(graph, mapping, copy=False) renames the nodes of `graph` in place as `mapping` says (external; recorded as a ghost event)",
           "reference semantics of the bounded stand-in written from the property statement (native/pure_bounded.py)"]
EXPLANATION = ("PROVED (SMT, unbounded - every number of frames, pixels, table rows, every label/id assignment): the real relabel_segmentation against "
               "E1 'every source pixel of a row's (time, seg id) carries node id + off', E2 'every pixel matching no row is background', E3 'input array "
               "not written', E4 'graph relabelled in place exactly once with k -> k+1 iff some node id is 0', with off = 1 iff some node id is 0. "
               "Nested loop invariants: outer loop over np.unique(times) (processed times final, unprocessed frames background, unmatched pixels "
               "background), inner loop over the items of dict(zip(seg ids, node ids)) of the frame (applied items written, rest background, other "
               "frames kept); both initial and preserved by the real loop bodies. Preconditions taken from the builder's call site: times are frame "
               "indices, a (time, seg id) pair names at most one node, ids non-negative. "
               "BOUNDED STAND-IN (cross-check and the part outside the contract - the builder's decision whether to relabel at all): the real function "
               "on every 2x3 label array over a small alphabet x every <= 3 detections x id assignments from {0,1,2,3,7}.")
ASSUMPTIONS = ["mathematical integers: the uint64 conversion of the output is the identity on non-negative ids",
               "a dask input is computed to the same values (seg_array.compute())"]
NOT_UNDER_CONTRACT = ["TracksBuilder.handle_segmentation (decides whether relabelling is needed: np.array_equal(seg_ids, node_ids); bounded stand-in c13 covers "
                      "relabel_segmentation only, the builder path is exercised by C12's bounded import scenarios)"]


def units(tier):
    return relabel.units()


def bounded(tier, seed):
    from pyvc.native_bridge import bounded_pure
    return [bounded_pure(tier, "c13", "c13", "all arrays 2x3 over labels 0..2 (quick) / 0..3 (thorough) x all <=3 detections x all id assignments from {0,1,2,3,7}", seed, exhaustive=True)]
