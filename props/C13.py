"""C13 - relabelling on import is pixel-exact"""
from contracts import relabel

LEVEL = "other"
TRUSTED = ["numpy models: label video (pyvc/arraymodel.py: a[i] is a view, masked in-place store, zeros_like/astype keep shape) and node-table columns "
           "(pyvc/vecmodel.py: x in v, v + c, v == c, v[mask], np.unique, dict(zip(a, b)) with last-pair-wins) - mathematical integers",
           "networkx.relabel_nodes(graph, mapping, copy=False) renames the nodes of `graph` in place as `mapping` says (external; recorded as a ghost event)",
           "reference semantics of the bounded stand-in written from the property statement (native/pure_bounded.py)"]
EXPLANATION = ("PROVED (SMT, unbounded - every number of frames, pixels, table rows, every label/id assignment): the real relabel_segmentation against "
               "E1 'every source pixel of a row's (time, seg id) carries node id + off', E2 'every pixel matching no row is background', E3 'input array "
               "not written', E4 'graph relabelled in place exactly once with k -> k+1 iff some node id is 0', with off = 1 iff some node id is 0. "
               "Nested loop invariants: outer loop over np.unique(times) (processed times final, unprocessed frames background, unmatched pixels "
               "background), inner loop over the items of dict(zip(seg ids, node ids)) of the frame (applied items written, rest background, other "
               "frames kept); both initial and preserved by the real loop bodies. Preconditions taken from the builder's call site: times are frame "
               "indices, a (time, seg id) pair names at most one node, ids non-negative. "
               "BOUNDED STAND-INS: (cross-check) the real function on every 2x3 label array over a small alphabet x every <= 3 detections x id assignments "
               "from {0,1,2,3,7}; (builder path, outside the contract) tracks_from_df with a seg_id column on small tables incl. identity mappings with "
               "unlisted labels - this one found the defect repaired by ac431c7 (no relabelling when seg ids equal node ids left unlisted labels in place).")
ASSUMPTIONS = ["mathematical integers: the uint64 conversion of the output is the identity on non-negative ids",
               "a dask input is computed to the same values (seg_array.compute())"]
NOT_UNDER_CONTRACT = ["TracksBuilder.handle_segmentation (loads the array, validates it, calls relabel_segmentation with the columns of the node table): "
                      "bounded stand-in c13-builder-path through tracks_from_df"]


def units(tier):
    return relabel.units()


def _bounded(tier, seed):
    from pyvc.native_bridge import bounded_pure
    return [bounded_pure(tier, "c13", "c13", "all arrays 2x3 over labels 0..2 (quick) / 0..3 (thorough) x all <=3 detections x all id assignments from {0,1,2,3,7}", seed, exhaustive=True),
            bounded_pure(tier, "c13b", "c13-builder-path", "tracks_from_df with a seg_id column: <=3 detections in 2 frames, labels 1..3, ids from {0,1,2,3,7}, with/without an unlisted label; "
                         "quick: every case where all labels are also node ids (where a shortcut could skip relabelling) + 250 sampled others; thorough: all", seed, exhaustive=(tier == "thorough"))]


def bounded(tier, seed):
    from ._common import model_checks
    return _bounded(tier, seed) + model_checks(tier, "numpy,networkx", shape=False, seed=seed)
