"""C16 - exports, saves and queries never modify the tracks."""
import os

LEVEL = "other"
TRUSTED = ["may-alias frame analysis (pyvc/framecheck.py): flow-insensitive taint from the tracks parameter; result of copy()/list()/dict()/"
           "np.array()/comprehensions is fresh (np.asarray is NOT: it returns an ndarray argument itself), whereas networkx views and accessors (subgraph(), nodes(data=True), edges(), .data(), .items(), .values(), .get()) and the attribute getters get_node_attr/get_nodes_attr/get_edge_attr/get_edges_attr "
           "propagate the alias (they share the attribute dictionaries); a method name resolves to Tracks/SolutionTracks only on a `tracks`/`self` receiver; repository callees are followed by parameter position (return aliasing per tuple component)",
           "third-party calls that receive (a part of) the tracks are assumed read-only: geff.write, np.save, json.dump, pandas constructors, "
           "skimage.util.map_array, tifffile.imwrite (listed per function in coverage.frame_assumptions)"]
EXPLANATION = ("DECIDED BY STATIC FRAME ANALYSIS of the real AST (one obligation per function under the frame contract, plus one per write-like "
               "statement met): no assignment, deletion or mutator call goes through a value that may alias the tracks object, in export_to_csv, "
               "export_to_geff (+split_position_attr), save_tracks (+_save_graph/_save_seg/_save_attrs) and the read-only queries of "
               "Tracks/SolutionTracks. One write is allowed with a stated reason: get_track_neighbors sorts a lookup list in place (the lookup as a "
               "bag is unchanged - the property compares lookups as sets). BOUNDED STAND-IN in addition: deep snapshot before/after each operation.")
ASSUMPTIONS = ["third-party callees are read-only on their arguments", "networkx Graph.copy() copies the attribute dictionaries"]
NOT_UNDER_CONTRACT = ["geff.write / np.save / json.dump / pandas / tifffile internals"]

EXPORTERS = [
    ("funtracks.import_export.csv._export.export_to_csv", "tracks"),
    ("funtracks.import_export.geff._export.export_to_geff", "tracks"),
    ("funtracks.import_export.geff._export.split_position_attr", "tracks"),
    ("funtracks.import_export.internal_format.save_tracks", "tracks"),
    ("funtracks.import_export.internal_format._save_graph", "tracks"),
    ("funtracks.import_export.internal_format._save_seg", "tracks"),
    ("funtracks.import_export.internal_format._save_attrs", "tracks"),
]
T = "funtracks.data_model.tracks.Tracks."
S = "funtracks.data_model.solution_tracks.SolutionTracks."
QUERIES = [T + m for m in ("nodes", "edges", "in_degree", "out_degree", "predecessors", "successors", "get_positions", "get_position",
                           "get_times", "get_time", "get_pixels", "get_node_attr", "get_nodes_attr", "get_edge_attr", "get_edges_attr",
                           "get_available_features", "_check_existing_feature", "_compute_ndim")] + \
          [S + m for m in ("get_next_track_id", "get_next_lineage_id", "get_track_id", "get_lineage_id", "get_track_neighbors",
                           "has_track_id_at_time", "max_track_id", "track_id_to_node", "export_tracks")]


import ast as _ast  # noqa: E402


def _receiver_ok(recv, cls_qualname):
    if cls_qualname.endswith("FeatureDict"):
        return isinstance(recv, _ast.Attribute) and recv.attr == "features"
    return isinstance(recv, _ast.Name) and recv.id in ("tracks", "self")


def units(tier):
    return []


def analysis_obligations(tier):
    from pyvc import framecheck as fc
    from pyvc.frontend import Repo
    R = Repo()

    def resolve(call):
        cn = fc.call_name(call)
        if cn is None:
            return None
        for m in R.modules.values():
            g = m.globals.get(cn)
            if g and g[0] == "func" and m.name.startswith("funtracks.import_export"):
                return (g[1].qualname, g[1].node)
        for q in ("funtracks.data_model.solution_tracks.SolutionTracks", "funtracks.data_model.tracks.Tracks",
                  "funtracks.features._feature_dict.FeatureDict"):
            f = R.get_class(q).find(cn)
            # a method name resolves to the tracks classes only on a receiver that can be such an object: `tracks.m()` /
            # `self.m()` (Tracks, SolutionTracks) or `<...>.features.m()` (FeatureDict); `g.nodes(data=True)` on a
            # networkx graph or view is third-party and must not be mistaken for Tracks.nodes (which returns a copy)
            if f and isinstance(call.func, _ast.Attribute) and _receiver_ok(call.func.value, q):
                return (f"{f[0].qualname}.{cn}", f[1])
        return None

    out = []
    for q, param in EXPORTERS + [(q, "self") for q in QUERIES]:
        try:
            fi = R.get_function(q)
        except KeyError:
            out.append({"label": f"C16/{q.split('.')[-1]}/frame:function-present", "ok": False, "note": "function vanished", "func": q})
            continue
        obs, ass = fc.analyse(fi.node, {param}, q, resolve)
        bad = [o for o in obs if not o[2]]
        short = ".".join(q.split(".")[-2:]) if q.startswith(("funtracks.data_model",)) else q.split(".")[-1]
        src = {"file": os.path.relpath(fi.module.path, "/repo"), "lines": list(fi.span()), "sha256": fi.sha256()}
        out.append({"label": f"C16/{short}/frame:modifies-nothing-reachable-from-the-tracks", "ok": not bad, "func": q, "source": src,
                    "note": "; ".join(f"line {ln}: {tx} - {why}" for ln, tx, _ok, why in bad)[:600] or
                            f"{len(obs)} write-like statements / followed calls examined; assumptions: {len(ass)}"})
        for ln, tx, ok, why in obs:
            if ok and why.startswith("allowed"):
                out.append({"label": f"C16/{short}/frame:allowed-write:{tx[:40]}", "ok": True, "func": q, "note": why})
    return out


def bounded(tier, seed):
    from pyvc.native_bridge import bounded_pure
    return [bounded_pure(tier, "c16", "c16", "deep snapshot of the tracks before/after each exporter, save and query; 4 (+sampled) forests x seg "
                         "on/off x scale None/given x position single/per-axis", seed, exhaustive=False)]
