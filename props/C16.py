"""C16 - exports, saves and queries never modify the tracks"""
LEVEL = "other"
TRUSTED = ["reference semantics written from the property statement (native/pure_bounded.py)"]
EXPLANATION = ("BOUNDED STAND-IN ONLY: a deep snapshot (graph with all attributes, segmentation bytes, scale, feature registry and keys, lookups, history lengths, counters) is compared before/after export_to_csv, export_to_geff (full and subset), save_tracks and the read-only queries, for scale None/given, single-key/per-axis position, with/without segmentation.")
ASSUMPTIONS = ["bounded stand-in only: exhaustive/sampled over the stated finite space, not a proof"]
NOT_UNDER_CONTRACT = ["export_to_csv", "export_to_geff", "split_position_attr", "save_tracks", "queries of Tracks/SolutionTracks"]


def units(tier):
    return []


def bounded(tier, seed):
    from pyvc.native_bridge import bounded_pure
    return [bounded_pure(tier, "c16", "c16", "4 (+sampled) forests x seg on/off x scale None/given x position single/per-axis x 6 operations", seed, exhaustive=False)]
