"""C08 - node measurements always equal those of the node's current mask."""
from contracts import primitives, segprims, useractions
from ._common import TRUSTED_TRACKS, UA_ALL
from .C07 import SEG, SEGP

LEVEL = "other"
TRUSTED = TRUSTED_TRACKS + [
    "assumed contract of regionprops_extended / skimage.measure.regionprops: one region per non-zero label; every attribute is a deterministic "
    "function RP(name, mask, spacing) of the mask content and the spacing (uninterpreted; congruence between array versions); "
    "'area = pixel count x voxel size, position = scaled centroid' is the skimage model, checked natively (harness oracle C08), not proved",
    "the annotator's feature table is abstracted to two symbolic entries (position key + one generic regionprops key): "
    "RegionpropsAnnotator.update/_regionprops_update have no key-specific branch"]
EXPLANATION = (
    "PROVED (SMT, unbounded): the plumbing for all states - invariant R: for every node and every ACTIVE regionprops key the stored value equals "
    "RP(attribute name, the node's mask in seg[get_time(node)], scale[1:] or None), normalised as the code stores it - is preserved by every "
    "primitive and by the six node/edge user actions; RegionpropsAnnotator.update is proved to recompute exactly the active keys of exactly the "
    "action's node from its current mask in its own frame (None for an empty mask) for AddNode and UpdateNodeSeg and to do nothing for other "
    "actions; masks of other nodes are untouched under the documented preconditions, so their values stay valid by congruence. "
    "Bulk path PROVED too (contracts/bulkrp.py; every number of frames, regions and requested keys): RegionpropsAnnotator.compute with the real _regionprops_update, "
    "_filter_feature_keys and features property writes, for every node that labels a pixel and every requested ACTIVE key, the measurement of the node's own mask in the node's own "
    "frame with the tracks' spacing, converts tuples to lists, skips labels without a node, and changes nothing else (three nested loop invariants) - so R holds after construction "
    "and after enable_features with recomputation, given C07's invariant. "
    "BOUNDED STAND-IN: numeric oracle (area = count x voxel, pos = scaled centroid) on random scenarios.")
ASSUMPTIONS = ["floats are opaque; equal masks and spacing give equal measurements (determinism)"]
NOT_UNDER_CONTRACT = ["_regionprops_extended.py numeric formulas (skimage; assumed deterministic measurements)"]


def units(tier):
    from contracts import bulkrp
    return bulkrp.units() + [u for u in segprims.annotator_units() if "Regionprops" in u.name] + primitives.units(SEGP) + useractions.units(UA_ALL, SEG)


def _bounded(tier, seed):
    from pyvc.native_bridge import bounded_harness, bounded_paint
    return [bounded_harness(tier, "C08", "area-and-centroid-oracle", "area = pixel count x voxel size and pos = scaled centroid for every node after "
                            "every edit/undo/redo and after construction (bulk path)", seed, segonly=True),
            bounded_paint(tier, "C08", "area and centroid of every node equal the mask's after the stroke, its undo and its redo")]


def witness(label, failure, seed):
    from pyvc.native_bridge import tracks_witness
    return tracks_witness("C08", label, failure, seed, extra=["--segonly"])


def bounded(tier, seed):
    from ._common import model_checks
    return _bounded(tier, seed) + model_checks(tier, "networkx,regionprops", shape=True, seed=seed)
