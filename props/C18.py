"""C18 - candidate graph = all detections plus all near pairs in consecutive frames"""
from contracts import candgraph

LEVEL = "other"
TRUSTED = ["a node_frame_dict passed in by the caller maps each frame with detections to the list of exactly its nodes, each once (what "
           "nodes_from_segmentation / nodes_from_points_list build; PROVED of nodes_from_segmentation, nodes_from_points_list(scale=None) and of _compute_node_frame_dict, which "
           "add_cand_edges calls when no mapping is given)", "skimage.measure.regionprops yields one region per non-zero label of a frame, each once, with deterministic area / centroid",
           "scipy KDTree: A.query_ball_tree(B, r)[i] lists exactly the indices j with distance(A[i], B[j]) <= r, each once; sorted(keys) is strictly "
           "increasing; networkx add_edge adds exactly that edge (models in contracts/candgraph.py)",
           "reference semantics of the bounded stand-in written from the property statement (native/pure_bounded.py)"]
EXPLANATION = ("PROVED (SMT, unbounded - every number of frames, detections per frame, every gap pattern and distance): the real add_cand_edges against "
               "'afterwards there is an edge a->b iff there was one before or b is in the frame immediately after a's and within the maximum distance'. "
               "Three nested loop invariants: frames loop (edges = links leaving processed frames; the carried-over frame / node list / tree are None "
               "together or belong to one frame that is a key), nodes-of-frame loop (links of the first i nodes), matches loop (first j matches of the node); "
               "each initial and preserved by the real loop bodies, including the `continue` for frames without a following frame and the carried-over "
               "tree being reused only when it is the current frame's. Also proved: the real _compute_node_frame_dict builds exactly the frame -> nodes "
               "mapping that add_cand_edges relies on (keys = frames with a non-empty list; every node in the list of its frame exactly once); the real "
               "nodes_from_points_list (scale=None) creates exactly one node per point with the point's index as id, its time and position, no edges, "
               "and returns that same kind of mapping; the real "
               "nodes_from_segmentation (labels unique across time, with and without a scale) creates exactly one node per non-zero label of every frame with the frame as its time, the label as seg id and "
               "the area and centroid of its own region measured with the given spacing, no edges, and files every frame's labels under the frame - so the frame mapping is proved for both constructions; the real _get_iou_dict (single segmentation, labels unique across time) "
               "records exactly the overlapping label pairs of consecutive frames with their IoU, and the real add_iou gives every candidate edge between consecutive frames the IoU of its two masks, 0 "
               "without overlap, and changes nothing else (five more loop invariants); nodes_from_points_list is proved with and without a scale. "
               "COMPOSITION (contracts/candcompose.py): the real compute_graph_from_seg and compute_graph_from_points_list are checked against the callees' contracts - every callee precondition is "
               "discharged at its call site (the frame dictionary handed to add_cand_edges is exactly the one the node construction returns; add_iou gets nodes that are labels of their frames) - and "
               "yield the property's statement: one node per detection with its time, seg id, area and centroid (scaled by the given spacing), an edge iff next frame and within the maximum distance, "
               "and with iou=True the IoU of the two masks on every edge. "
               "BOUNDED STAND-IN (node construction, IoU, and end-to-end cross-check): real compute_graph_from_points_list on every placement of <= 4 "
               "points into frames 0..3 (all gap patterns, pair-gap-pair) with positions from {0,1,3} and two distances, and compute_graph_from_seg (+IoU) "
               "on random small label videos with empty frames, against a brute-force reference.")
ASSUMPTIONS = ["distances are abstracted by an uninterpreted predicate close(a, b, r); floats are not reasoned about",
               "bounded stand-in: exhaustive/sampled over the stated finite space, not a proof"]
NOT_UNDER_CONTRACT = ["_compute_ious (numpy body: assumed contract, conformance-tested)", "_get_iou_dict / add_iou with multiseg=True (the composing function never passes it)"]


def units(tier):
    from contracts import candcompose
    return candgraph.units() + candcompose.units()


def _bounded(tier, seed):
    from pyvc.native_bridge import bounded_pure
    return [bounded_pure(tier, "c18", "c18", "all placements of <=4 points in 4 frames x 3 positions x 2 distances; 150 (1500) random label videos", seed, exhaustive=False)]


def bounded(tier, seed):
    from ._common import model_checks
    return _bounded(tier, seed) + model_checks(tier, "kdtree,regionprops,compute_ious,networkx", shape=False, seed=seed)
