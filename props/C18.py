"""C18 - candidate graph = all detections plus all near pairs in consecutive frames"""
LEVEL = "other"
TRUSTED = ["reference semantics written from the property statement (native/pure_bounded.py)"]
EXPLANATION = ("BOUNDED STAND-IN ONLY: real compute_graph_from_points_list on every placement of <= 4 points into frames 0..3 (all gap patterns, empty frames) with positions from {0,1,3} and two distances, and compute_graph_from_seg (+IoU) on random small label videos with empty frames, against a brute-force reference (one node per detection with time/centroid/area; edge iff next frame and distance <= max; IoU = overlap).")
ASSUMPTIONS = ["bounded stand-in only: exhaustive/sampled over the stated finite space, not a proof"]
NOT_UNDER_CONTRACT = ["nodes_from_segmentation", "nodes_from_points_list", "add_cand_edges", "add_iou", "_compute_ious"]


def units(tier):
    return []


def bounded(tier, seed):
    from pyvc.native_bridge import bounded_pure
    return [bounded_pure(tier, "c18", "c18", "all placements of <=4 points in 4 frames x 3 positions x 2 distances; 150 (1500) random label videos", seed, exhaustive=False)]
