"""C19 - label utilities: globally unique labels; relabelling by track."""
from contracts import arrays, tracklabel

LEVEL = "proof"
TRUSTED = ["numpy array model (pyvc/arraymodel.py): a[i] is a view, masked in-place update, np.max of a non-empty frame, astype/reshape/zeros_like keep shape and cell values",
           "networkx models (contracts/tracklabel.py): out_degree() lists every node once with its out-degree; copy() has the same nodes and edges; "
           "remove_edges_from(out_edges(n)) removes exactly n's out-edges; weakly_connected_components(G) yields each class of the partition of G's nodes "
           "by weak connectivity in G's edges exactly once - 'unbranched track segment' is by definition such a class of the solution minus the out-edges of dividing nodes"]
EXPLANATION = ("PROVED (SMT, unbounded - every number of frames, pixels, nodes and every graph): "
               "(1) ensure_unique_labels - loop invariant 'running maximum dominates every label written so far; labels strictly increase across frames; zero pattern "
               "and partition of each frame unchanged; unprocessed frames untouched' is initial, preserved by the real loop body and implies 'no label in two frames, "
               "regions and background unchanged' (both multiseg settings). "
               "(2) relabel_segmentation_with_track_id - F1 the graph whose components are taken is exactly the solution minus the out-edges of dividing nodes "
               "(filter comprehension over out_degree(), loop invariant of the edge-removal loop); F2 every pixel of a node's (time, seg id) carries 1 + the index "
               "of the node's segment, so labels are positive, equal within a segment and different across segments; F3 every other pixel is background (detections "
               "outside the solution are removed); F4 input array and solution graph are not written (nested loop invariants over the components and their nodes). "
               "BOUNDED cross-check: relabel_segmentation_with_track_id on every forest with <= 4 (5) nodes, with globally unique and with per-frame reused label values, with detections outside the solution.")
ASSUMPTIONS = ["labels are non-negative integers (uint64 conversion), mathematical integers (no overflow)", "frames are non-empty arrays",
               "node times are frame indices and a (time, seg id) pair names at most one node (the documented input of relabelling by track)"]
NOT_UNDER_CONTRACT = []


def units(tier):
    return arrays.units() + tracklabel.units()


def _bounded(tier, seed):
    from pyvc.native_bridge import bounded_pure
    return [bounded_pure(tier, "c19rel", "relabel-by-track", "every forest <= 4 (thorough 5) nodes, with/without an extra detection", seed)]


def bounded(tier, seed):
    from ._common import model_checks
    return _bounded(tier, seed) + model_checks(tier, "numpy,networkx", shape=False, seed=seed)
