"""C19 - label utilities: globally unique labels; relabelling by track."""
from contracts import arrays

LEVEL = "other"
TRUSTED = ["numpy array model (pyvc/arraymodel.py): a[i] is a view, masked in-place update, np.max of a non-empty frame, astype/reshape keep cell values"]
EXPLANATION = ("PROVED (SMT, unbounded, every number of frames and pixels): ensure_unique_labels - loop invariant 'running maximum dominates every label "
               "written so far; labels strictly increase across frames; zero pattern and partition of each frame unchanged; unprocessed frames untouched' "
               "is initial, preserved by the real loop body and implies 'no label in two frames, regions and background unchanged'. "
               "BOUNDED STAND-IN: relabel_segmentation_with_track_id on every forest with <= 4 (5) nodes, with a detection outside the solution.")
ASSUMPTIONS = ["labels are non-negative integers (uint64 conversion), mathematical integers (no overflow)", "frames are non-empty arrays"]
NOT_UNDER_CONTRACT = ["relabel_segmentation_with_track_id (bounded stand-in)"]


def units(tier):
    return arrays.units()


def bounded(tier, seed):
    from pyvc.native_bridge import bounded_pure
    return [bounded_pure(tier, "c19rel", "relabel-by-track", "every forest <= 4 (thorough 5) nodes, with/without an extra detection", seed)]
