"""C12 - import reproduces the source table faithfully (DataFrame/CSV path)"""
LEVEL = "other"
TRUSTED = ["reference semantics written from the property statement (native/pure_bounded.py)", "flatten_name_map: dict.items() modelled as an ordered enumeration (key(i), value(i)); values assumed to be None, str or list of str (the annotated type); importable_node_props abstracted to its set (exact for `in` and emptiness); mapping keys pairwise distinct (dict); f-strings are opaque; induction principle for the monotonicity lemma of the ghost offsets applied by hand (its step is a discharged obligation)"]
EXPLANATION = ("PROVED (SMT, unbounded, symbolic ordered mapping with None / string / list-of-strings values): flatten_name_map returns, in mapping order, exactly one (standard key, source column) pair per string item and one unrenamed (column, column) pair per listed column, in the mapped order (P1 length = ghost offset of the end, P2, P3; two nested loop invariants; monotonicity of the offsets by induction, step discharged). validate_node_name_map (the mapping check every importer runs before loading): whenever it accepts, every required key is mapped to a non-None value, position is mapped or a segmentation is given, and - for a non-empty list of source columns - every mapped column, including every column of a list mapping, exists in the source with exactly that name; it raises nothing but ValueError (two loop invariants with existential ghost; the nested spatial-dims check under an assumed read-only may-raise-ValueError contract; both with and without feature metadata); validate_edge_name_map: the same column clause for the edge mapping. BOUNDED STAND-IN for the rest, DataFrame/CSV path only (GEFF store path not covered): real tracks_from_df on every forest with <= 3 nodes, integer / string / zero-based ids, 2D/3D positions, extra custom column, renamed time column, parent encoded as NaN / -1, and the malformed variants duplicate id / unknown parent / self link / missing required column; nodes, edges, time, position and custom values are compared with the table; malformed tables must raise ValueError.")
ASSUMPTIONS = ["everything except flatten_name_map is a bounded stand-in: exhaustive/sampled over the stated finite space, not a proof"]
NOT_UNDER_CONTRACT = ["CSVTracksBuilder.load_source", "_ensure_integer_ids", "_combine_multi_value_props", "validate_spatial_dims_in_name_map (assumed: read-only, returns or raises ValueError)", "validate_in_memory_geff", "GEFF path (read_to_memory)"]


def units(tier):
    from contracts import importmap
    return importmap.units()


def bounded(tier, seed):
    from pyvc.native_bridge import bounded_pure
    return [bounded_pure(tier, "c12", "c12", "all forests <= 3 nodes x 3 id kinds x 2D/3D x 8 (mal)formedness variants (incl. mappings to a column that exists only in another letter case) x 2 column styles", seed, exhaustive=True)]
