"""C12 - import reproduces the source table faithfully (DataFrame/CSV path)"""
LEVEL = "other"
TRUSTED = ["reference semantics written from the property statement (native/pure_bounded.py)"]
EXPLANATION = ("BOUNDED STAND-IN ONLY, DataFrame/CSV path only (GEFF store path not covered): real tracks_from_df on every forest with <= 3 nodes, integer / string / zero-based ids, 2D/3D positions, extra custom column, renamed time column, parent encoded as NaN / -1, and the malformed variants duplicate id / unknown parent / self link / missing required column; nodes, edges, time, position and custom values are compared with the table; malformed tables must raise ValueError.")
ASSUMPTIONS = ["bounded stand-in only: exhaustive/sampled over the stated finite space, not a proof"]
NOT_UNDER_CONTRACT = ["CSVTracksBuilder.load_source", "_ensure_integer_ids", "flatten_name_map", "_combine_multi_value_props", "validate_in_memory_geff", "GEFF path (read_to_memory)"]


def units(tier):
    return []


def bounded(tier, seed):
    from pyvc.native_bridge import bounded_pure
    return [bounded_pure(tier, "c12", "c12", "all forests <= 3 nodes x 3 id kinds x 2D/3D x 5 (mal)formedness variants x 2 column styles", seed, exhaustive=True)]
