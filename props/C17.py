"""C17 - inferred column mappings lose no column and prefer exact names"""
LEVEL = "other"
TRUSTED = ["reference semantics written from the property statement (native/pure_bounded.py)"]
EXPLANATION = ("BOUNDED STAND-IN ONLY: real infer_node_name_map / infer_edge_name_map (real difflib) on column lists drawn from a 28-word vocabulary of similar names (all 3-subsets sampled + random 4..8-subsets + regression lists), for ndim None/3/4 and two sets of required keys; checks 'every column used exactly once, none twice, none invented; a column spelled like a required key or seg_id maps to it'.")
ASSUMPTIONS = ["bounded stand-in only: exhaustive/sampled over the stated finite space, not a proof"]
NOT_UNDER_CONTRACT = ["_match_exact", "_match_fuzzy", "_match_display_names_exact", "_match_display_names_fuzzy", "_map_remaining_to_self", "infer_node_name_map", "infer_edge_name_map"]


def units(tier):
    return []


def bounded(tier, seed):
    from pyvc.native_bridge import bounded_pure
    return [bounded_pure(tier, "c17", "c17", "sampled 3-subsets and random 4..8-subsets of a 28-word vocabulary x ndim {None,3,4} x 2 required sets x node/edge", seed, exhaustive=False)]
