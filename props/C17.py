"""C17 - inferred column mappings lose no column and prefer exact names"""
from contracts import namemap

LEVEL = "proof"
TRUSTED = ["difflib.get_close_matches(word, possibilities, n, cutoff) returns at most n of the possibilities; str.lower is a function",
           "at its two call sites build_display_name_mapping is used through 'every display name points to a key of the given features', which is proved of its real body (unit BuildDisplay)",
           "a list of distinct column names is abstracted to its set (order dropped; exact for in / copy / remove / len == 0)",
           "reference semantics of the bounded stand-in written from the property statement (native/pure_bounded.py)"]
EXPLANATION = ("PROVED (SMT, unbounded - every list of distinct columns, every list of target fields / required keys, every feature table): "
               "(1) the real _match_exact against its functional spec (a column stays iff it is not a newly mapped target field; a target field naming a "
               "column is mapped to exactly that column; existing entries are never overwritten) and the real _match_fuzzy against the step contract "
               "S1-S5 (list shrinks, never overwrites, each consumed column is the value of exactly one new key, new keys are target fields) by loop "
               "invariants with ghost 'seen fields' and 'owner' maps; the real _map_remaining_to_self; the real _match_display_names_exact and _match_display_names_fuzzy against the same "
               "step contract with list-valued entries (two loop invariants each: a new single key holds one matched column of a single-valued feature, a multi entry holds the matched "
               "column of its (key, index) and its key is not yet in the mapping, the remaining list is the columns not consumed; then every multi key receives the list of exactly its "
               "columns; the `any(...)` over the display names is linked to 'the feature has another index' by a proved lemma; for the fuzzy step ghost maps remember what a column was matched to); "
               "(2) the real bodies of infer_node_name_map and infer_edge_name_map, with the steps used through their contracts: every source column is "
               "used by exactly one key (as its value, as an element of a list value, or mapped to itself) and nothing else is used; a column spelled "
               "like a required key or like seg_id is mapped to that key. The argument that the final update() with the self-mapped remainder cannot "
               "overwrite a key (no remaining column is spelled like a standard field or a feature key, because the two exact steps consumed those) is "
               "part of the discharged obligations. "
               "BOUNDED cross-check: end-to-end with the real difflib on "
               "column lists drawn from a vocabulary of similar and competing names.")
ASSUMPTIONS = ["column names are distinct (the property's quantifier)", "the bounded run is a cross-check with the real difflib, not part of the claim"]
NOT_UNDER_CONTRACT = []


def units(tier):
    return namemap.units()


def _bounded(tier, seed):
    from pyvc.native_bridge import bounded_pure
    return [bounded_pure(tier, "c17", "c17", "sampled 3-subsets and random 4..8-subsets of a 28-word vocabulary x ndim {None,3,4} x 2 required sets x node/edge", seed, exhaustive=False)]


def bounded(tier, seed):
    from ._common import model_checks
    return _bounded(tier, seed) + model_checks(tier, "difflib", shape=False, seed=seed)
