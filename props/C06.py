"""C06 - track lookups and freshly issued ids agree with the graph."""
from contracts import primitives, useractions
from ._common import TRUSTED_TRACKS, UA_ALL

LEVEL = "other"
TRUSTED = TRUSTED_TRACKS
EXPLANATION = (
    "PROVED (SMT, unbounded): B1 (the per-track lookup lists each node carrying the id exactly once, as a bag) and B2 (max ids dominate "
    "all ids in use, so max+1 is fresh) are preserved by every user action; AddNode/DeleteNode are proved to add/remove exactly the "
    "node under its id in both lookups (real bookkeeping helpers inlined) and to raise the maxima. The bodies of get_track_neighbors (in-place sort by "
    "time, scan with break: loop invariant over the sorted lookup list) and has_track_id_at_time are PROVED against their query contracts: results equal a "
    "scan of the graph for every track id and time. The lookup bookkeeping at the end of the relabel walk is PROVED too: the four leaf helpers (_remove_from/_add_to x tracklet/lineage) against bag specifications for node lists of every length (contracts/bookkeeping.py), and the walk body to re-establish B1 and raise the maxima (contracts/walk.py, invariants K10/K11 on the collected node lists). Tracks._get_new_node_ids is proved to return pairwise distinct ids none of which is a node, all below the advanced counter (partial correctness; contracts/newids.py). BOUNDED cross-check (not a proof): the walk's lookups on all small forests; the query bodies "
    "are additionally cross-checked natively on all small forests with every order of the lookup lists.")
ASSUMPTIONS = ["tracklet (and, for the lineage clauses, lineage) feature enabled and registered",
               "lineage lookup B1 is claimed only through AddNode/DeleteNode contracts and the bounded walk check"]
NOT_UNDER_CONTRACT = []


def units(tier):
    from contracts import bookkeeping, queries, walk
    from contracts import bulkids, newids
    return newids.units() + bulkids.units() + bookkeeping.units() + walk.units() + queries.units() + useractions.units(UA_ALL) + useractions.units(UA_ALL, {"lineage_inv": True}) + primitives.units(names=["AddNodeC", "DeleteNodeC"])


def _bounded(tier, seed):
    from pyvc.native_bridge import bounded_walk
    return [bounded_walk(tier, "queries,walk", "queries-and-walk-bookkeeping",
                         "real get_track_neighbors/has_track_id_at_time vs a scan of the graph for every track id (+1 unused) and every "
                         "time in [-1, max+1]; lookup/maxima after the real walk vs the graph")]


def witness(label, failure, seed):
    from pyvc.native_bridge import tracks_witness
    return tracks_witness("C06", label, failure, seed)


def bounded(tier, seed):
    from ._common import model_checks
    return _bounded(tier, seed) + model_checks(tier, "networkx", shape=True, seed=seed)
