from contracts import history, primitives, useractions
from ._common import TRUSTED_TRACKS, UA_ALL

LEVEL = "proof"
TRUSTED = TRUSTED_TRACKS + ["call-site contracts of the sub-action constructors used by UserUpdateSegmentation at the level of abstract world states (raise => world unchanged; return => a record with src/dst; registers/emits iff _top_level): proved of the real UserDeleteNode / UserAddNode constructors (clauses C11 on-raise, C02/C20 iff-top-level) and of the primitive UpdateNodeSeg (contracts/segprims.py); a.inverse() moves the world from dst(a) to src(a) (C01's conclusion)"]
EXPLANATION = ("Exceptional postcondition: on every symbolic path of a user-action constructor (and of every primitive) that ends "
               "in a raise, the ghost counters of completed mutations, history registrations and refresh emissions equal their "
               "entry values. Path feasibility is decided under INV; an infeasible raising path is discharged as hyps |- False. "
               "UserUpdateSegmentation (contracts/paint.py): whichever step raises - no segmentation, a refused sub-action after any number of applied "
               "ones, the one-time-point assertion, a missing tracklet key - the rollback loop inverts the applied sub-actions in reverse order, each "
               "where it is invertible, and ends in the entry world (loop invariant over lists of every length); nothing is registered or emitted.")
ASSUMPTIONS = ["documented argument typing: time / track id attribute values are ints", "UserUpdateSegmentation: 'once the caller has restored the painted pixels' - the array cells the caller painted are outside the abstract world state"]


def units(tier):
    from contracts import paint
    return useractions.units(UA_ALL) + primitives.units() + paint.units()


def witness(label, failure, seed):
    from pyvc.native_bridge import tracks_witness
    return tracks_witness("C11", label, failure, seed)


def _bounded(tier, seed):
    """the paint-driven UserUpdateSegmentation is under contract only at the level of abstract world states: native
    scenarios check the concrete state (graph, attributes, array, lookups, history) after every refused stroke;
    a recorded known finding is recognised by its call site and message, anything else is a violation"""
    import json
    import os
    from pyvc.native_bridge import bounded_harness, bounded_paint
    from pyvc.report import KNOWN
    pats = [k["pattern"] for k in json.load(open(KNOWN)).get("findings", []) if k.get("property") == "C11" and k.get("bounded") == "refused-paint"]
    return [bounded_harness(tier, "C11", "refused-paint", "refused edits (all seven user actions, paint strokes emphasised) must leave graph, attributes, "
                            "segmentation, lookups and history unchanged and emit nothing", seed, focus="paint", segonly=True, ignore=pats),
            bounded_paint(tier, "C11", "a refused stroke (caller restores the painted pixels) leaves graph, attributes, segmentation, lookups and history unchanged", ignore=pats)]


def bounded(tier, seed):
    from ._common import model_checks
    return _bounded(tier, seed) + model_checks(tier, "networkx", shape=True, seed=seed)
