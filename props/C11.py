from contracts import history, primitives, useractions
from ._common import TRUSTED_TRACKS, UA_ALL

LEVEL = "proof"
TRUSTED = TRUSTED_TRACKS
EXPLANATION = ("Exceptional postcondition: on every symbolic path of a user-action constructor (and of every primitive) that ends "
               "in a raise, the ghost counters of completed mutations, history registrations and refresh emissions equal their "
               "entry values. Path feasibility is decided under INV; an infeasible raising path is discharged as hyps |- False.")
ASSUMPTIONS = ["documented argument typing: time / track id attribute values are ints", "UserUpdateSegmentation: see C07/known findings"]


def units(tier):
    return useractions.units(UA_ALL) + primitives.units()


def witness(label, failure, seed):
    from pyvc.native_bridge import tracks_witness
    return tracks_witness("C11", label, failure, seed)
