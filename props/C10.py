"""C10 - feature switching is history-independent; managed features are protected."""
from contracts import primitives, segprims, useractions
from ._common import TRUSTED_TRACKS, UA_ALL
from .C07 import SEG, SEGP

LEVEL = "other"
TRUSTED = TRUSTED_TRACKS
EXPLANATION = (
    "PROVED (SMT, unbounded): (a) protection - UpdateNodeAttrs raises ValueError, before any write, iff one of the given keys is the time key or a key "
    "of any annotator's feature table, whether that feature is enabled or not (raises-iff clauses, loop invariant of the validation loop); (b) a "
    "disabled feature is not written by edits - RegionpropsAnnotator.update / EdgeAnnotator.update write exactly the ACTIVE keys (their ensures name "
    "the active flag of every table entry) and the primitives' contracts guard every recomputed attribute by that flag; the lineage rewrite of the "
    "relabel walk happens iff the lineage feature is enabled (proved of the real walk body); (c) switching - for key lists of every length (contracts/registry.py): "
    "GraphAnnotator.activate_features / deactivate_features set the flag of exactly the given keys of the annotator's table; AnnotatorRegistry.activate_features / "
    "deactivate_features raise KeyError iff some key is in no annotator's table and then no table has changed, otherwise every annotator's flags are set; "
    "Tracks.enable_features / disable_features: KeyError => tables and FeatureDict unchanged and nothing computed, otherwise the FeatureDict is the previous one plus / minus "
    "exactly the given keys (existing entries kept, new ones carry the owning annotator's Feature) and the bulk computation is requested exactly once with the given keys iff "
    "recompute. So 'registered = initially registered + enabled - disabled' holds by induction over any sequence of switches. "
    "The bulk computations that enable_features requests are proved: region features (contracts/bulkrp.py), edge IoU (contracts/bulkiou.py), track and lineage ids (contracts/bulkids.py) - each writes "
    "exactly the reference values for the current state. "
    "AnnotatorRegistry.compute is proved to call every annotator's compute once with the given keys, TrackAnnotator.compute to assign track / lineage ids iff the respective key is requested and active. "
    "BOUNDED STAND-INS (not proofs): whole interleavings of enable/disable/edits/undo/redo "
    "against the reference; the walk with the lineage feature switched off.")
ASSUMPTIONS = ["the track id of a SolutionTracks is never disabled (with it off the TrackAnnotator ignores every edit; outside the domain of C04-C06)",
               "an element deleted and re-created by an edit is a new element: its disabled attributes are not expected to be carried over"]
NOT_UNDER_CONTRACT = ["registries with other than three annotators (user-appended ones)"]


def units(tier):
    from contracts import bulkids, bulkiou, bulkrp, registry, walk
    return registry.units() + bulkrp.units() + bulkiou.units() + bulkids.units() + walk.units() + (primitives.units(names=["UpdateNodeAttrsC"]) + primitives.units(SEGP, names=["UpdateNodeAttrsC"]) + segprims.annotator_units())


def _bounded(tier, seed):
    from pyvc.native_bridge import bounded_harness, bounded_walk
    return [bounded_harness(tier, "C10,C04,C05,C08,C09", "enable-disable-interleavings", "enable_features/disable_features of random subsets (incl. an unknown key) "
                            "interleaved with edits, undo, redo; oracles: registry = static + enabled, KeyError changes nothing, disabled features frozen, "
                            "enabled features equal their reference after recomputation", seed),
            bounded_walk(tier, "walk", "walk-lineage-flag", "real _handle_update_track_ids with the lineage feature on and off")]


def witness(label, failure, seed):
    from pyvc.native_bridge import tracks_witness
    return tracks_witness("C10", label, failure, seed)


def bounded(tier, seed):
    from ._common import model_checks
    return _bounded(tier, seed) + model_checks(tier, "networkx,regionprops,compute_ious", shape=True, seed=seed)
