"""C05 - lineage ids label exactly the connected components."""
from contracts import useractions
from ._common import TRUSTED_TRACKS, UA_ALL

LEVEL = "other"
TRUSTED = TRUSTED_TRACKS
EXPLANATION = (
    "PROVED (SMT, unbounded): the local clauses L1 (edge endpoints carry equal lineage ids), L2 (distinct roots carry distinct ids), "
    "'every node has a lineage id' and 'lineage ids <= max lineage id' are preserved by every user-action constructor whenever the "
    "lineage feature is enabled. Local => global ('same id iff connected') is bridge lemma M1 (Lean). The relabel walk body is PROVED against its contract (lineage rewritten for exactly the nodes below start, iff the lineage feature is enabled). "
    "BOUNDED STAND-IN (not a proof): bulk assignment.")
ASSUMPTIONS = ["the lineage feature is enabled", "a new node's lineage is derived by UserAddNode (attributes contain time and track id, not a lineage id)",
               "undo/redo: through C01 and C02"]
LEMMAS = ["M1 (L1&L2 <=> same lineage id iff connected)", "M3 facts of the descendant closure"]
NOT_UNDER_CONTRACT = ["TrackAnnotator._assign_lineage_ids (bounded stand-in)"]


def units(tier):
    from contracts import walk
    return walk.units() + useractions.units(UA_ALL, {"lineage_inv": True})


def bounded(tier, seed):
    from pyvc.native_bridge import bounded_walk
    return [bounded_walk(tier, "walk,bulk", "walk-and-bulk-assignment",
                         "real _handle_update_track_ids vs contract K1 (lineage rewritten for every node below start) and real bulk "
                         "lineage assignment vs weakly connected components")]


def witness(label, failure, seed):
    from pyvc.native_bridge import tracks_witness
    return tracks_witness("C05", label, failure, seed)
