"""C05 - lineage ids label exactly the connected components."""
from contracts import useractions
from ._common import TRUSTED_TRACKS, UA_ALL

LEVEL = "other"
TRUSTED = TRUSTED_TRACKS
EXPLANATION = (
    "PROVED (SMT, unbounded): the local clauses L1 (edge endpoints carry equal lineage ids), L2 (distinct roots carry distinct ids), "
    "'every node has a lineage id' and 'lineage ids <= max lineage id' are preserved by every user-action constructor whenever the "
    "lineage feature is enabled. Local => global ('same id iff connected') is bridge lemma M1 (Lean). The relabel walk body is PROVED against its contract (lineage rewritten for exactly the nodes below start, iff the lineage feature is enabled). "
    "Base case PROVED too (contracts/bulkids.py): the real bulk assignment at construction (_assign_tracklet_ids / _assign_lineage_ids, _assign_ids, Tracks._set_nodes_attr) gives every node the id 1 + index of its component - components of the graph minus the out-edges of dividing nodes for track ids, of the whole graph for lineage ids -, which yields has_id and T1 / L1 directly and T2 / L2 by the Lean lemmas segment_iff_tracklet_gives_T1_T2 / connected_iff_lineage_gives_L1_L2 from the definition of weakly connected components; the lookups list exactly the nodes per id and the maxima equal the number of components (B1, B2). So the invariant holds after construction and is preserved by every edit. BOUNDED cross-check (not a proof): walk and bulk assignment on small forests.")
ASSUMPTIONS = ["the lineage feature is enabled", "a new node's lineage is derived by UserAddNode (attributes contain time and track id, not a lineage id)",
               "undo/redo: through C01 and C02"]
LEMMAS = ["M1 (L1&L2 <=> same lineage id iff connected)", "M3 facts of the descendant closure"]
NOT_UNDER_CONTRACT = []


def units(tier):
    from contracts import walk
    from contracts import bulkids
    return bulkids.units() + walk.units() + useractions.units(UA_ALL, {"lineage_inv": True})


def _bounded(tier, seed):
    from pyvc.native_bridge import bounded_walk
    return [bounded_walk(tier, "walk,bulk", "walk-and-bulk-assignment",
                         "real _handle_update_track_ids vs contract K1 (lineage rewritten for every node below start) and real bulk "
                         "lineage assignment vs weakly connected components")]


def witness(label, failure, seed):
    from pyvc.native_bridge import tracks_witness
    return tracks_witness("C05", label, failure, seed)


def bounded(tier, seed):
    from ._common import model_checks
    return _bounded(tier, seed) + model_checks(tier, "networkx", shape=True, seed=seed)
