"""C04 - track ids label exactly the maximal unbranched segments."""
from contracts import useractions
from ._common import TRUSTED_TRACKS, UA_ALL

LEVEL = "other"
TRUSTED = TRUSTED_TRACKS
EXPLANATION = (
    "PROVED (SMT, unbounded): the local clauses T1 (an edge leaving a non-dividing node joins equal ids), T2 (distinct segment heads "
    "carry distinct ids) and 'every node has an id' are preserved by every user-action constructor on a symbolic forest; the call-site "
    "preconditions P1/P2 of the relabel walk hold at every call; nested edge edits rewrite ids exactly below the relabelled node "
    "(clause 'track-ids-rewritten-exactly...', which is the frame statement of the property). Local => global ('same id iff same "
    "segment') is bridge lemma M2 (Lean). The relabel walk TrackAnnotator._handle_update_track_ids itself is PROVED against its contract (nested BFS loops, 9+ invariants over ghost visited/frontier sets, "
    "lemma M3'). Base case PROVED too (contracts/bulkids.py): the real bulk assignment at construction (_assign_tracklet_ids / _assign_lineage_ids, _assign_ids, Tracks._set_nodes_attr) gives every node the id 1 + index of its component - components of the graph minus the out-edges of dividing nodes for track ids, of the whole graph for lineage ids -, which yields has_id and T1 / L1 directly and T2 / L2 by the Lean lemmas segment_iff_tracklet_gives_T1_T2 / connected_iff_lineage_gives_L1_L2 from the definition of weakly connected components; the lookups list exactly the nodes per id and the maxima equal the number of components (B1, B2). So the invariant holds after construction and is preserved by every edit. BOUNDED cross-check (not a proof): walk and bulk assignment on every forest up to the stated bound.")
ASSUMPTIONS = ["the tracklet feature is enabled (otherwise edits do not maintain ids at all)",
               "undo/redo: covered through C01 (inverse restores ids) and C02 (history lands on timeline states)"]
LEMMAS = ["M2 (T1&T2 => same id iff same segment)", "M2' segment facts used as hypotheses of the entry state and after nested edits",
          "M3 facts of the descendant closure, monotone under edge removal"]
NOT_UNDER_CONTRACT = []


def units(tier):
    from contracts import walk
    from contracts import bulkids
    return bulkids.units() + walk.units() + useractions.units(UA_ALL)


def _bounded(tier, seed):
    from pyvc.native_bridge import bounded_walk
    return [bounded_walk(tier, "walk,bulk", "walk-and-bulk-assignment",
                         "real _handle_update_track_ids vs contract K1 for every start node, every track-id assignment over 3 values "
                         "satisfying P1/P2, 3 (new id, new lineage) choices; real bulk assignment vs segment/component partition")]


def witness(label, failure, seed):
    from pyvc.native_bridge import tracks_witness
    return tracks_witness("C04", label, failure, seed)


def bounded(tier, seed):
    from ._common import model_checks
    return _bounded(tier, seed) + model_checks(tier, "networkx", shape=True, seed=seed)
