"""C15 - subset export is closed under ancestors and contains nothing else"""
LEVEL = "other"
TRUSTED = ["reference semantics written from the property statement (native/pure_bounded.py)"]
EXPLANATION = ("PROVED (SMT, unbounded, symbolic graph and selection): filter_graph_with_ancestors returns exactly the selection plus all ancestors (loop invariant over the set iteration; networkx.ancestors modelled as the transitive closure; closure and minimality as lemma M5), closed under parents, graph untouched. BOUNDED STAND-IN for the rest: real filter_graph_with_ancestors / export_to_csv / export_to_geff on forests with <= 4 (5) nodes and sampled node subsets, with and without segmentation; exported ids, parent column, geff nodes/edges and the exported label array are compared with 'selection + all ancestors, every edge among them, masks of exactly those nodes'.")
ASSUMPTIONS = ["bounded stand-in only: exhaustive/sampled over the stated finite space, not a proof"]
NOT_UNDER_CONTRACT = ["export_to_csv (row loop)", "export_to_geff (subgraph + chunk tiling loop)"]


def units(tier):
    from contracts import exports
    return exports.units()


def bounded(tier, seed):
    from pyvc.native_bridge import bounded_pure
    return [bounded_pure(tier, "c15", "c15", "quick: 24 sampled forests <= 4 nodes; thorough: every forest <= 4 nodes + 60 sampled 5-node forests; x <= 3 (6) sampled subsets x seg on/off; CSV and GEFF written and read back", seed, exhaustive=False)]
