from contracts import history, primitives, useractions
from ._common import TRUSTED_TRACKS, UA_ALL

LEVEL = "proof"
TRUSTED = TRUSTED_TRACKS + ["call-site contracts of the sub-action constructors used by UserUpdateSegmentation at the level of abstract world states (raise => world unchanged; return => a record with src/dst; registers/emits iff _top_level): proved of the real UserDeleteNode / UserAddNode constructors (clauses C11 on-raise, C02/C20 iff-top-level) and of the primitive UpdateNodeSeg (contracts/segprims.py); a.inverse() moves the world from dst(a) to src(a) (C01's conclusion)"]
EXPLANATION = ("Ghost emission log: refresh.emit appends its arguments; every normal exit of a top-level user action, undo and "
               "redo has exactly one entry (the new node for UserAddNode), nested and refused ones none. All seven user actions are under contract: the "
               "paint-driven UserUpdateSegmentation (contracts/paint.py) emits once after its sub-actions, which it creates with _top_level=False, and "
               "carries new_value iff it created that node. The exhaustive paint-stroke enumeration is a native cross-check.")
ASSUMPTIONS = ["connected callbacks are not executed (they cannot be known)"]
NOT_UNDER_CONTRACT = []


def _bounded(tier, seed):
    from pyvc.native_bridge import bounded_paint
    return [bounded_paint(tier, "C20", "exactly one refresh per accepted stroke (carrying the new node when one is created), per undo and per redo; none when refused")]


def units(tier):
    from contracts import paint
    return useractions.units(UA_ALL) + history.tracks_units() + paint.units()


def witness(label, failure, seed):
    from pyvc.native_bridge import tracks_witness
    return tracks_witness("C20", label, failure, seed)


def bounded(tier, seed):
    from ._common import model_checks
    return _bounded(tier, seed) + model_checks(tier, "networkx", shape=True, seed=seed)
