from contracts import history, primitives, useractions
from ._common import TRUSTED_TRACKS, UA_ALL

LEVEL = "proof"
TRUSTED = TRUSTED_TRACKS
EXPLANATION = ("Ghost emission log: refresh.emit appends its arguments; every normal exit of a top-level user action, undo and "
               "redo has exactly one entry (the new node for UserAddNode), nested and refused ones none.")
ASSUMPTIONS = ["connected callbacks are not executed (they cannot be known)"]


def units(tier):
    return useractions.units(UA_ALL) + history.tracks_units()


def witness(label, failure, seed):
    from pyvc.native_bridge import tracks_witness
    return tracks_witness("C20", label, failure, seed)
