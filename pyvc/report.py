"""Per-property check runner: obligations -> verdict, known findings, replay files, evidence, exit code.

Exit codes: 0 held (known findings are printed, not alarms) / 1 VIOLATION / 2 UNDECIDED / 3 checker crash.
`unknown`, time-outs and tracebacks are never mapped to a violation on their own: an undischarged
obligation is a violation only if the solver produced a counter-model (`sat`) or the obligation is in
locks/<id>.lock.json (it was discharged on the unchanged tree) - in both cases a native witness search
on the real code is run and the failing input, if found, is written to the replay file.
"""
from __future__ import annotations

import hashlib
import json
import os
import sys
import time

VERIF = os.path.dirname(os.path.dirname(os.path.abspath(__file__)))
LOCKDIR = os.path.join(VERIF, "locks")
KNOWN = os.path.join(VERIF, "known_findings.json")

SEMANTICS_ASSUMPTIONS = [
    "Python int is mathematical; NumPy integer arrays are treated as mathematical integers (no overflow)",
    "floats are opaque values; library functions are deterministic; no NaN reasoning",
    "left-to-right evaluation, short-circuit and/or; dict iterates in insertion order, set in arbitrary order",
    "only modelled exception sources exist (explicit raise, assert, d[k], l[i], next(), unpacking, list.remove, "
    "callee raises clauses); no MemoryError/recursion limits/signals/library-internal errors",
    "objects have the declared shape (factory in pyvc/tracksfactory.py); only declared aliases exist",
    "refresh.emit appends to a ghost log; connected callbacks are not executed",
    "partial correctness: termination of while loops is not proved",
    "attribute 'missing' and attribute 'present with value None' are identified in the abstract view",
    "front end drops: docstrings, annotations, warnings.warn/logger calls, tqdm(x)->x, cast(T,x)->x, @override, "
    "text of f-strings and exception messages",
]


def load_json(p, default):
    try:
        with open(p) as f:
            return json.load(f)
    except FileNotFoundError:
        return default


def path_sig(path):
    return hashlib.sha1("|".join(path).encode()).hexdigest()[:10]


def match_known(known, prop, label, path):
    for kf in known.get("findings", []):
        if kf.get("property") != prop:
            continue
        if not (kf.get("obligation") or kf.get("obligation_prefix")):
            continue  # a finding of a bounded check: never matches an SMT obligation
        if kf.get("obligation") and kf["obligation"] != label:
            continue
        if kf.get("obligation_prefix") and not label.startswith(kf["obligation_prefix"]):
            continue
        need = kf.get("path_contains", [])
        if all(any(n == ev or n in ev for ev in path) for n in need):
            return kf
    return None


class PropertyRun:
    def __init__(self, prop, tier, seed):
        self.prop, self.tier, self.seed = prop, tier, seed
        self.t0 = time.time()
        self.lines = []
        self.violations = []  # (label, replay path, found_input)
        self.known_hits = []
        self.undecided = []

    def say(self, s):
        print(s, flush=True)
        self.lines.append(s)


def run_property(prop, mod, tier="quick", seed=0, update_lock=False):
    """mod: props.<id> module with units(tier), optional bounded(tier), witness(label, failure), LEVEL..."""
    from .verify import run_units

    pr = PropertyRun(prop, tier, seed)
    known = load_json(KNOWN, {"findings": [], "fixed": []})
    lockfile = os.path.join(LOCKDIR, f"{prop}.lock.json")
    lock = {prop: load_json(lockfile, [])}
    thorough = tier == "thorough"
    units = mod.units(tier)
    reports, table, nuniq = run_units(units, timeout=30 if thorough else 10, retry=240 if thorough else 60,
                                      want_both=thorough, only_prop=prop)
    mine = {k: e for k, e in table.items() if prop in e["props"]}
    # obligations decided by a static analysis of the real AST instead of an SMT query (frame conditions)
    if hasattr(mod, "analysis_obligations"):
        for ob in mod.analysis_obligations(tier):
            mine[ob["label"]] = {
                "label": ob["label"], "kind": ob.get("kind", "frame"), "props": {prop}, "instances": 1,
                "discharged": 1 if ob["ok"] else 0, "solvers": {ob.get("backend", "frame-analysis")}, "time": 0.0,
                "units": {ob.get("func", "")}, "func": ob.get("func", ""),
                "failed": [] if ob["ok"] else [{"result": "sat", "path": [ob.get("note", "")], "unit": ob.get("func", ""),
                                                 "attempts": [("frame-analysis", "violated", 0)], "smt2": "", "note": ob.get("note", "")}],
            }
            if ob.get("source"):
                reports.append({"unit": ob["func"], "func": ob["func"], "source": ob["source"], "errors": [], "paths": 0, "cuts": 0, "outcomes": [], "obligs": []})
    engine_errors = [f"{r['unit']}: {e}" for r in reports for e in r["errors"]]
    funcs = {}
    for r in reports:
        if "source" in r:
            funcs[r["func"]] = r["source"]
    locked = set(lock.get(prop, []))
    discharged = [k for k, e in mine.items() if e["discharged"] == e["instances"]]
    failed = {k: e for k, e in mine.items() if e["discharged"] != e["instances"]}
    # an obligation that was discharged on the locked tree and is no longer generated is undecided (re-locking accepts the new set)
    missing = [] if update_lock else sorted(locked - set(mine))

    # ---- triage of undischarged obligations
    os.makedirs(os.path.join(VERIF, "replays"), exist_ok=True)
    reported = set()
    for label, e in sorted(failed.items()):
        for fi in e["failed"]:
            if label in reported:
                continue
            kf = match_known(known, prop, label, fi["path"])
            if kf is not None:
                pr.known_hits.append((kf, label, fi))
                continue
            is_cex = fi["result"] in ("sat", "disagree")
            regression = label in locked
            if not (is_cex or regression):
                pr.undecided.append((label, fi["result"], fi["path"]))
                continue
            # violation: search a concrete failing input on the real code
            witness = None
            if hasattr(mod, "witness"):
                try:
                    witness = mod.witness(label, fi, seed)
                except Exception as ex:  # the search is best effort; its crash is not a verdict
                    witness = {"search_error": repr(ex)}
            found = bool(witness and witness.get("found"))
            rp = os.path.join(VERIF, "replays", f"{prop}-{hashlib.sha1((label + path_sig(fi['path'])).encode()).hexdigest()[:12]}.json")
            with open(rp, "w") as f:
                json.dump({
                    "property": prop, "obligation": label, "unit": fi["unit"], "path": fi["path"],
                    "all_failing_paths": [x["path"] for x in e["failed"] if match_known(known, prop, label, x["path"]) is None][:20],
                    "solver_result": fi["result"], "solver_attempts": fi["attempts"],
                    "was_discharged_on_unchanged_tree": regression,
                    "witness": witness, "replay_cmd": f"./check {prop} --replay {rp}",
                    "smt2": fi["smt2"][:200000],
                }, f, indent=1, default=str)
            pr.violations.append((label, rp, found))
            reported.add(label)
    seen_kf = set()
    for kf, label, fi in pr.known_hits:
        key = kf.get("id", kf.get("what"))
        if key in seen_kf:
            continue
        seen_kf.add(key)
        pr.say(f"KNOWN-FINDING: property={prop} {kf['what']}")

    # ---- bounded stand-ins / native cross-checks
    bounded = []
    if hasattr(mod, "bounded"):
      for b in mod.bounded(tier, seed):
            bounded.append(b)
            if b.get("error"):
                # a stand-in that produced no result (time-out, harness crash) has explored nothing: the run is undecided,
                # it must count neither as held nor as a violation
                engine_errors.append(f"bounded/{b.get('name')}: no result ({str(b['error'])[-200:]})")
            if b.get("known_seen"):
                for k2 in known.get("findings", []):
                    if k2.get("property") == prop and k2.get("bounded") == b["name"]:
                        key = k2.get("id", k2.get("what"))
                        if key not in seen_kf:
                            seen_kf.add(key)
                            pr.say(f"KNOWN-FINDING: property={prop} {k2['what']}")
            if b.get("violations"):
                for v in b["violations"]:
                    kf = None
                    for k2 in known.get("findings", []):
                        if k2.get("property") == prop and k2.get("bounded") == b["name"] and k2.get("match", "") in json.dumps(v, default=str):
                            kf = k2
                    if kf is not None:
                        key = kf.get("id", kf.get("what"))
                        if key not in seen_kf:
                            seen_kf.add(key)
                            pr.say(f"KNOWN-FINDING: property={prop} {kf['what']}")
                        continue
                    rp = os.path.join(VERIF, "replays", f"{prop}-bounded-{b['name']}.json")
                    with open(rp, "w") as f:
                        json.dump({"property": prop, "bounded_check": b["name"], "witness": v,
                                   "replay_cmd": f"./check {prop} --replay {rp}"}, f, indent=1, default=str)
                    pr.violations.append((f"bounded/{b['name']}", rp, True))
                    break

    for label, rp, found in pr.violations:
        pr.say(f"VIOLATION property={prop} replay={rp} obligation={label}" + ("" if found else " no-failing-input-found"))
    for label, res, path in pr.undecided:
        pr.say(f"UNDECIDED {label} solver={res} path={path[-3:]}")
    for m in missing:
        pr.say(f"UNDECIDED {m} obligation-not-generated (present in locks/<id>.lock.json)")
    for e in engine_errors:
        pr.say(f"UNDECIDED engine: {e}")

    if update_lock and not pr.violations:
        os.makedirs(LOCKDIR, exist_ok=True)
        with open(lockfile, "w") as f:
            json.dump(sorted(discharged), f, indent=0)

    # ---- evidence
    n_obl = len(mine)
    n_dis = len(discharged)
    level = getattr(mod, "LEVEL", "proof")
    solver_time = round(sum(e["time"] for e in mine.values()), 3)
    samples = []
    for k in sorted(mine)[:3]:
        e = mine[k]
        samples.append({"obligation": k, "kind": e["kind"], "instances(paths)": e["instances"],
                        "solvers": sorted(e["solvers"]), "solver_time_s": round(e["time"], 3)})
    per_obl = [{"id": k, "kind": e["kind"], "paths": e["instances"], "discharged": e["discharged"],
                "solvers": sorted(e["solvers"]), "time_s": round(e["time"], 3)} for k, e in sorted(mine.items())]
    cov = {
        "obligations": n_obl, "discharged": n_dis,
        "checker_cmd": f"./check {prop} --tier {tier}",
        "trusted_base": list(getattr(mod, "TRUSTED", [])) + [
            "pyvc (own AST->VC generator, /verif/pyvc)", "z3 5.1.0 (z3-new)", "cvc5 1.0.3 (takes z3's unknowns)"],
        "explanation": getattr(mod, "EXPLANATION", ""),
        "functions_under_contract": funcs,
        "obligation_instances": sum(e["instances"] for e in mine.values()),
        "distinct_smt_queries": nuniq,
        "solver_time_s": solver_time,
        "per_obligation": per_obl,
        "samples": samples,
        "paths_explored": {r["unit"]: {"paths": r["paths"], "cut_after_invariant": r["cuts"], "outcomes": sorted(set(r["outcomes"]))} for r in reports},
        "bounded_stand_ins": [{k: v for k, v in b.items() if k != "violations"} for b in bounded],
        "known_findings_hit": sorted({kf.get("id", kf["what"]) for kf, _, _ in pr.known_hits}),
        "undischarged": sorted(failed),
        "undecided": [u[0] for u in pr.undecided] + missing + engine_errors,
        "vacuity": {"zero_obligations": n_obl == 0, "lock_count": len(locked), "missing_vs_lock": missing},
        "functions_not_under_contract": list(getattr(mod, "NOT_UNDER_CONTRACT", [])),
        "lemmas": list(getattr(mod, "LEMMAS", [])),
    }
    if bounded:
        cov["evaluations"] = sum(b.get("cases", 0) for b in bounded)
        cov["distinct_nontrivial"] = sum(b.get("nontrivial", 0) for b in bounded)
        cov["rule"] = "; ".join(f"{b['name']}: {b.get('rule', '')}" for b in bounded)
        cov["exhaustive"] = all(b.get("exhaustive", False) for b in bounded)
    ev = {
        "property_id": prop, "tier": tier, "seed": seed, "level": level, "coverage": cov,
        "assumptions": SEMANTICS_ASSUMPTIONS + list(getattr(mod, "ASSUMPTIONS", [])),
        "wall_s": round(time.time() - pr.t0, 2), "violations": len(pr.violations),
    }
    # runs against a scratch copy of the repository (self-tests with seeded changes) must not overwrite the
    # evidence of the real tree
    evdir = os.path.join(VERIF, "evidence" if not os.environ.get("PYVC_REPO_SRC") else "evidence-scratch")
    os.makedirs(evdir, exist_ok=True)
    with open(os.path.join(evdir, f"{prop}.json"), "w") as f:
        json.dump(ev, f, indent=1, default=str)

    pr.say(f"[{prop}] tier={tier} obligations={n_obl} discharged={n_dis} known-findings={len(seen_kf)} "
           f"violations={len(pr.violations)} undecided={len(pr.undecided) + len(missing) + len(engine_errors)} "
           f"solver_time={solver_time}s wall={ev['wall_s']}s")
    if pr.violations:
        return 1
    if n_obl == 0 and not bounded:
        pr.say(f"UNDECIDED zero obligations generated for {prop}")
        return 2
    if pr.undecided or missing or engine_errors:
        return 2
    return 0
