"""Interpreter values other than plain Python constants and `Sym`."""
from __future__ import annotations

import z3

from .core import Unsupported
from .terms import Sym, to_z3


class Instance:
    """An instance of a class defined in the repository (concrete heap shape, symbolic leaves)."""

    def __init__(self, cls, fields=None, store=None):
        self.cls = cls  # frontend.ClassInfo
        self.fields = fields if fields is not None else {}
        self.store = store  # backing list / dict model for subclasses of list / dict

    def __repr__(self):
        return f"<{self.cls.name} {list(self.fields)}>"


class FuncVal:
    def __init__(self, node, module, env=None, cls=None, qualname=None):
        self.node, self.module, self.env, self.cls = node, module, env, cls
        self.qualname = qualname or node.name


class LambdaVal:
    def __init__(self, node, module, env, cls=None):
        self.node, self.module, self.env, self.cls = node, module, env, cls


class BoundMethod:
    def __init__(self, self_val, func: FuncVal):
        self.self_val, self.func = self_val, func


class ClassVal:
    def __init__(self, cls):
        self.cls = cls


class ModuleVal:
    def __init__(self, mod):
        self.mod = mod


class ExtRef:
    """Something from outside the repository (numpy, networkx, builtins...), by dotted name."""

    def __init__(self, name):
        self.name = name

    def __repr__(self):
        return f"<ext {self.name}>"


class SuperProxy:
    def __init__(self, inst, after_cls):
        self.inst, self.after_cls = inst, after_cls


class BoundModel:
    def __init__(self, obj, name):
        self.obj, self.name = obj, name


class BuiltinExc:
    def __init__(self, name, args=()):
        self.name, self.args = name, args

    def __repr__(self):
        return f"{self.name}{self.args!r}"


EXC_PARENTS = {
    "KeyError": "LookupError", "IndexError": "LookupError", "LookupError": "Exception",
    "ValueError": "Exception", "TypeError": "Exception", "RuntimeError": "Exception",
    "NotImplementedError": "RuntimeError", "AssertionError": "Exception", "StopIteration": "Exception",
    "AttributeError": "Exception", "FileNotFoundError": "OSError", "OSError": "Exception",
    "ZeroDivisionError": "ArithmeticError", "ArithmeticError": "Exception", "Exception": "BaseException",
}


def exc_names(exc):
    """All class names an exception value is an instance of."""
    if isinstance(exc, BuiltinExc):
        out, n = [], exc.name
        while n:
            out.append(n)
            n = EXC_PARENTS.get(n)
        return out
    if isinstance(exc, Instance):
        out = [c.name for c in exc.cls.mro()]
        for b in exc.cls.external_bases():
            n = b
            while n:
                out.append(n)
                n = EXC_PARENTS.get(n)
        return out
    return ["?"]


class PyRaise(Exception):
    def __init__(self, exc):
        self.exc = exc


class ModelObj:
    """Base of library models (networkx graph, numpy array, dict/list with symbolic content...)."""

    type_names: tuple = ()

    def m_getattr(self, I, name):
        if hasattr(self, "do_" + name):
            return BoundModel(self, name)
        if hasattr(self, "attr_" + name):
            return getattr(self, "attr_" + name)(I)
        raise Unsupported(f"{type(self).__name__}.{name}")

    def m_call(self, I, name, args, kw):
        return getattr(self, "do_" + name)(I, *args, **kw)

    def m_truthy(self, I):
        return True


def ite_val(c, a, b):
    """if-then-else over interpreter values."""
    if a is b:
        return a
    if isinstance(c, bool):
        return a if c else b
    if isinstance(a, tuple) and isinstance(b, tuple) and len(a) == len(b):
        return tuple(ite_val(c, x, y) for x, y in zip(a, b))
    try:
        ea, eb = to_z3(a), to_z3(b)
    except TypeError:
        raise Unsupported(f"ite over {type(a).__name__}/{type(b).__name__}")
    if ea.sort() != eb.sort():
        from .terms import Val
        ea, eb = to_z3(a, Val), to_z3(b, Val)
    return Sym(z3.If(c, ea, eb))


class SymList(ModelObj):
    """A Python list with symbolic length: n : Int and f : index term -> value.

    Updates rebuild `f` as a closure (definitional unfolding, no quantified axioms); a havocked
    list is backed by a fresh uninterpreted function.  `elem_sort` is kept for havoc.
    """

    type_names = ("list",)

    def __init__(self, n, f, wrap=None, elem_sort=None):
        self.n, self.f, self.elem_sort = n, f, elem_sort

    @staticmethod
    def fresh(ctx, name, sort, wrap=None):
        F = ctx.fresh_fun(name, z3.IntSort(), sort)
        n = ctx.fresh(name + "_len", z3.IntSort())
        ctx.assume(n >= 0)
        w = wrap or (lambda e: Sym(e))
        sl = SymList(n, lambda i: w(F(i)), elem_sort=sort)
        sl.F = F
        return sl

    @staticmethod
    def empty(sort=None):
        return SymList(z3.IntVal(0), lambda i: _nothing(), elem_sort=sort)

    def get(self, i):
        return self.f(i)

    def m_truthy(self, I):
        return I.ctx.branch(self.n > 0, "list non-empty")

    def m_len(self, I):
        return Sym(self.n)

    def m_contains(self, I, x):
        """x in L for a symbolic list: a fresh Boolean with a witness index (true) / a universal fact (false)"""
        ctx = I.ctx
        r = ctx.fresh("in_list", z3.BoolSort())
        w = ctx.fresh("at", z3.IntSort())
        j = z3.Int("j!in")
        ctx.assume(z3.Implies(r, z3.And(w >= 0, w < self.n, I.eq_formula(self.f(w), x))))
        ctx.assume(z3.Implies(z3.Not(r), z3.ForAll([j], z3.Implies(z3.And(j >= 0, j < self.n), z3.Not(I.eq_formula(self.f(j), x))))))
        return Sym(r)

    def _index(self, I, idx):
        i = to_z3(idx, z3.IntSort())
        i = z3.simplify(z3.If(i < 0, self.n + i, i))
        if not I.ctx.branch(z3.And(i >= 0, i < self.n), "index in range"):
            raise PyRaise(BuiltinExc("IndexError", ("list index out of range",)))
        return i

    def m_getitem(self, I, idx):
        return self.f(self._index(I, idx))

    def m_setitem(self, I, idx, v):
        i, old = self._index(I, idx), self.f
        self.f = lambda k: ite_val(k == i, v, old(k))

    def do_append(self, I, v):
        n0, old = self.n, self.f
        self.f = lambda k: ite_val(k == n0, v, old(k))
        self.n = z3.simplify(n0 + 1)

    def do_extend(self, I, other):
        n0, old = self.n, self.f
        if isinstance(other, (list, tuple)):
            for x in other:
                self.do_append(I, x)
            return
        if not isinstance(other, SymList):
            other = I.to_symseq(other)
        g, m = other.f, other.n
        self.f = lambda k: ite_val(k < n0, old(k), g(k - n0))
        self.n = z3.simplify(n0 + m)

    def do_pop(self, I, idx=-1):
        if not (isinstance(idx, int) and idx == -1):
            raise Unsupported("list.pop(i) for i != -1")
        if not I.ctx.branch(self.n > 0, "pop from non-empty"):
            raise PyRaise(BuiltinExc("IndexError", ("pop from empty list",)))
        v = self.f(z3.simplify(self.n - 1))
        self.n = z3.simplify(self.n - 1)
        return v

    def do_copy(self, I):
        return SymList(self.n, self.f, elem_sort=self.elem_sort)

    def m_binop(self, I, op, other, inplace=False):
        import ast
        if isinstance(op, ast.Add):
            o = I.to_symseq(other)
            n0, f0, g = self.n, self.f, o.f
            return SymList(z3.simplify(n0 + o.n), lambda k: ite_val(k < n0, f0(k), g(k - n0)), elem_sort=self.elem_sort)
        raise Unsupported("list operator")

    def do_remove(self, I, x):
        bound = None
        for k in range(0, 4):
            if I.ctx.entails(self.n <= k):
                bound = k
                break
        if bound is None:
            raise Unsupported("SymList.remove on a list of unbounded length")
        for j in range(bound):
            old, n0 = self.f, self.n
            if I.ctx.branch(z3.And(n0 > j, I.eq_formula(old(z3.IntVal(j)), x)), f"list.remove matches index {j}"):
                self.f = lambda i, j=j, old=old: ite_val(i < j, old(i), old(i + 1))
                self.n = z3.simplify(n0 - 1)
                return None
        raise PyRaise(BuiltinExc("ValueError", ("list.remove(x): x not in list",)))

    def m_iter(self, I):
        return self

    def slice_from(self, lo):
        n0, old = self.n, self.f
        return SymList(z3.simplify(z3.If(n0 >= lo, n0 - lo, 0)), lambda k: old(k + lo), elem_sort=self.elem_sort)

    def reversed(self):
        n0, old = self.n, self.f
        return SymList(n0, lambda k: old(n0 - 1 - k), elem_sort=self.elem_sort)


def _nothing():
    raise Unsupported("element of empty symbolic list")


class AssocDict(ModelObj):
    """A dict of known finite size whose keys may be symbolic (assumed pairwise distinct when
    created from a display with distinct key terms; later stores compare keys symbolically)."""

    type_names = ("dict",)

    def __init__(self, items=()):
        self.items = list(items)  # [(key value, value)]

    def _eq(self, I, a, b):
        return I.eq_formula(a, b)

    def m_contains(self, I, k):
        from .terms import OR
        return Sym(z3.simplify(OR(*[self._eq(I, k, kk) for kk, _ in self.items])))

    def m_getitem(self, I, k):
        for kk, v in self.items:
            if I.ctx.branch(self._eq(I, k, kk), f"key=={kk}"):
                return v
        raise PyRaise(BuiltinExc("KeyError", (k,)))

    def do_get(self, I, k, default=None):
        for kk, v in self.items:
            if I.ctx.branch(self._eq(I, k, kk), f"key=={kk}"):
                return v
        return default

    def m_setitem(self, I, k, v):
        for idx, (kk, _) in enumerate(self.items):
            if I.ctx.branch(self._eq(I, k, kk), f"key=={kk}"):
                self.items[idx] = (kk, v)
                return
        self.items.append((k, v))

    def m_delitem(self, I, k):
        for idx, (kk, _) in enumerate(self.items):
            if I.ctx.branch(self._eq(I, k, kk), f"key=={kk}"):
                del self.items[idx]
                return
        raise PyRaise(BuiltinExc("KeyError", (k,)))

    def do_pop(self, I, k, *default):
        for idx, (kk, v) in enumerate(self.items):
            if I.ctx.branch(self._eq(I, k, kk), f"key=={kk}"):
                del self.items[idx]
                return v
        if default:
            return default[0]
        raise PyRaise(BuiltinExc("KeyError", (k,)))

    def do_items(self, I):
        return [(k, v) for k, v in self.items]

    def do_keys(self, I):
        return [k for k, _ in self.items]

    def do_values(self, I):
        return [v for _, v in self.items]

    def do_update(self, I, other):
        if isinstance(other, ModelObj) and not isinstance(other, AssocDict) and hasattr(other, "do_copy") and not self.items:
            # {}.update(D) for a symbolic dict D: the (still empty) dict becomes a copy of D
            I.rebind(self, other.do_copy(I))
            return
        for k, v in I.dict_items(other):
            self.m_setitem(I, k, v)

    def do_copy(self, I):
        return AssocDict(self.items)

    def m_iter(self, I):
        return [k for k, _ in self.items]

    def m_len(self, I):
        return len(self.items)

    def m_truthy(self, I):
        return len(self.items) > 0


class SymDict(ModelObj):
    """A dict of unknown size: dom : Array(K, Bool), val : Array(K, V).  Extensional, quantifier
    free for get/set/del/in.  Iteration order is an arbitrary enumeration without repetition
    (ks, pos witness functions), introduced on demand."""

    type_names = ("dict",)

    def __init__(self, dom, val, ksort, vsort, wrap=None):
        self.dom, self.val, self.ksort, self.vsort = dom, val, ksort, vsort
        self.wrap = wrap or (lambda e: Sym(e))
        self._enum = None

    @staticmethod
    def fresh(ctx, name, ksort, vsort, wrap=None):
        dom = ctx.fresh(name + "_dom", z3.ArraySort(ksort, z3.BoolSort()))
        val = ctx.fresh(name + "_val", z3.ArraySort(ksort, vsort))
        return SymDict(dom, val, ksort, vsort, wrap)

    @staticmethod
    def empty(ctx, name, ksort, vsort, wrap=None):
        val = ctx.fresh(name + "_val0", z3.ArraySort(ksort, vsort))
        return SymDict(z3.K(ksort, z3.BoolVal(False)), val, ksort, vsort, wrap)

    def has(self, k):
        return z3.Select(self.dom, to_z3(k, self.ksort))

    def at(self, k):
        return z3.Select(self.val, to_z3(k, self.ksort))

    def m_contains(self, I, k):
        return Sym(self.has(k))

    def m_getitem(self, I, k):
        if not I.ctx.branch(self.has(k), "key in dict"):
            raise PyRaise(BuiltinExc("KeyError", (k,)))
        return self.wrap(self.at(k))

    def do_get(self, I, k, default=None):
        if default is None and self.vsort == _val_sort():
            from .terms import VNone
            return Sym(z3.If(self.has(k), self.at(k), VNone))
        if I.ctx.branch(self.has(k), "key in dict"):
            return self.wrap(self.at(k))
        return default

    def m_setitem(self, I, k, v):
        ke = to_z3(k, self.ksort)
        self.dom = z3.Store(self.dom, ke, z3.BoolVal(True))
        self.val = z3.Store(self.val, ke, to_z3(v, self.vsort))
        self._enum = None

    def m_delitem(self, I, k):
        if not I.ctx.branch(self.has(k), "key in dict"):
            raise PyRaise(BuiltinExc("KeyError", (k,)))
        self.dom = z3.Store(self.dom, to_z3(k, self.ksort), z3.BoolVal(False))
        self._enum = None

    def do_copy(self, I):
        return SymDict(self.dom, self.val, self.ksort, self.vsort, self.wrap)

    def do_update(self, I, other):
        """D.update(O) for a symbolic O over the same keys: O's entries win"""
        if isinstance(other, SymDict) and other.ksort == self.ksort:
            k = z3.Const("k!upd", self.ksort)
            ov = z3.Select(other.val, k)
            if other.vsort != self.vsort:
                ov = to_z3(ov, self.vsort)
            d0, v0 = self.dom, self.val
            self.dom = z3.Lambda([k], z3.Or(z3.Select(d0, k), z3.Select(other.dom, k)))
            self.val = z3.Lambda([k], z3.If(z3.Select(other.dom, k), ov, z3.Select(v0, k)))
            self._enum = None
            return
        for kk, v in I.dict_items(other):
            self.m_setitem(I, kk, v)

    def enum(self, ctx):
        """(n, ks, pos): an enumeration of the key set without repetition."""
        if self._enum is None:
            n = ctx.fresh("dn", z3.IntSort())
            ks = ctx.fresh_fun("dks", z3.IntSort(), self.ksort)
            pos = ctx.fresh_fun("dpos", self.ksort, z3.IntSort())
            k = z3.Const("k!e", self.ksort)
            i = z3.Int("i!e")
            ctx.assume(n >= 0)
            ctx.assume(z3.ForAll([k], z3.Select(self.dom, k) == z3.And(pos(k) >= 0, pos(k) < n, ks(pos(k)) == k)))
            ctx.assume(z3.ForAll([i], z3.Implies(z3.And(i >= 0, i < n), z3.And(pos(ks(i)) == i, z3.Select(self.dom, ks(i))))))
            for kt in ctx.ghost.get("key_terms", []):
                if kt.sort() == self.ksort:
                    ctx.assume(z3.Select(self.dom, kt) == z3.And(pos(kt) >= 0, pos(kt) < n, ks(pos(kt)) == kt))
            self._enum = (n, ks, pos)
        return self._enum

    def do_keys(self, I):
        n, ks, _ = self.enum(I.ctx)
        sl = SymList(n, lambda i: Sym(ks(i)), elem_sort=self.ksort)
        sl.src_dict, sl.src_kind = self, "keys"
        return sl

    def do_items(self, I):
        n, ks, _ = self.enum(I.ctx)
        sl = SymList(n, lambda i: (Sym(ks(i)), self.wrap(z3.Select(self.val, ks(i)))))
        sl.src_dict, sl.src_kind = self, "items"
        return sl

    def m_iter(self, I):
        return self.do_keys(I)

    def m_truthy(self, I):
        n, _, _ = self.enum(I.ctx)
        return I.ctx.branch(n > 0, "dict non-empty")


def _val_sort():
    from .terms import Val
    return Val


class ImageDict(ModelObj):
    """{g(x): h(x) for x in S} over a set-like S with a key expression g that is not the loop variable: several
    elements may produce the same key (the last one in iteration order wins).  Model: sel(k) is the element that
    won key k;  k is a key  <=>  sel(k) in S and g(sel(k)) = k;  every element's key is a key;  D[k] = h(sel(k))."""

    type_names = ("dict",)

    def __init__(self, ctx, mem, esort, g, h, ksort):
        self.ctx, self.mem, self.g, self.h = ctx, mem, g, h
        self.sel = ctx.fresh_fun("comp_sel", ksort, esort)
        x = z3.Const("x!img", esort)
        sel = self.sel
        self.dom = lambda k: z3.And(z3.Select(mem, sel(k)), g(sel(k)) == k)
        ctx.assume(z3.ForAll([x], z3.Implies(z3.Select(mem, x), z3.And(z3.Select(mem, sel(g(x))), g(sel(g(x))) == g(x)))))
        self.ksort = ksort

    def has(self, k):
        return self.dom(to_z3(k, self.ksort))

    def m_contains(self, I, k):
        return Sym(self.has(k))

    def m_getitem(self, I, k):
        if not I.ctx.branch(self.has(k), "key in dict"):
            raise PyRaise(BuiltinExc("KeyError", (k,)))
        return self.h(self.sel(to_z3(k, self.ksort)))

    def do_keys(self, I):
        return ImageKeys(self)


class ImageKeys(ModelObj):
    def __init__(self, d):
        self.d = d


class SymSet(ModelObj):
    """A set of unknown size: mem : Array(K, Bool); iteration is an enumeration without repetition."""

    type_names = ("set",)

    def __init__(self, mem, ksort):
        self.mem, self.ksort = mem, ksort
        self._enum = None

    @staticmethod
    def fresh(ctx, name, ksort):
        return SymSet(ctx.fresh(name, z3.ArraySort(ksort, z3.BoolSort())), ksort)

    def has(self, x):
        return z3.Select(self.mem, to_z3(x, self.ksort))

    def m_contains(self, I, x):
        return Sym(self.has(x))

    def do_copy(self, I):
        return SymSet(self.mem, self.ksort)

    def do_add(self, I, x):
        self.mem = z3.Store(self.mem, to_z3(x, self.ksort), z3.BoolVal(True))
        self._enum = None

    def do_update(self, I, other):
        if isinstance(other, SymSet):
            k = z3.Const("k!u", self.ksort)
            a, b = self.mem, other.mem
            self.mem = z3.Lambda([k], z3.Or(z3.Select(a, k), z3.Select(b, k)))
            self._enum = None
            return
        for x in I.concrete_list(other):
            self.do_add(I, x)

    def enum(self, ctx):
        if self._enum is None:
            n = ctx.fresh("sn", z3.IntSort())
            ks = ctx.fresh_fun("sks", z3.IntSort(), self.ksort)
            pos = ctx.fresh_fun("spos", self.ksort, z3.IntSort())
            k = z3.Const("k!e", self.ksort)
            i = z3.Int("i!e")
            ctx.assume(n >= 0)
            ctx.assume(z3.ForAll([k], z3.Select(self.mem, k) == z3.And(pos(k) >= 0, pos(k) < n, ks(pos(k)) == k)))
            ctx.assume(z3.ForAll([i], z3.Implies(z3.And(i >= 0, i < n), z3.And(pos(ks(i)) == i, z3.Select(self.mem, ks(i))))))
            self._enum = (n, ks, pos)
        return self._enum

    def m_iter(self, I):
        n, ks, _ = self.enum(I.ctx)
        sl = SymList(n, lambda i: Sym(ks(i)), elem_sort=self.ksort)
        sl.src_set = self
        return sl
