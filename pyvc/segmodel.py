"""Model of tracks.segmentation (a label video) and of the numpy / skimage calls made on it.

Abstract view: Seg : Time x Pix -> Int  (Pix = a spatial index tuple, uninterpreted).
A "SegMask" (tuple of index arrays as produced by np.nonzero, time axis first) is viewed as a pixel
set living in ONE frame: (t, member : Pix -> Bool) - the documented shape of every pixel argument.
It is represented in the interpreter as the Python tuple (TimeArr, SpatialIdx) so that the real code's
`pixels[0][0]`, `len(pixels)`, `(time_array, *loc_pixels)` keep working.

Measurements are uninterpreted: RP(k, mask, spacing) and IOU(mask_a, mask_b) are functions of the mask
*content* - realised as functions of (Seg-version, frame, label) with a congruence axiom between any two
versions (equal masks => equal values), DESIGN.md 3.5 / C08.
"""
from __future__ import annotations

import z3

from .core import Unsupported
from .terms import AND, IMP, OR, Bool, Int, Key, Pix, Sym, Val, VInt, VNone, forall, to_z3
from .values import BuiltinExc, ModelObj, PyRaise, SymList

p_ = z3.Const("p!s", Pix)
t_ = z3.Int("t!s")
n_ = z3.Int("n!s")


class PixCore:
    """a pixel set in one frame"""

    def __init__(self, t, mem, nonempty=None):
        self.t, self.mem = t, mem
        self.nonempty = nonempty


class TimeArr(ModelObj):
    type_names = ("ndarray",)

    def __init__(self, core):
        self.core = core

    def m_getitem(self, I, idx):
        if isinstance(idx, int) and idx == 0:
            ne = I.ctx.fresh("px", Pix)
            if not I.ctx.branch(self.core.mem(ne) if False else self.nonempty_formula(I), "pixel set non-empty"):
                raise PyRaise(BuiltinExc("IndexError", ("index 0 is out of bounds",)))
            return Sym(self.core.t)
        raise Unsupported("time array index")

    def nonempty_formula(self, I):
        c = self.core
        if c.nonempty is None:
            w = I.ctx.fresh("pxw", Pix)
            ne = I.ctx.fresh("px_nonempty", Bool)
            I.ctx.assume(IMP(ne, c.mem(w)))
            I.ctx.assume(IMP(z3.Not(ne), forall([p_], z3.Not(c.mem(p_)))))
            c.nonempty = ne
        return c.nonempty


class SpatialIdx(ModelObj):
    type_names = ("ndarray",)

    def __init__(self, core):
        self.core = core


def as_pixcore(v):
    if isinstance(v, PixCore):
        return v
    if isinstance(v, (tuple, list)) and len(v) >= 1 and isinstance(v[0], TimeArr):
        return v[0].core
    if isinstance(v, PixSet):
        return v.core
    raise Unsupported(f"pixel set expected, got {type(v).__name__}")


class PixSet:
    @staticmethod
    def fresh(ctx, name):
        core = PixCore(ctx.fresh(name + "_t", Int), ctx.fresh_fun(name, Pix, Bool))
        return (TimeArr(core), SpatialIdx(core))

    @staticmethod
    def of(t, mem):
        core = PixCore(t, mem)
        return (TimeArr(core), SpatialIdx(core))


class SegModel(ModelObj):
    type_names = ("ndarray",)

    def __init__(self, st):
        self.st = st

    def attr_shape(self, I):
        return _Shape(I.ctx)

    def m_getitem(self, I, idx):
        if isinstance(idx, (tuple, list)):
            raise Unsupported("segmentation[pixels] read")
        return Frame(self.st, to_z3(idx, Int), self.st.v.Seg)

    def m_setitem(self, I, idx, value):
        core = as_pixcore(idx)
        val = to_z3(value, Int)
        t0, mem = core.t, core.mem
        self.st.upd("Seg", lambda old, t, p: z3.If(AND(t == t0, mem(p)), val, old(t, p)))
        I.ctx.ghost["log"].append(("set_pixels",))

    def m_eq(self, I, other):
        if other is None:
            return z3.BoolVal(False)
        raise Unsupported("segmentation == x")


class _Shape(ModelObj):
    def __init__(self, ctx):
        self.n = ctx.fresh("nframes", Int)
        ctx.assume(self.n >= 0)

    def m_getitem(self, I, idx):
        if idx == 0:
            return Sym(self.n)
        raise Unsupported("seg.shape[i], i>0")


class Frame(ModelObj):
    """seg[t]: reads the Seg version current at creation"""

    type_names = ("ndarray",)

    def __init__(self, st, t, SegV):
        self.st, self.t, self.SegV = st, t, SegV

    def m_eq(self, I, other):
        lab = to_z3(other, Int)
        return Mask(self, lab)


class Mask(ModelObj):
    """seg[t] == label"""

    type_names = ("ndarray",)

    def __init__(self, frame, lab):
        self.frame, self.lab = frame, lab

    def pred(self, p):
        return self.frame.SegV(self.frame.t, p) == self.lab

    def empty(self, I):
        key = ("mask_empty", str(self.frame.SegV), str(self.frame.t), str(self.lab))
        memo = I.ctx.ghost.setdefault("mask_memo", {})
        if key not in memo:
            e = I.ctx.fresh("mask_empty", Bool)
            w = I.ctx.fresh("maskw", Pix)
            I.ctx.assume(IMP(z3.Not(e), self.pred(w)))
            I.ctx.assume(IMP(e, forall([p_], z3.Not(self.pred(p_)))))
            memo[key] = e
        return memo[key]


class MaskedFrame(ModelObj):
    """np.where(seg[t] == label, label, 0)"""

    type_names = ("ndarray",)

    def __init__(self, mask):
        self.mask = mask


class Region(ModelObj):
    def __init__(self, mask, spacing):
        self.mask, self.spacing = mask, spacing

    def attr_label(self, I):
        return Sym(self.mask.lab)


def measure(ctx, kind, SegV, *args):
    """uninterpreted measurement of masks of one Seg version, with congruence to every other version used"""
    reg = ctx.ghost.setdefault("measure_versions", {})
    name = f"{kind}@{SegV.name()}"
    if name not in reg:
        reg[name] = SegV
    return name


# ---- numpy / skimage externals -----------------------------------------------------------------
def np_nonzero(I, args, kw):
    m = args[0]
    if not isinstance(m, Mask):
        raise Unsupported("np.nonzero of non-mask")
    core = PixCore(m.frame.t, m.pred)
    return _Nonzero(core)


class _Nonzero(ModelObj):
    type_names = ("tuple",)

    def __init__(self, core):
        self.core = core

    def m_getitem(self, I, idx):
        return SpatialIdx(self.core)

    def m_iter(self, I):
        return [SpatialIdx(self.core)]


def np_ones_like(I, args, kw):
    x = args[0]
    if isinstance(x, SpatialIdx):
        return _Ones(x.core)
    raise Unsupported("np.ones_like")


class _Ones(ModelObj):
    def __init__(self, core):
        self.core = core

    def m_binop(self, I, op, other, inplace=False):
        import ast
        if isinstance(op, ast.Mult):
            t = to_z3(other, Int)
            I.ctx.assume(self.core.t == t) if False else None
            core = PixCore(t, self.core.mem)
            # the spatial part keeps pointing at the same member predicate
            self.core.t = t
            return TimeArr(self.core)
        raise Unsupported("ones_like arithmetic")


def np_sum(I, args, kw):
    m = args[0]
    if isinstance(m, Mask):
        cnt = I.ctx.fresh("count", Int)
        I.ctx.assume(cnt >= 0)
        I.ctx.assume((cnt == 0) == m.empty(I))
        return Sym(cnt)
    raise Unsupported("np.sum")


def np_where(I, args, kw):
    m = args[0]
    if isinstance(m, Mask) and len(args) == 3:
        return MaskedFrame(m)
    raise Unsupported("np.where")


def np_max_seg(I, args, kw):
    x = args[0]
    if isinstance(x, MaskedFrame):
        return Sym(z3.If(x.mask.empty(I), 0, x.mask.lab))
    raise Unsupported("np.max")


def _np_max(I, args, kw):
    from .arraymodel import np_max
    return np_max(I, args, kw)


EXT = {
    "numpy.max": _np_max,
    "numpy.nonzero": np_nonzero, "numpy.ones_like": np_ones_like, "numpy.sum": np_sum, "numpy.where": np_where,
    "numpy.max.other": np_max_seg,
}


# ---- measurements ------------------------------------------------------------------------------
def _versions(ctx):
    return ctx.ghost.setdefault("seg_versions", {})


def rp_fun(ctx, SegV):
    """RP[SegV](k, t, n, spacing): the regionprops value of feature k for the mask {p | SegV(t,p) = n}.
    Congruence with every other version: equal masks (at a Skolem 'difference pixel') => equal values."""
    vs = _versions(ctx)
    name = SegV.name()
    if name not in vs:
        rp = ctx.fresh_fun("RP", Key, Int, Int, Val, Val)
        io = ctx.fresh_fun("IOU", Int, Int, Int, Int, Val)
        ov = ctx.fresh_fun("overlap", Int, Int, Int, Int, Bool)
        k = z3.Const("k!m", Key)
        s = z3.Const("s!m", Val)
        t, n, t2, n2 = z3.Ints("t!m n!m t2!m n2!m")
        for oname, (oSeg, orp, oio, oov) in vs.items():
            d = ctx.fresh_fun("diffpix", Int, Int, Pix)
            same = lambda tt, nn: (SegV(tt, d(tt, nn)) == nn) == (oSeg(tt, d(tt, nn)) == nn)
            ctx.assume(forall([k, t, n, s], IMP(same(t, n), rp(k, t, n, s) == orp(k, t, n, s))), "measure.congruence")
            ctx.assume(forall([t, n, t2, n2], IMP(AND(same(t, n), same(t2, n2)),
                                                  AND(io(t, n, t2, n2) == oio(t, n, t2, n2), ov(t, n, t2, n2) == oov(t, n, t2, n2)))), "measure.congruence")
        # a measurement of a non-empty mask is a value (never None); no overlap => IoU 0
        ctx.assume(forall([k, t, n, s], z3.Not(rp(k, t, n, s) == VNone)), "measure.notnone")
        ctx.assume(forall([t, n, t2, n2], IMP(z3.Not(ov(t, n, t2, n2)), io(t, n, t2, n2) == VInt(0))), "measure.iou0")
        ctx.assume(forall([t, n, t2, n2], z3.Not(io(t, n, t2, n2) == VNone)), "measure.notnone")
        # two masks overlap only if some pixel position belongs to both
        wov = ctx.fresh_fun("overlap_at", Int, Int, Int, Int, Pix)
        ctx.assume(forall([t, n, t2, n2], IMP(ov(t, n, t2, n2), AND(SegV(t, wov(t, n, t2, n2)) == n, SegV(t2, wov(t, n, t2, n2)) == n2))), "measure.overlap")
        vs[name] = (SegV, rp, io, ov)
    return vs[name]


def regionprops_extended(I, args, kw):
    fr = args[0]
    spacing = kw.get("spacing", args[1] if len(args) > 1 else None)
    sp = to_z3(spacing, Val) if spacing is not None else VNone
    if isinstance(fr, MaskedFrame):
        m = fr.mask
        return SymList(z3.If(m.empty(I), 0, 1), lambda i: Region(m, sp))
    raise Unsupported("regionprops over a whole frame (bulk path)")


def region_getattr(I, args, kw):
    region, name = args
    if isinstance(region, Region) and isinstance(name, (str, Sym)):
        m = region.mask
        _, rp, _, _ = rp_fun(I.ctx, m.frame.SegV)
        # regionprops attribute name <-> feature key is a fixed bijection (regionprops_names); use the name atom
        return Sym(rp(to_z3(name, Key), m.frame.t, m.lab, region.spacing))
    raise Unsupported("getattr on region")


def compute_ious(I, args, kw):
    a, b = args
    if isinstance(a, MaskedFrame) and isinstance(b, MaskedFrame):
        if not a.mask.frame.SegV.eq(b.mask.frame.SegV):
            raise Unsupported("_compute_ious across Seg versions")
        _, _, io, ov = rp_fun(I.ctx, a.mask.frame.SegV)
        ta, na, tb, nb = a.mask.frame.t, a.mask.lab, b.mask.frame.t, b.mask.lab
        return SymList(z3.If(ov(ta, na, tb, nb), 1, 0), lambda i: (Sym(na), Sym(nb), Sym(io(ta, na, tb, nb))))
    raise Unsupported("_compute_ious over whole frames (bulk path)")


EXT.update({
    "funtracks.annotators._regionprops_extended.regionprops_extended": regionprops_extended,
    "model.region_getattr": region_getattr,
    "model.compute_ious": compute_ious,
})
