"""C16 - frame condition "modifies nothing reachable from `tracks`" checked on the real AST.

For every function under the frame contract, every statement is an obligation: it must not write to
(or call a mutator on) a value that may alias the tracks object or a part of it.  Aliasing is tracked
conservatively by a flow-insensitive may-alias set seeded with the `tracks`/`self` parameter: a local
becomes tainted when it is assigned from an expression that mentions a tainted name, unless the
expression is a *fresh-result* call (copy(), list(), dict(), np.array(), comprehension building new
containers of scalars ...).  Calls into other repository functions with a tainted argument are followed
(interprocedurally, by parameter position); calls into third-party code with a tainted argument are
assumed read-only and listed as assumptions.
"""
from __future__ import annotations

import ast

MUTATORS = {
    "add_node", "add_edge", "add_nodes_from", "add_edges_from", "remove_node", "remove_edge", "remove_nodes_from",
    "remove_edges_from", "update", "pop", "popitem", "clear", "append", "extend", "insert", "remove", "reverse",
    "setdefault", "__setitem__", "__delitem__", "fill", "resize", "put", "itemset", "sort",
    "enable_features", "disable_features", "notify_annotators", "set_pixels", "set_time", "set_times", "set_position",
    "set_positions", "_set_node_attr", "_set_nodes_attr", "_set_edge_attr", "_set_edges_attr", "_set_node_attributes",
    "_set_edge_attributes", "add_new_action", "undo", "redo", "emit", "activate_features", "deactivate_features",
    "register_position_feature", "register_tracklet_feature", "register_lineage_feature", "change_key", "compute",
    "_get_new_node_ids", "relabel_nodes",
}
FRESH_CALLS = {
    "copy", "deepcopy", "list", "dict", "set", "tuple", "sorted", "len", "int", "float", "str", "bool", "max", "min", "sum",
    "array", "tolist", "item", "isin", "where", "unique", "nonzero", "zeros_like", "ones_like", "stack", "c_",
    "node_link_data", "ancestors", "descendants", "DataFrame", "merge", "get_time", "get_times", "get_position", "get_positions", "get_track_id",
    "get_lineage_id", "get_next_track_id", "get_next_lineage_id", "predecessors", "successors", "in_degree", "out_degree",
    "has_node", "has_edge", "number_of_nodes", "number_of_edges", "dump_json", "isinstance", "range", "enumerate", "zip",
    "filter_graph_with_ancestors", "convert_numpy_to_python", "convert_np_types", "rgb_to_hex", "astype", "tobytes",
    "get_pixels", "map_array", "resolve", "remove_tilde", "mkdir", "keys", "has_track_id_at_time",
    "get_available_features", "iinfo", "round", "GeffMetadata", "product", "slice", "setup_zarr_array",
    "setup_zarr_group", "open", "Path", "filter", "any", "all", "format", "join", "predecessors",
}
# NOT fresh (they hand out the live containers): networkx views and accessors - subgraph(), nodes(data=True), edges(), .data(),
# .items(), .values(), .get() - and the attribute getters get_node_attr / get_nodes_attr / get_edge_attr / get_edges_attr (a list-valued
# attribute is returned by reference) and np.asarray (no copy for an ndarray argument); repository callees among them are followed and their return aliasing computed.
# a mutator call that is allowed, with the reason (the property compares lookups as bags)
ALLOWED = {("get_track_neighbors", "sort"): "reorders one lookup list in place; the lookup as a bag is unchanged"}


def names_in(e):
    return {n.id for n in ast.walk(e) if isinstance(n, ast.Name)}


def base_name(t):
    while isinstance(t, (ast.Attribute, ast.Subscript, ast.Call)):
        t = t.value if not isinstance(t, ast.Call) else t.func
    return t.id if isinstance(t, ast.Name) else None


def call_name(c):
    f = c.func
    return f.attr if isinstance(f, ast.Attribute) else (f.id if isinstance(f, ast.Name) else None)


def is_fresh(e):
    """expression certainly yields a value that does not alias its operands' containers"""
    if isinstance(e, ast.Call):
        return call_name(e) in FRESH_CALLS
    if isinstance(e, (ast.Constant, ast.JoinedStr, ast.Compare, ast.BoolOp, ast.BinOp, ast.UnaryOp, ast.ListComp, ast.DictComp,
                      ast.SetComp, ast.GeneratorExp, ast.List, ast.Dict, ast.Tuple)):
        return True
    if isinstance(e, ast.IfExp):
        return is_fresh(e.body) and is_fresh(e.orelse)
    return False


def bound_names(t):
    """names (re)bound by an assignment target - not the names merely used inside a subscript/attribute target"""
    if isinstance(t, ast.Name):
        return [t.id]
    if isinstance(t, (ast.Tuple, ast.List)):
        return [n for e in t.elts for n in bound_names(e)]
    if isinstance(t, ast.Starred):
        return bound_names(t.value)
    return []


def taint_closure(fdef, tainted_params, resolve_callee=None, depth=0):
    tainted = set(tainted_params)
    changed = True
    while changed:
        changed = False
        for n in ast.walk(fdef):
            pairs = []
            if isinstance(n, ast.Assign):
                pairs = [(t, n.value) for t in n.targets]
            elif isinstance(n, ast.AnnAssign) and n.value is not None:
                pairs = [(n.target, n.value)]
            elif isinstance(n, (ast.For, ast.comprehension)):
                pairs = [(n.target, n.iter)]
            elif isinstance(n, ast.NamedExpr):
                pairs = [(n.target, n.value)]
            for tgt, val in pairs:
                if not (names_in(val) & tainted) or is_fresh(val):
                    continue
                names = bound_names(tgt)
                # a repository callee: which components of its result may alias its tainted arguments?
                if isinstance(val, ast.Call) and resolve_callee is not None and depth < 3:
                    callee = resolve_callee(val)
                    if callee is not None:
                        cname, cdef = callee
                        params = [a.arg for a in cdef.args.args]
                        off = 1 if params and params[0] in ("self", "cls") and isinstance(val.func, ast.Attribute) else 0
                        tp = {params[i + off] for i, a in enumerate(val.args) if names_in(a) & tainted and i + off < len(params)}
                        tp |= {k.arg for k in val.keywords if k.arg in params and names_in(k.value) & tainted}
                        if off and base_name(val.func.value) in tainted:
                            tp.add(params[0])
                        ct = taint_closure(cdef, tp, resolve_callee, depth + 1)
                        comps = None
                        for r in ast.walk(cdef):
                            if isinstance(r, ast.Return) and r.value is not None:
                                if isinstance(r.value, ast.Tuple) and isinstance(tgt, ast.Tuple) and len(r.value.elts) == len(tgt.elts):
                                    c = [bool(names_in(e) & ct) and not is_fresh(e) for e in r.value.elts]
                                else:
                                    c = [bool(names_in(r.value) & ct) and not is_fresh(r.value)] * max(1, len(names))
                                comps = c if comps is None else [x or y for x, y in zip(comps, c)]
                        if comps is not None and isinstance(tgt, ast.Tuple) and len(comps) == len(tgt.elts):
                            names = [nm for e, c in zip(tgt.elts, comps) if c for nm in bound_names(e)]
                        elif comps is not None and not any(comps):
                            names = []
                for nm in names:
                    if nm not in tainted:
                        tainted.add(nm)
                        changed = True
    return tainted


def analyse(fdef, tainted_params, fname, resolve_callee=None, depth=0, seen=None):
    """-> (obligations [(line, text, ok, why)], assumptions [str])"""
    seen = seen if seen is not None else set()
    tainted = taint_closure(fdef, tainted_params, resolve_callee, depth)
    obligations, assumptions = [], []
    for n in ast.walk(fdef):
        if isinstance(n, (ast.Assign, ast.AugAssign, ast.AnnAssign, ast.Delete)):
            targets = n.targets if isinstance(n, (ast.Assign, ast.Delete)) else [n.target]
            for t in targets:
                if isinstance(t, (ast.Attribute, ast.Subscript)):
                    b = base_name(t)
                    ok = b not in tainted
                    obligations.append((n.lineno, ast.unparse(n)[:90], ok, "" if ok else f"writes through `{b}`, which may alias the tracks"))
        if isinstance(n, ast.Call):
            cn = call_name(n)
            recv = n.func.value if isinstance(n.func, ast.Attribute) else None
            rb = base_name(recv) if recv is not None else None
            if cn in MUTATORS and rb in tainted:
                why = ALLOWED.get((fname.split(".")[-1], cn))
                obligations.append((n.lineno, ast.unparse(n)[:90], why is not None,
                                    f"allowed: {why}" if why else f"mutator `{cn}` on `{rb}`, which may alias the tracks"))
                continue
            targs = [i for i, a in enumerate(n.args) if names_in(a) & tainted and not is_fresh(a)]
            tkw = [k.arg for k in n.keywords if k.arg and names_in(k.value) & tainted and not is_fresh(k.value)]
            if (targs or tkw) and cn not in FRESH_CALLS and cn not in MUTATORS:
                callee = resolve_callee(n) if resolve_callee else None
                if callee is not None and (callee[0], tuple(targs), tuple(tkw)) not in seen and depth < 4:
                    cname, cdef = callee
                    seen.add((cname, tuple(targs), tuple(tkw)))
                    params = [a.arg for a in cdef.args.args]
                    off = 1 if params and params[0] in ("self", "cls") and isinstance(n.func, ast.Attribute) else 0
                    tp = {params[i + off] for i in targs if i + off < len(params)} | {k for k in tkw if k in params}
                    if off and rb in tainted:
                        tp.add(params[0])
                    o2, a2 = analyse(cdef, tp, cname, resolve_callee, depth + 1, seen)
                    obligations += [(ln, f"[{cname}] {tx}", ok, why) for ln, tx, ok, why in o2]
                    assumptions += a2
                elif callee is None:
                    assumptions.append(f"{fname}: third-party/unresolved call `{ast.unparse(n.func)}` receives (a part of) the tracks and is assumed read-only")
            elif rb in tainted and cn not in FRESH_CALLS and cn not in MUTATORS and recv is not None:
                callee = resolve_callee(n) if resolve_callee else None
                if callee is not None and (callee[0], ("self",)) not in seen and depth < 4:
                    cname, cdef = callee
                    seen.add((cname, ("self",)))
                    params = [a.arg for a in cdef.args.args]
                    o2, a2 = analyse(cdef, {params[0]} if params else set(), cname, resolve_callee, depth + 1, seen)
                    obligations += [(ln, f"[{cname}] {tx}", ok, why) for ln, tx, ok, why in o2]
                    assumptions += a2
    return obligations, sorted(set(assumptions))
