"""Path context, obligations, path exploration by decision-prefix replay."""
from __future__ import annotations

import time

import z3

from .terms import Sym


class Unsupported(Exception):
    """A construct outside the supported subset: the function is UNDECIDED (never proved/violated)."""


class PathEnd(Exception):
    """The current path is infeasible or was cut (after a loop-body preservation check)."""


class Obligation:
    __slots__ = ("label", "hyps", "goal", "kind", "props", "path", "func", "note", "dropped", "full_hyps")

    def __init__(self, label, hyps, goal, kind, props, path, func, note="", dropped=0, full_hyps=None):
        self.label, self.hyps, self.goal, self.kind = label, hyps, goal, kind
        self.props, self.path, self.func, self.note = props, path, func, note
        self.dropped = dropped
        self.full_hyps = full_hyps  # the declared (complete) scope, tried when the minimal scope is not enough

    def smt2_full(self, extra=()):
        if self.full_hyps is None:
            return None
        s = z3.Solver()
        for h in self.full_hyps:
            s.add(h)
        for h in extra:
            s.add(h)
        s.add(z3.Not(self.goal))
        return s.to_smt2()

    def smt2(self, extra=()):
        s = z3.Solver()
        for h in self.hyps:
            s.add(h)
        for h in extra:
            s.add(h)
        s.add(z3.Not(self.goal))
        return s.to_smt2()


class Ctx:
    """One symbolic path.  Re-created (and the function re-executed) for every decision prefix."""

    BRANCH_TIMEOUT_MS = int(__import__("os").environ.get("PYVC_BRANCH_MS", "60"))

    def __init__(self, prefix=(), func="?"):
        self.prefix = list(prefix)
        self.taken: list[bool] = []
        self.new_prefixes: list[list[bool]] = []
        self.hyps: list[z3.BoolRef] = []
        self.hyp_tags: list[str] = []
        self.tag = ""  # current default tag for assumptions (axiom scoping, DESIGN 3.5)
        self.obligations: list[Obligation] = []
        self.solver = z3.Solver()
        self.solver.set("timeout", self.BRANCH_TIMEOUT_MS)
        self._n = 0
        self.func = func
        self.state = None  # abstract world (tracksmodel.TState or similar)
        self.contracts = {}
        self.loopspecs = {}
        self.ghost = {"muts": 0, "emits": [], "hadd": 0, "log": []}
        self.call_stack: list[str] = []
        self.notes: list[str] = []
        self.solver_calls = 0
        self.solver_time = 0.0
        self.events: list[str] = []  # human-readable branch trail, for path signatures

    # ---- symbols
    def fresh(self, name, sort):
        self._n += 1
        return z3.Const(f"{name}!{self._n}", sort)

    def fresh_fun(self, name, *sorts):
        self._n += 1
        return z3.Function(f"{name}!{self._n}", *sorts)

    # ---- assumptions
    def assume(self, f, tag=None):
        if isinstance(f, Sym):
            f = f.e
        if z3.is_true(f):
            return
        self.hyps.append(f)
        self.hyp_tags.append(tag if tag is not None else self.tag)
        self.solver.add(f)

    def _check(self, f):
        t0 = time.time()
        self.solver.push()
        self.solver.add(f)
        r = self.solver.check()
        self.solver.pop()
        self.solver_calls += 1
        self.solver_time += time.time() - t0
        return r

    def entails(self, f):
        """True only if the path condition provably entails f (unknown -> False)."""
        return self._check(z3.Not(f)) == z3.unsat

    def feasible(self, f):
        return self._check(f) != z3.unsat

    _SLOW_MEMO: dict = {}

    def entails_slow(self, f, ms=1500):
        """entails() with a larger budget, memoised across the re-executions of a path prefix (symbol names
        are deterministic, so the same prefix gives the same query text)."""
        import hashlib
        key = hashlib.sha1((str(len(self.hyps)) + "|" + "|".join(str(h.hash()) for h in self.hyps[-40:]) + "|" + f.sexpr()).encode()).hexdigest()
        if key in Ctx._SLOW_MEMO:
            return Ctx._SLOW_MEMO[key]
        self.solver.set("timeout", ms)
        try:
            r = self.entails(f)
        finally:
            self.solver.set("timeout", self.BRANCH_TIMEOUT_MS)
        Ctx._SLOW_MEMO[key] = r
        return r

    def branch(self, cond, what=""):
        """Decide a symbolic condition; forks by scheduling the other side for a later run."""
        if isinstance(cond, Sym):
            cond = cond.e
        if isinstance(cond, bool):
            return cond
        cond = z3.simplify(cond)
        if z3.is_true(cond):
            return True
        if z3.is_false(cond):
            return False
        k = len(self.taken)
        if k < len(self.prefix):
            d = self.prefix[k]
        else:
            can_t = self.feasible(cond)
            can_f = self.feasible(z3.Not(cond))
            if can_t and can_f:
                self.new_prefixes.append(self.taken + [False])
                d = True
            elif can_t:
                d = True
            elif can_f:
                d = False
            else:
                raise PathEnd()
        self.taken.append(d)
        self.assume(cond if d else z3.Not(cond))
        if what:
            self.events.append(("" if d else "not ") + what)
        return d

    # ---- obligations
    def oblige(self, label, goal, kind="post", props=(), note="", drop=()):
        """`drop`: tag prefixes of hypotheses left out of this obligation (axiom scoping: fewer hypotheses
        can only make an obligation harder to discharge, never unsound)."""
        if isinstance(goal, Sym):
            goal = goal.e
        if isinstance(goal, bool):
            goal = z3.BoolVal(goal)
        if drop:
            hyps = [h for h, t in zip(self.hyps, self.hyp_tags) if not any(t.startswith(d) for d in drop)]
        else:
            hyps = list(self.hyps)
        self.obligations.append(
            Obligation(label, hyps, goal, kind, tuple(props), tuple(self.events), self.func, note, len(self.hyps) - len(hyps),
                       list(self.hyps) if len(hyps) != len(self.hyps) else None)
        )

    def lemma(self, label, f, props=(), tag="lemma"):
        """intermediate assertion: proved as its own obligation here, then available as a hypothesis"""
        self.oblige(label, f, kind="lemma", props=props)
        self.assume(f, tag)

    def note(self, s):
        self.notes.append(s)


class PathResult:
    def __init__(self, ctx, outcome, error=None):
        self.ctx, self.outcome, self.error = ctx, outcome, error


def explore_iter(run, func="?", max_paths=None, setup=None):
    """Run `run(ctx)` once per feasible decision prefix; yields one PathResult per path (the caller
    should extract what it needs and drop the result: a context holds a solver with all hypotheses)."""
    import os
    max_paths = max_paths or int(os.environ.get("PYVC_MAX_PATHS", "1500"))
    work = [[]]
    n = 0
    while work:
        prefix = work.pop()
        ctx = Ctx(prefix, func)
        if setup:
            setup(ctx)
        outcome, err = None, None
        try:
            outcome = run(ctx)
        except PathEnd:
            outcome = ("cut", None)
        except Unsupported as e:
            err = f"unsupported: {e}"
        work.extend(ctx.new_prefixes)
        ctx.solver = None
        n += 1
        yield PathResult(ctx, outcome, err)
        if n > max_paths:
            yield PathResult(ctx, None, f"path explosion (> {max_paths} paths)")
            return


def explore(run, func="?", max_paths=None, setup=None):
    return list(explore_iter(run, func, max_paths, setup))
