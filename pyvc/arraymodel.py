"""Model of a numpy label array indexed (frame, pixel): L : Int x Pix -> Int, nframes : Int.

Used for the pure array utilities (ensure_unique_labels, ...).  Assumed numpy semantics:
a[i] is a *view* (writes through it change a), a[i][mask] op= c updates exactly the masked cells,
np.max(view) is the largest cell of a non-empty frame, astype/reshape keep the cell values
(reshape of the first two axes is a renaming of frame indices).  Integers are mathematical.
"""
from __future__ import annotations

import z3

from .core import Unsupported
from .terms import AND, IMP, Int, Pix, Sym, forall, to_z3
from .values import ModelObj, SymList

p_ = z3.Const("p!a", Pix)
q_ = z3.Const("q!a", Pix)
j_, k_ = z3.Ints("j!a k!a")


class LabelArr(ModelObj):
    type_names = ("ndarray",)

    def __init__(self, ctx, L=None, n=None, name="L", lead=None):
        self.ctx = ctx
        self.L = L if L is not None else ctx.fresh_fun(name, Int, Pix, Int)
        self.n = n if n is not None else ctx.fresh(name + "_frames", Int)  # number of frames of the flattened view
        self.lead = lead if lead is not None else self.n  # current shape[0] (number of hypotheses before flattening)
        self.L0 = self.L

    def do_astype(self, I, dtype):
        return LabelArr(self.ctx, self.L, self.n, lead=self.lead)

    def do_copy(self, I):
        return LabelArr(self.ctx, self.L, self.n, lead=self.lead)

    def attr_shape(self, I):
        return ShapeModel(self, self.lead)

    def do_reshape(self, I, shape):
        # merging / splitting the two leading axes renames frame indices; cell values are kept.
        # reshape((-1, ...)) flattens (shape[0] becomes the number of frames), reshape(orig_shape) restores it
        if isinstance(shape, ShapeModel):
            lead = shape.lead
        elif isinstance(shape, tuple) and shape and isinstance(shape[0], int) and shape[0] == -1:
            lead = self.n
        else:
            raise Unsupported("reshape to this shape")
        return LabelArr(self.ctx, self.L, self.n, lead=lead)

    def m_getitem(self, I, idx):
        if isinstance(idx, (int, Sym)):
            return FrameRef(self, to_z3(idx, Int))
        raise Unsupported("array index")

    def m_setitem(self, I, idx, value):
        i = to_z3(idx, Int)
        if isinstance(value, FrameRef) and value.arr is self and z3.simplify(value.i == i).eq(z3.BoolVal(True)):
            return  # a[i] = a[i] through a view: no change
        if isinstance(value, FrameRef):
            src, si, old = value.arr.L, value.i, self.L
            new = self.ctx.fresh_fun("L", Int, Pix, Int)
            self.ctx.assume(forall([j_, p_], new(j_, p_) == z3.If(j_ == i, src(si, p_), old(j_, p_))))
            self.L = new
            return
        raise Unsupported("array frame assignment")

    def upd_masked(self, i, pred, val):
        """L'(j,p) = (j == i and pred(p)) ? val(p) : L(j,p)"""
        old = self.L
        new = self.ctx.fresh_fun("L", Int, Pix, Int)
        self.ctx.assume(forall([j_, p_], new(j_, p_) == z3.If(AND(j_ == i, pred(p_)), val(p_), old(j_, p_))))
        self.L = new


class ShapeModel(ModelObj):
    type_names = ("tuple",)

    def __init__(self, arr, lead):
        self.arr, self.lead = arr, lead  # a snapshot of shape[0] at the time .shape was read

    def m_getitem(self, I, idx):
        if idx == 0:
            return Sym(self.lead)
        if isinstance(idx, slice):
            return ()
        raise Unsupported("shape index")


class FrameRef(ModelObj):
    """a[i] - a view of frame i (reads see the array's current content)"""

    type_names = ("ndarray",)

    def __init__(self, arr, i):
        self.arr, self.i = arr, i

    def cell(self, p):
        return self.arr.L(self.i, p)

    def m_eq(self, I, other):
        o = to_z3(other, Int)
        return MaskExpr(self, lambda p: self.cell(p) == o)

    def m_ne(self, I, other):
        o = to_z3(other, Int)
        return MaskExpr(self, lambda p: self.cell(p) != o)

    def m_getitem(self, I, idx):
        if isinstance(idx, MaskExpr):
            return CellsExpr(self, idx.pred, lambda p: self.cell(p))
        raise Unsupported("frame index")

    def m_setitem(self, I, idx, value):
        if isinstance(idx, MaskExpr):
            if isinstance(value, CellsExpr):
                self.arr.upd_masked(self.i, idx.pred, value.val)
            else:
                v = to_z3(value, Int)
                self.arr.upd_masked(self.i, idx.pred, lambda p: v)
            return
        raise Unsupported("frame store")


class MaskExpr(ModelObj):
    def __init__(self, frame, pred):
        self.frame, self.pred = frame, pred


class CellsExpr(ModelObj):
    """frame[mask] (optionally after arithmetic): the selected cells with their values"""

    def __init__(self, frame, pred, val):
        self.frame, self.pred, self.val = frame, pred, val

    def m_binop(self, I, op, other, inplace=False):
        import ast
        o = to_z3(other, Int)
        v = self.val
        if isinstance(op, ast.Add):
            return CellsExpr(self.frame, self.pred, lambda p: v(p) + o)
        if isinstance(op, ast.Sub):
            return CellsExpr(self.frame, self.pred, lambda p: v(p) - o)
        raise Unsupported("array arithmetic")


def np_max(I, args, kw):
    x = args[0]
    if isinstance(x, FrameRef):
        ctx = I.ctx
        m = ctx.fresh("amax", Int)
        w = ctx.fresh("amax_at", Pix)
        ctx.assume(forall([p_], x.cell(p_) <= m))
        ctx.assume(x.cell(w) == m)  # frames are non-empty
        return Sym(m)
    h = I.ext.get("numpy.max.other")
    if h:
        return h(I, args, kw)
    raise Unsupported("np.max of this value")


def np_zeros_like(I, args, kw):
    x = args[0]
    if isinstance(x, LabelArr):
        Z = I.ctx.fresh_fun("Z", Int, Pix, Int)
        I.ctx.assume(forall([j_, p_], Z(j_, p_) == 0))
        return LabelArr(I.ctx, Z, x.n, lead=x.lead)
    raise Unsupported("np.zeros_like of this value")


EXT = {"numpy.max": np_max, "numpy.zeros_like": np_zeros_like, "numpy.uint64": lambda I, a, k: "uint64"}
