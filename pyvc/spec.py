"""Contract and loop-invariant base classes (sidecar specifications; /repo is never annotated)."""
from __future__ import annotations

import z3

from .core import Unsupported
from .terms import Bool, Int, Sym
from .values import SymList


class LoopSpec:
    """Inductive invariant of one loop, keyed by (function qualname, loop ordinal)."""

    props: tuple = ()
    unroll = None  # set to k to unroll k times with an unwinding obligation instead
    modifies: tuple = ()  # abstract state components the body may change

    def enter(self, I, fr, it):
        pass

    def havoc(self, I, fr, it, i, assigned):
        env = fr.env
        for name in sorted(assigned):
            if name not in env:
                continue
            v = env[name]
            if isinstance(v, Sym):
                env[name] = Sym(I.ctx.fresh(name, v.sort()))
            elif isinstance(v, bool):
                env[name] = Sym(I.ctx.fresh(name, Bool))
            elif isinstance(v, int):
                env[name] = Sym(I.ctx.fresh(name, Int))
            elif isinstance(v, SymList) and v.elem_sort is not None:
                env[name] = SymList.fresh(I.ctx, name, v.elem_sort)
            elif isinstance(v, (list, SymList)) and name in getattr(self, "list_sorts", {}):
                env[name] = SymList.fresh(I.ctx, name, self.list_sorts[name])
            else:
                self.havoc_local(I, fr, name, v)
        if self.modifies:
            I.ctx.state.havoc(I.ctx, self.modifies)

    def havoc_local(self, I, fr, name, v):
        # unknown kind: drop the binding, a later read is then reported as unsupported (sound)
        del fr.env[name]

    def inv(self, I, fr, it, i):
        return []

    def ghost_step(self, I, fr, it, i):
        """ghost assignments executed at the end of the loop body, before the invariant is re-checked"""


class Contract:
    """Base contract.  Subclasses define the symbolic entry state and the clauses."""

    qualname: str = ""
    props: tuple = ()

    def run(self, I):
        """Verify the body: build entry state, call the real function, emit obligations.
        Returns the outcome tuple for the path."""
        raise NotImplementedError

    def apply(self, I, args, kw):
        """Use at a call site (modular verification)."""
        raise Unsupported(f"contract {self.qualname} has no call-site form")
