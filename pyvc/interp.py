"""Symbolic executor for the Python subset of DESIGN.md 3.3, over the real AST of /repo/src."""
from __future__ import annotations

import ast

import z3

from .core import PathEnd, Unsupported
from .frontend import ClassInfo, FuncInfo, Repo
from .terms import AND, OR, Bool, Int, Key, Sym, Val, common, is_VNone, lit, to_z3
from .values import (
    AssocDict, BoundMethod, BoundModel, BuiltinExc, ClassVal, ExtRef, FuncVal, Instance,
    LambdaVal, ModelObj, ModuleVal, PyRaise, SuperProxy, SymDict, SymList, exc_names, ite_val,
)


class ReturnSignal(Exception):
    def __init__(self, value):
        self.value = value


class BreakSignal(Exception):
    pass


class ContinueSignal(Exception):
    pass


BUILTIN_NAMES = {
    "len", "list", "tuple", "set", "dict", "isinstance", "next", "iter", "any", "all", "sorted", "range",
    "zip", "enumerate", "int", "float", "str", "bool", "max", "min", "sum", "super", "getattr", "hasattr",
    "print", "abs", "round", "reversed", "type", "id", "repr", "map", "filter", "frozenset", "object",
}
BUILTIN_EXC = {
    "ValueError", "KeyError", "RuntimeError", "NotImplementedError", "AssertionError", "TypeError",
    "StopIteration", "IndexError", "AttributeError", "FileNotFoundError", "Exception", "DeprecationWarning",
    "UserWarning",
}
DROPPED_CALLS = {"warnings.warn", "warn", "logger.info", "logger.debug", "logger.warning", "print"}


class Frame:
    def __init__(self, func: FuncVal | None, env, module, cls=None, self_val=None, qualname="?"):
        self.func, self.env, self.module, self.cls, self.self_val = func, env, module, cls, self_val
        self.qualname = qualname
        self.loop_ordinal = 0


class Interp:
    MAX_DEPTH = 40

    def __init__(self, repo: Repo, ctx, ext=None, sym_attr=None):
        self.repo, self.ctx = repo, ctx
        self.ext = ext or {}  # dotted name -> callable(I, args, kw)
        self.sym_attr = sym_attr or {}  # sort name -> callable(I, sym, attrname)
        self.frames: list[Frame] = []
        self.pure = 0  # >0: evaluating a specification-like expression, no forking allowed
        self.pure_guards: list = []

    # ------------------------------------------------------------------ helpers
    def guard(self, cond, what=""):
        """a condition the real code needs in order not to raise: in normal mode a branch (the other side raises);
        in pure mode (lazy comprehension / key function evaluated on a symbolic element) it is collected and
        becomes a safety obligation of the enclosing construct"""
        if self.pure:
            self.pure_guards.append(cond if not isinstance(cond, Sym) else cond.e)
            return True
        return self.ctx.branch(cond, what)

    def eq_formula(self, a, b):
        if isinstance(a, tuple) and isinstance(b, tuple):
            if len(a) != len(b):
                return z3.BoolVal(False)
            return AND(*[self.eq_formula(x, y) for x, y in zip(a, b)])
        if isinstance(a, (Instance, ModelObj)) or isinstance(b, (Instance, ModelObj)):
            return z3.BoolVal(a is b)
        if isinstance(a, (list, dict, set)) or isinstance(b, (list, dict, set)):
            if isinstance(a, list) and isinstance(b, list):
                if len(a) != len(b):
                    return z3.BoolVal(False)
                return AND(*[self.eq_formula(x, y) for x, y in zip(a, b)])
            if isinstance(a, list) and not a and isinstance(b, Sym):
                return z3.BoolVal(False)  # v == [] for a non-list symbolic value
            if isinstance(b, list) and not b and isinstance(a, Sym):
                return z3.BoolVal(False)
            raise Unsupported("== on concrete containers")
        if isinstance(a, float) or isinstance(b, float):
            if isinstance(a, (int, float)) and isinstance(b, (int, float)):
                return z3.BoolVal(a == b)
            raise Unsupported("== on float")
        if isinstance(a, (str, int, bool, type(None))) and isinstance(b, (str, int, bool, type(None))):
            return z3.BoolVal(a == b)
        ea, eb = common(a, b)
        if ea is None:
            return z3.BoolVal(False)
        return z3.simplify(ea == eb)

    def truthy(self, v, what="cond"):
        if isinstance(v, Sym):
            s = v.sort()
            if s == Bool:
                c = v.e
            elif s == Int:
                c = v.e != 0
            elif s == Val:
                from .terms import truthyV
                c = truthyV(v.e)
            else:
                raise Unsupported(f"truthiness of sort {s}")
            if self.pure:
                raise Unsupported("symbolic branch in pure context")
            return self.ctx.branch(c, what)
        if isinstance(v, ModelObj):
            return v.m_truthy(self)
        if isinstance(v, Instance):
            if v.store is not None:
                return self.truthy(v.store, what)
            return True
        if isinstance(v, (FuncVal, BoundMethod, ClassVal, ExtRef, BoundModel, LambdaVal)):
            return True
        return bool(v)

    def as_formula(self, v):
        """Value -> z3 Bool without forking (for pure contexts)."""
        if isinstance(v, Sym):
            if v.sort() == Bool:
                return v.e
            if v.sort() == Int:
                return v.e != 0
            if v.sort() == Val:
                from .terms import truthyV
                return truthyV(v.e)
            raise Unsupported("formula of non-bool")
        if isinstance(v, (bool, int)) or v is None:
            return z3.BoolVal(bool(v))
        if isinstance(v, (list, tuple, str, dict)):
            return z3.BoolVal(bool(v))
        raise Unsupported(f"formula of {type(v).__name__}")

    def to_symseq(self, v):
        if isinstance(v, SymList):
            return v
        if isinstance(v, ModelObj):
            it = v.m_iter(self)
            if isinstance(it, SymList):
                return it
            v = it
        if isinstance(v, (list, tuple)):
            items = list(v)
            def f(i, items=items):
                out = None
                for k in range(len(items) - 1, -1, -1):
                    out = items[k] if out is None else ite_val(i == k, items[k], out)
                if out is None:
                    raise Unsupported("element of empty list")
                return out
            return SymList(z3.IntVal(len(items)), f)
        raise Unsupported(f"sequence view of {type(v).__name__}")

    def iterate(self, v):
        """-> python list (concrete unrolling) or SymList."""
        if isinstance(v, (list, tuple)):
            return list(v)
        if isinstance(v, range):
            return list(v)
        if isinstance(v, dict):
            return list(v.keys())
        if isinstance(v, set):
            return sorted(v, key=repr)
        if isinstance(v, str):
            return list(v)
        if isinstance(v, ModelObj):
            return v.m_iter(self)
        if isinstance(v, Instance) and v.store is not None:
            return self.iterate(v.store)
        if isinstance(v, Sym) and "model.val_iter" in self.ext:
            # an opaque value known (on this path) to be a list: the contract supplies its sequence view
            return self.ext["model.val_iter"](self, [v], {})
        raise Unsupported(f"iteration over {type(v).__name__}")

    def dict_items(self, d):
        if isinstance(d, dict):
            return list(d.items())
        if isinstance(d, AssocDict):
            return list(d.items)
        if isinstance(d, Instance) and d.store is not None:
            return self.dict_items(d.store)
        raise Unsupported(f"items of {type(d).__name__}")

    def length(self, v):
        if isinstance(v, (list, tuple, dict, set, str)):
            return len(v)
        if isinstance(v, ModelObj):
            return v.m_len(self)
        if isinstance(v, Instance) and v.store is not None:
            return self.length(v.store)
        if isinstance(v, Sym) and "model.val_len" in self.ext:
            # an opaque value known (on this path) to be a list: the contract supplies its length
            return self.ext["model.val_len"](self, [v], {})
        raise Unsupported(f"len of {type(v).__name__}")

    def contains(self, container, item):
        if isinstance(container, (list, tuple, set)):
            return Sym(z3.simplify(OR(*[self.eq_formula(item, x) for x in container])))
        if isinstance(container, dict):
            return Sym(z3.simplify(OR(*[self.eq_formula(item, k) for k in container])))
        if isinstance(container, ModelObj):
            return container.m_contains(self, item)
        if isinstance(container, Instance) and container.store is not None:
            return self.contains(container.store, item)
        raise Unsupported(f"`in` on {type(container).__name__}")

    def getitem(self, obj, idx):
        if isinstance(obj, (list, tuple)):
            if isinstance(idx, slice):
                return obj[idx]
            if isinstance(idx, Sym):
                return self.to_symseq(obj).m_getitem(self, idx)
            try:
                return obj[idx]
            except IndexError:
                raise PyRaise(BuiltinExc("IndexError", ("index out of range",)))
        if isinstance(obj, dict):
            if isinstance(idx, Sym):
                for k, v in obj.items():
                    if self.ctx.branch(self.eq_formula(idx, k), f"key=={k}"):
                        return v
                raise PyRaise(BuiltinExc("KeyError", (idx,)))
            if idx in obj:
                return obj[idx]
            raise PyRaise(BuiltinExc("KeyError", (idx,)))
        if isinstance(obj, SymList) and isinstance(idx, slice):
            lo, hi, st = idx.start, idx.stop, idx.step
            if hi is None and st is None and isinstance(lo, int) and lo >= 0:
                return obj.slice_from(lo)
            if lo is None and hi is None and st == -1:
                return obj.reversed()
            raise Unsupported("general slice of symbolic list")
        if isinstance(obj, ModelObj):
            return obj.m_getitem(self, idx)
        if isinstance(obj, Instance) and obj.store is not None:
            return self.getitem(obj.store, idx)
        raise Unsupported(f"subscript of {type(obj).__name__}")

    def setitem(self, obj, idx, v):
        if isinstance(obj, list):
            obj[idx] = v
        elif isinstance(obj, dict):
            if isinstance(idx, Sym):
                raise Unsupported("symbolic key store into concrete dict")
            obj[idx] = v
        elif isinstance(obj, ModelObj):
            obj.m_setitem(self, idx, v)
        elif isinstance(obj, Instance) and obj.store is not None:
            self.setitem(obj.store, idx, v)
        else:
            raise Unsupported(f"subscript store on {type(obj).__name__}")

    def delitem(self, obj, idx):
        if isinstance(obj, dict):
            if idx not in obj:
                raise PyRaise(BuiltinExc("KeyError", (idx,)))
            del obj[idx]
        elif isinstance(obj, list):
            del obj[idx]
        elif isinstance(obj, ModelObj):
            obj.m_delitem(self, idx)
        elif isinstance(obj, Instance) and obj.store is not None:
            self.delitem(obj.store, idx)
        else:
            raise Unsupported(f"del on {type(obj).__name__}")

    # ------------------------------------------------------------------ names
    def lookup(self, name):
        fr = self.frames[-1]
        env = fr.env
        while env is not None:
            if name in env:
                return env[name]
            env = env.get("__parent__")
        r = self.repo.lookup_global(fr.module, name)
        if r is not None:
            return self.global_value(r)
        if name in BUILTIN_NAMES or name in BUILTIN_EXC:
            return ExtRef("builtins." + name)
        if name in ("True", "False", "None"):
            return {"True": True, "False": False, "None": None}[name]
        raise Unsupported(f"unbound name {name} in {fr.qualname}")

    def global_value(self, r):
        kind, payload = r
        if kind == "func":
            fi: FuncInfo = payload
            return FuncVal(fi.node, fi.module, None, None, fi.qualname)
        if kind == "class":
            return ClassVal(payload)
        if kind == "module":
            return ModuleVal(payload)
        if kind == "ext":
            return ExtRef(payload)
        if kind == "const":
            mod, expr = payload
            self.frames.append(Frame(None, {}, mod, qualname=mod.name))
            try:
                return self.eval(expr)
            finally:
                self.frames.pop()
        raise Unsupported(f"global kind {kind}")

    # ------------------------------------------------------------------ attributes
    def getattr(self, obj, name):
        if isinstance(obj, Instance):
            if name in obj.fields:
                return obj.fields[name]
            found = obj.cls.find(name)
            if found:
                c, node, kind = found
                fv = FuncVal(node, c.module, None, c, f"{c.qualname}.{name}")
                if kind == "prop":
                    return self.call_function(fv, [obj], {})
                if name in c.classmethods:
                    return BoundMethod(ClassVal(obj.cls), fv)
                return BoundMethod(obj, fv)
            for c in obj.cls.mro():
                if name in c.consts:
                    return self.eval_in_module(c.consts[name], c.module)
            if obj.store is not None:
                return self.getattr(obj.store, name)
            raise Unsupported(f"attribute {obj.cls.name}.{name}")
        if isinstance(obj, SuperProxy):
            mro = obj.inst.cls.mro()
            idx = [i for i, c in enumerate(mro) if c is obj.after_cls][0]
            for c in mro[idx + 1:]:
                if name in c.methods:
                    return BoundMethod(obj.inst, FuncVal(c.methods[name], c.module, None, c, f"{c.qualname}.{name}"))
            return BoundModel(_ExternalBase(obj.inst), name)
        if isinstance(obj, ClassVal):
            found = obj.cls.find(name)
            if found:
                c, node, kind = found
                fv = FuncVal(node, c.module, None, c, f"{c.qualname}.{name}")
                if name in c.classmethods:
                    return BoundMethod(obj, fv)
                return fv
            for c in obj.cls.mro():
                if name in c.consts:
                    v = self.eval_in_module(c.consts[name], c.module)
                    if "Enum" in c.external_bases() and isinstance(v, (str, int)):
                        return EnumMember(name, v)
                    return v
            raise Unsupported(f"class attribute {obj.cls.name}.{name}")
        if isinstance(obj, ModuleVal):
            r = self.repo.lookup_global(obj.mod, name)
            if r is None:
                raise Unsupported(f"module attribute {obj.mod.name}.{name}")
            return self.global_value(r)
        if isinstance(obj, ExtRef):
            return ExtRef(obj.name + "." + name)
        if isinstance(obj, ModelObj):
            return obj.m_getattr(self, name)
        if isinstance(obj, Sym):
            h = self.sym_attr.get(str(obj.sort()))
            if h:
                return h(self, obj, name)
            raise Unsupported(f"attribute .{name} of symbolic {obj.sort()}")
        if isinstance(obj, (list, dict, tuple, str, set)):
            return BoundModel(_PyBuiltinMethods(obj), name)
        raise Unsupported(f"attribute .{name} of {type(obj).__name__}")

    def rebind(self, old, new):
        """replace every reference to the interpreter value `old` held by a local variable or an instance field"""
        for fr in self.frames:
            seen = set()
            env = fr.env
            while isinstance(env, dict) and id(env) not in seen:
                seen.add(id(env))
                for nm, v in list(env.items()):
                    if v is old:
                        env[nm] = new
                env = env.get("__parent__")

    def setattr(self, obj, name, v):
        if isinstance(obj, Instance):
            obj.fields[name] = v
            hook = getattr(self, "on_setattr", None)
            if hook:
                hook(obj, name, v)
        elif isinstance(obj, ModelObj) and hasattr(obj, "m_setattr"):
            obj.m_setattr(self, name, v)
        else:
            raise Unsupported(f"attribute store on {type(obj).__name__}")

    def eval_in_module(self, expr, mod):
        self.frames.append(Frame(None, {}, mod, qualname=mod.name))
        try:
            return self.eval(expr)
        finally:
            self.frames.pop()

    # ------------------------------------------------------------------ calls
    def call(self, f, args, kw):
        if isinstance(f, BoundMethod):
            return self.call_function(f.func, [f.self_val] + list(args), kw)
        if isinstance(f, FuncVal):
            return self.call_function(f, list(args), kw)
        if isinstance(f, LambdaVal):
            return self.call_lambda(f, list(args))
        if isinstance(f, ClassVal):
            return self.instantiate(f.cls, list(args), kw)
        if isinstance(f, BoundModel):
            return f.obj.m_call(self, f.name, list(args), kw)
        if isinstance(f, ExtRef):
            h = self.ext.get(f.name)
            if h is None:
                raise Unsupported(f"call of external {f.name}")
            return h(self, list(args), kw)
        if isinstance(f, ModelObj) and hasattr(f, "m_call_self"):
            return f.m_call_self(self, list(args), kw)  # a callable library object (e.g. graph.nodes(data=True))
        raise Unsupported(f"call of {type(f).__name__}")

    def instantiate(self, cls: ClassInfo, args, kw):
        qn = cls.qualname + ".__init__"
        con = self.ctx.contracts.get(qn)
        if con is not None and qn != getattr(self, "under_verification", None):
            return con.apply(self, list(args), kw)
        inst = Instance(cls)
        ext = cls.external_bases()
        if "list" in ext:
            inst.store = []
        elif "dict" in ext:
            inst.store = AssocDict()
        found = cls.find("__init__")
        if found:
            c, node, _ = found
            self.call_function(FuncVal(node, c.module, None, c, f"{c.qualname}.__init__"), [inst] + args, kw)
        return inst

    def bind_args(self, node: ast.FunctionDef | ast.Lambda, args, kw, defaults_frame):
        a = node.args
        params = [p.arg for p in a.posonlyargs + a.args]
        env = {}
        if len(args) > len(params) and not a.vararg:
            raise Unsupported(f"too many positional args for {getattr(node, 'name', 'lambda')}")
        for p, v in zip(params, args):
            env[p] = v
        if a.vararg:
            env[a.vararg.arg] = tuple(args[len(params):])
        kw = dict(kw)
        for p in params[len(args):] + [k.arg for k in a.kwonlyargs]:
            if p in kw:
                env[p] = kw.pop(p)
        if kw:
            if a.kwarg:
                env[a.kwarg.arg] = dict(kw)
            else:
                raise Unsupported(f"unexpected kwargs {list(kw)}")
        # defaults
        nd = len(a.defaults)
        for p, d in zip(params[len(params) - nd:], a.defaults):
            if p not in env:
                env[p] = defaults_frame(d)
        for k, d in zip(a.kwonlyargs, a.kw_defaults):
            if k.arg not in env and d is not None:
                env[k.arg] = defaults_frame(d)
        for p in params:
            if p not in env:
                raise PyRaise(BuiltinExc("TypeError", (f"missing argument {p}",)))
        return env

    def call_function(self, fv: FuncVal, args, kw):
        qn = fv.qualname
        con = self.ctx.contracts.get(qn)
        if con is not None and qn != getattr(self, "under_verification", None):
            return con.apply(self, args, kw)
        if len(self.frames) > self.MAX_DEPTH:
            raise Unsupported(f"call depth exceeded at {qn}")
        env = self.bind_args(fv.node, args, kw, lambda d: self.eval_in_module(d, fv.module))
        env["__parent__"] = fv.env
        self_val = args[0] if (fv.cls is not None and args) else None
        fr = Frame(fv, env, fv.module, fv.cls, self_val, qn)
        self.frames.append(fr)
        self.ctx.call_stack.append(qn)
        try:
            self.exec_block(fv.node.body)
            return None
        except ReturnSignal as r:
            return r.value
        finally:
            self.frames.pop()
            self.ctx.call_stack.pop()

    def call_lambda(self, lv: LambdaVal, args):
        env = self.bind_args(lv.node, args, {}, lambda d: self.eval_in_module(d, lv.module))
        env["__parent__"] = lv.env
        fr = Frame(None, env, lv.module, lv.cls, None, "<lambda>")
        self.frames.append(fr)
        try:
            return self.eval(lv.node.body)
        finally:
            self.frames.pop()

    # ------------------------------------------------------------------ statements
    def exec_block(self, body):
        for st in body:
            self.exec(st)

    def exec(self, st):
        m = getattr(self, "x_" + type(st).__name__, None)
        if m is None:
            raise Unsupported(f"statement {type(st).__name__} (line {st.lineno})")
        return m(st)

    def x_Expr(self, st):
        if isinstance(st.value, ast.Constant):
            return  # docstring
        self.eval(st.value)

    def x_Pass(self, st):
        pass

    def x_Import(self, st):
        fr = self.frames[-1]
        for a in st.names:
            fr.env[a.asname or a.name.split(".")[0]] = ExtRef(a.name if a.asname else a.name.split(".")[0])

    def x_ImportFrom(self, st):
        fr = self.frames[-1]
        target = self.repo._resolve_from(fr.module, st)
        for a in st.names:
            if target in self.repo.modules:
                r = self.repo.lookup_global(self.repo.modules[target], a.name)
                if r is None and f"{target}.{a.name}" in self.repo.modules:
                    r = ("module", self.repo.modules[f"{target}.{a.name}"])
                if r is None:
                    raise Unsupported(f"import {a.name} from {target}")
                fr.env[a.asname or a.name] = self.global_value(r)
            else:
                fr.env[a.asname or a.name] = ExtRef(f"{target}.{a.name}")

    def x_FunctionDef(self, st):
        fr = self.frames[-1]
        fr.env[st.name] = FuncVal(st, fr.module, fr.env, fr.cls, f"{fr.qualname}.<locals>.{st.name}")

    def x_Return(self, st):
        raise ReturnSignal(self.eval(st.value) if st.value is not None else None)

    def x_Break(self, st):
        raise BreakSignal()

    def x_Continue(self, st):
        raise ContinueSignal()

    def x_Assign(self, st):
        v = self.eval(st.value)
        for t in st.targets:
            self.assign(t, v)

    def x_AnnAssign(self, st):
        if st.value is not None:
            self.assign(st.target, self.eval(st.value))

    def x_AugAssign(self, st):
        cur = self.eval(_load(st.target))
        v = self.binop(st.op, cur, self.eval(st.value), inplace=True)
        if v is not _INPLACE_DONE:
            self.assign(st.target, v)

    def x_Delete(self, st):
        for t in st.targets:
            if isinstance(t, ast.Subscript):
                self.delitem(self.eval(t.value), self.eval_index(t.slice))
            elif isinstance(t, ast.Name):
                self.frames[-1].env.pop(t.id, None)
            else:
                raise Unsupported("del target")

    def assign(self, t, v):
        if isinstance(t, ast.Name):
            self.frames[-1].env[t.id] = v
        elif isinstance(t, ast.Attribute):
            self.setattr(self.eval(t.value), t.attr, v)
        elif isinstance(t, ast.Subscript):
            self.setitem(self.eval(t.value), self.eval_index(t.slice), v)
        elif isinstance(t, (ast.Tuple, ast.List)):
            items = self.unpack(v, len(t.elts))
            for tt, x in zip(t.elts, items):
                self.assign(tt, x)
        else:
            raise Unsupported(f"assignment target {type(t).__name__}")

    def unpack(self, v, n):
        if isinstance(v, (tuple, list)):
            if len(v) != n:
                raise PyRaise(BuiltinExc("ValueError", ("unpack arity",)))
            return list(v)
        if isinstance(v, SymList):
            if not self.ctx.branch(v.n == n, f"len=={n} for unpacking"):
                raise PyRaise(BuiltinExc("ValueError", ("unpack arity",)))
            return [v.get(z3.IntVal(i)) for i in range(n)]
        if isinstance(v, ModelObj) and hasattr(v, "m_unpack"):
            return v.m_unpack(self, n)
        raise Unsupported(f"unpacking {type(v).__name__}")

    def x_If(self, st):
        if self.truthy(self.eval(st.test), _descr(st.test)):
            self.exec_block(st.body)
        else:
            self.exec_block(st.orelse)

    def x_Assert(self, st):
        if not self.truthy(self.eval(st.test), "assert " + _descr(st.test)):
            raise PyRaise(BuiltinExc("AssertionError", ()))

    def x_Raise(self, st):
        if st.exc is None:
            handling = getattr(self, "handling", [])
            if not handling:
                raise Unsupported("bare raise outside an except block")
            raise PyRaise(handling[-1])  # re-raise the exception being handled
        e = self.eval(st.exc)
        if isinstance(e, ClassVal):
            e = self.instantiate(e.cls, [], {})
        if isinstance(e, ExtRef):
            e = BuiltinExc(e.name.split(".")[-1], ())
        raise PyRaise(e)

    def x_With(self, st):
        for item in st.items:
            d = ast.unparse(item.context_expr)
            if not d.startswith("warnings.catch_warnings") and not d.startswith("open("):
                raise Unsupported(f"with {d}")
            if d.startswith("open("):
                if item.optional_vars is not None:
                    self.assign(item.optional_vars, ExtRef("file"))
        self.exec_block(st.body)

    def x_Try(self, st):
        if st.finalbody or st.orelse:
            raise Unsupported("try/finally/else")
        try:
            self.exec_block(st.body)
        except PyRaise as pr:
            names = exc_names(pr.exc)
            for h in st.handlers:
                hn = None if h.type is None else self.eval(h.type)
                hnames = [hn] if not isinstance(hn, tuple) else list(hn)
                ok = h.type is None or any(_tname(x) in names for x in hnames)
                if ok:
                    if h.name:
                        self.frames[-1].env[h.name] = pr.exc
                    if not hasattr(self, "handling"):
                        self.handling = []
                    self.handling.append(pr.exc)
                    try:
                        self.exec_block(h.body)
                    finally:
                        self.handling.pop()
                    return
            raise

    # ---- loops
    def next_loop_key(self):
        fr = self.frames[-1]
        k = (fr.qualname, fr.loop_ordinal)
        fr.loop_ordinal += 1
        return k

    def x_For(self, st):
        key = self.next_loop_key()
        it = self.iterate(self.eval(st.iter))
        spec = self.ctx.loopspecs.get(key)
        if isinstance(it, list):
            saved = self.frames[-1].loop_ordinal
            for x in it:
                self.frames[-1].loop_ordinal = saved
                self.assign(st.target, x)
                try:
                    self.exec_block(st.body)
                except BreakSignal:
                    return
                except ContinueSignal:
                    continue
            else:
                self.exec_block(st.orelse)
            return
        if not isinstance(it, SymList):
            raise Unsupported(f"for over {type(it).__name__}")
        if spec is None or getattr(spec, "unroll", None) is not None:
            bound = getattr(spec, "unroll", None) if spec else None
            if bound is None:
                bound = self.default_unroll(it)
            if bound is None:
                raise Unsupported(f"loop {key} over a symbolic sequence needs an invariant")
            self.unrolled_for(st, it, bound, key)
            return
        self.invariant_for(st, it, spec, key)

    def default_unroll(self, it):
        """A symbolic list whose length is provably <= 3 is unrolled completely."""
        for k in range(0, 4):
            if self.ctx.entails(it.n <= k):
                return k
        return None

    def unrolled_for(self, st, it, bound, key):
        saved = self.frames[-1].loop_ordinal
        for k in range(bound + 1):
            if not self.ctx.branch(it.n > k, f"loop{key[1]} has element {k}"):
                self.exec_block(st.orelse)
                return
            if k == bound:
                # unwinding assertion: must be unreachable
                self.ctx.oblige(f"{key[0]}/loop{key[1]}/unwind<={bound}", z3.BoolVal(False), kind="unwind")
                raise PathEnd()
            self.frames[-1].loop_ordinal = saved
            self.assign(st.target, it.get(z3.IntVal(k)))
            try:
                self.exec_block(st.body)
            except BreakSignal:
                return
            except ContinueSignal:
                continue

    def invariant_for(self, st, it, spec, key):
        ctx = self.ctx
        fr = self.frames[-1]
        tag = f"{key[0]}/loop{key[1]}"
        spec.enter(self, fr, it)
        for lbl, f in spec.inv(self, fr, it, z3.IntVal(0)):
            ctx.oblige(f"{tag}/init/{lbl}", f, kind="inv_init", props=spec.props)
        i = ctx.fresh("i", Int)
        spec.havoc(self, fr, it, i, assigned_names(st.body) | assigned_names([st.target]))
        ctx.assume(AND(i >= 0, i <= it.n))
        for lbl, f in spec.inv(self, fr, it, i):
            ctx.assume(f)
        if ctx.branch(i < it.n, f"loop{key[1]} iterates"):
            self.assign(st.target, it.get(i))
            try:
                self.exec_block(st.body)
            except ContinueSignal:
                pass
            except BreakSignal:
                return
            spec.ghost_step(self, fr, it, i)
            for lbl, f in spec.inv(self, fr, it, i + 1):
                ctx.oblige(f"{tag}/preserve/{lbl}", f, kind="inv_pres", props=spec.props)
            raise PathEnd()
        ctx.assume(i == it.n)
        if hasattr(spec, "at_exit"):
            spec.at_exit(self, fr, it)
        self.exec_block(st.orelse)

    def x_While(self, st):
        key = self.next_loop_key()
        spec = self.ctx.loopspecs.get(key)
        ctx = self.ctx
        fr = self.frames[-1]
        if spec is None:
            # concrete while: run while the condition is decided concretely (bounded)
            for _ in range(64):
                if not self.truthy(self.eval(st.test), "while " + _descr(st.test)):
                    return
                try:
                    self.exec_block(st.body)
                except BreakSignal:
                    return
                except ContinueSignal:
                    continue
            raise Unsupported(f"while loop {key} needs an invariant")
        tag = f"{key[0]}/loop{key[1]}"
        spec.enter(self, fr, None)
        for lbl, f in spec.inv(self, fr, None, None):
            ctx.oblige(f"{tag}/init/{lbl}", f, kind="inv_init", props=spec.props)
        spec.havoc(self, fr, None, None, assigned_names(st.body))
        for lbl, f in spec.inv(self, fr, None, None):
            ctx.assume(f)
        if self.truthy(self.eval(st.test), "while " + _descr(st.test)):
            try:
                self.exec_block(st.body)
            except ContinueSignal:
                pass
            except BreakSignal:
                return
            spec.ghost_step(self, fr, None, None)
            for lbl, f in spec.inv(self, fr, None, None):
                ctx.oblige(f"{tag}/preserve/{lbl}", f, kind="inv_pres", props=spec.props)
            raise PathEnd()
        if hasattr(spec, "at_exit"):
            spec.at_exit(self, fr, None)

    # ------------------------------------------------------------------ expressions
    def eval(self, e):
        m = getattr(self, "e_" + type(e).__name__, None)
        if m is None:
            raise Unsupported(f"expression {type(e).__name__} (line {getattr(e, 'lineno', '?')})")
        return m(e)

    def e_Constant(self, e):
        return e.value

    def e_Name(self, e):
        return self.lookup(e.id)

    def e_JoinedStr(self, e):
        return "<fstring>"

    def e_Attribute(self, e):
        return self.getattr(self.eval(e.value), e.attr)

    def eval_index(self, s):
        if isinstance(s, ast.Slice):
            return slice(*(None if x is None else self.eval(x) for x in (s.lower, s.upper, s.step)))
        return self.eval(s)

    def e_Subscript(self, e):
        return self.getitem(self.eval(e.value), self.eval_index(e.slice))

    def e_Tuple(self, e):
        out = []
        for x in e.elts:
            if isinstance(x, ast.Starred):
                out.extend(self.concrete_list(self.eval(x.value)))
            else:
                out.append(self.eval(x))
        return tuple(out)

    def e_List(self, e):
        return list(self.e_Tuple(e))

    def e_Set(self, e):
        raise Unsupported("set display")

    def e_Dict(self, e):
        items = []
        for k, v in zip(e.keys, e.values):
            if k is None:
                items.extend(self.dict_items(self.eval(v)))
            else:
                items.append((self.eval(k), self.eval(v)))
        if items and all(isinstance(k, (str, int)) and not isinstance(k, bool) for k, _ in items):
            return dict(items)
        return AssocDict(items)

    def concrete_list(self, v):
        it = self.iterate(v)
        if not isinstance(it, list):
            raise Unsupported("starred symbolic sequence")
        return it

    def e_Lambda(self, e):
        fr = self.frames[-1]
        return LambdaVal(e, fr.module, fr.env, fr.cls)

    def e_IfExp(self, e):
        c = self.eval(e.test)
        if self.pure and isinstance(c, Sym):
            return ite_val(self.as_formula(c), self.eval(e.body), self.eval(e.orelse))
        return self.eval(e.body) if self.truthy(c, _descr(e.test)) else self.eval(e.orelse)

    def e_NamedExpr(self, e):
        v = self.eval(e.value)
        self.assign(e.target, v)
        return v

    def e_BoolOp(self, e):
        is_and = isinstance(e.op, ast.And)
        if self.pure:
            vals = [self.eval(x) for x in e.values]
            fs = [self.as_formula(v) for v in vals]
            return Sym(AND(*fs) if is_and else OR(*fs))
        v = None
        for x in e.values:
            v = self.eval(x)
            t = self.truthy(v, _descr(x))
            if is_and and not t:
                return v if not isinstance(v, Sym) else False
            if not is_and and t:
                return v if not isinstance(v, Sym) else True
        return v if not isinstance(v, Sym) else is_and

    def e_UnaryOp(self, e):
        v = self.eval(e.operand)
        if isinstance(e.op, ast.Not):
            if isinstance(v, Sym) and v.sort() == Bool:
                return Sym(z3.Not(v.e))
            if isinstance(v, Sym) and v.sort() == Int:
                return Sym(v.e == 0)
            return not self.truthy(v, _descr(e.operand))
        if isinstance(e.op, ast.USub):
            if isinstance(v, Sym):
                return Sym(-to_z3(v, Int))
            return -v
        raise Unsupported("unary op")

    def e_BinOp(self, e):
        return self.binop(e.op, self.eval(e.left), self.eval(e.right))

    def binop(self, op, a, b, inplace=False):
        if isinstance(op, ast.BitOr) and isinstance(a, (ExtRef, ClassVal, tuple)) and isinstance(b, (ExtRef, ClassVal, tuple)):
            return (a if isinstance(a, tuple) else (a,)) + (b if isinstance(b, tuple) else (b,))
        if isinstance(a, ModelObj) and hasattr(a, "m_binop"):
            return a.m_binop(self, op, b, inplace)
        if isinstance(b, ModelObj) and hasattr(b, "m_rbinop"):
            return b.m_rbinop(self, op, a)
        if isinstance(a, Sym) or isinstance(b, Sym):
            if isinstance(a, list) and len(a) == 1 and isinstance(op, ast.Mult) and isinstance(b, Sym) and b.sort() == Int:
                # [x] * n for a symbolic n: the list of n copies of x (empty for n <= 0)
                x, n = a[0], b.e
                return SymList(z3.If(n >= 0, n, 0), lambda i: x, elem_sort=(x.sort() if isinstance(x, Sym) else None))
            if isinstance(a, (list, tuple)) or isinstance(b, (list, tuple)):
                raise Unsupported("sequence arithmetic with symbolic operand")
            real = any(isinstance(x, Sym) and x.sort() == z3.RealSort() for x in (a, b))
            if real:
                ea, eb = (x.e if isinstance(x, Sym) else z3.RealVal(x) for x in (a, b))
                if ea.sort() != z3.RealSort():
                    ea = z3.ToReal(ea)
                if eb.sort() != z3.RealSort():
                    eb = z3.ToReal(eb)
            else:
                ea, eb = to_z3(a, Int), to_z3(b, Int)
            if isinstance(op, ast.Add):
                return Sym(z3.simplify(ea + eb))
            if isinstance(op, ast.Sub):
                return Sym(z3.simplify(ea - eb))
            if isinstance(op, ast.Mult):
                return Sym(ea * eb)
            raise Unsupported(f"symbolic {type(op).__name__}")
        if isinstance(a, list) and isinstance(op, ast.Add) and inplace and isinstance(b, list):
            a.extend(b)
            return _INPLACE_DONE
        try:
            if isinstance(op, ast.Add):
                return a + b
            if isinstance(op, ast.Sub):
                return a - b
            if isinstance(op, ast.Mult):
                return a * b
            if isinstance(op, ast.FloorDiv):
                return a // b
            if isinstance(op, ast.Mod):
                return a % b
            if isinstance(op, ast.Div):
                return a / b
        except TypeError as ex:
            raise Unsupported(f"binop on {type(a).__name__},{type(b).__name__}: {ex}")
        raise Unsupported(f"binop {type(op).__name__}")

    def e_Compare(self, e):
        left = self.eval(e.left)
        result = None
        for op, rn in zip(e.ops, e.comparators):
            right = self.eval(rn)
            r = self.compare(op, left, right)
            if result is None:
                result = r
            else:
                result = Sym(AND(self.as_formula(result), self.as_formula(r))) if (isinstance(r, Sym) or isinstance(result, Sym)) else (result and r)
            left = right
        return result

    def compare(self, op, a, b):
        if isinstance(op, (ast.Eq, ast.NotEq)):
            if isinstance(op, ast.NotEq) and isinstance(a, ModelObj) and hasattr(a, "m_ne"):
                return a.m_ne(self, b)
            if isinstance(a, ModelObj) and hasattr(a, "m_eq"):
                f = a.m_eq(self, b)
                if isinstance(f, ModelObj):
                    if isinstance(op, ast.NotEq):
                        raise Unsupported("!= on array-valued comparison")
                    return f
            elif isinstance(b, ModelObj) and hasattr(b, "m_eq"):
                f = b.m_eq(self, a)
            else:
                f = self.eq_formula(a, b)
            if isinstance(f, Sym):
                f = f.e
            f = z3.simplify(f if isinstance(op, ast.Eq) else z3.Not(f))
            return _unsym(f)
        if isinstance(op, (ast.Is, ast.IsNot)):
            if a is None or b is None:
                other = b if a is None else a
                if isinstance(other, Sym):
                    if other.sort() == Val:
                        f = is_VNone(other.e)
                    else:
                        f = z3.BoolVal(False)
                elif isinstance(other, ModelObj) and hasattr(other, "m_is_none"):
                    f = other.m_is_none(self)
                else:
                    f = z3.BoolVal(other is None)
            elif isinstance(a, Sym) or isinstance(b, Sym):
                f = self.eq_formula(a, b)
            else:
                f = z3.BoolVal(a is b)
            f = z3.simplify(f if isinstance(op, ast.Is) else z3.Not(f))
            return _unsym(f)
        if isinstance(op, (ast.In, ast.NotIn)):
            r = self.contains(b, a)
            f = r.e if isinstance(r, Sym) else z3.BoolVal(bool(r))
            f = z3.simplify(f if isinstance(op, ast.In) else z3.Not(f))
            return _unsym(f)
        if isinstance(a, Sym) or isinstance(b, Sym):
            ea, eb = to_z3(a, Int), to_z3(b, Int)
            f = {ast.Lt: ea < eb, ast.LtE: ea <= eb, ast.Gt: ea > eb, ast.GtE: ea >= eb}[type(op)]
            return _unsym(z3.simplify(f))
        if isinstance(a, ModelObj) and hasattr(a, "m_compare"):
            return a.m_compare(self, op, b)
        try:
            return {ast.Lt: a < b, ast.LtE: a <= b, ast.Gt: a > b, ast.GtE: a >= b}[type(op)]
        except TypeError as ex:
            raise Unsupported(f"compare {type(a).__name__},{type(b).__name__}: {ex}")

    def e_Call(self, e):
        d = ast.unparse(e.func)
        if d in DROPPED_CALLS or d.startswith("logger.") or d.startswith("warnings."):
            return None
        if d == "super" and not e.args:
            fr = self.frames[-1]
            return SuperProxy(fr.self_val, fr.cls)
        if d == "tqdm" or d == "cast":
            return self.eval(e.args[-1])
        # comprehension-consuming builtins
        if d in ("any", "all") and len(e.args) == 1 and isinstance(e.args[0], ast.GeneratorExp):
            return self.any_all(d, e.args[0])
        f = self.eval(e.func)
        args = []
        for a in e.args:
            if isinstance(a, ast.Starred):
                args.extend(self.concrete_list(self.eval(a.value)))
            else:
                args.append(self.eval(a))
        kw = {}
        for k in e.keywords:
            if k.arg is None:
                dv = self.eval(k.value)
                if isinstance(dv, SymDict) or (isinstance(dv, AssocDict) and any(not isinstance(kk, str) for kk, _ in dv.items)):
                    kw["__symkw__"] = dv
                else:
                    kw.update(dict(self.dict_items(dv)))
            else:
                kw[k.arg] = self.eval(k.value)
        self.call_node = (e, self.frames[-1])
        return self.call(f, args, kw)

    def call_site_id(self, callee):
        """A label for the current call site that is stable under edits elsewhere: enclosing function,
        callee text and the ordinal of this call among the calls with the same text in that function."""
        node, fr = getattr(self, "call_node", (None, None))
        if node is None or fr.func is None:
            return callee
        txt = ast.unparse(node.func)
        same = [n for n in ast.walk(fr.func.node) if isinstance(n, ast.Call) and ast.unparse(n.func) == txt]
        same.sort(key=lambda n: (n.lineno, n.col_offset))
        idx = next((i for i, n in enumerate(same) if n is node), 0)
        short = fr.qualname.split(".")
        short = ".".join(short[-2:]) if len(short) >= 2 else fr.qualname
        return f"{short}/{txt}#{idx}"

    # ---- comprehensions
    def comp_iter(self, gens, body_fn, idx=0):
        """Evaluate nested comprehension generators over concrete iterables."""
        if idx == len(gens):
            body_fn()
            return
        g = gens[idx]
        it = self.iterate(self.eval(g.iter))
        if isinstance(it, SymList):
            k = self.default_unroll(it)
            if k is None:
                h = getattr(self, "symbolic_comprehension", None)
                raise Unsupported("comprehension over a symbolic sequence")
            items = []
            for j in range(k):
                if not self.ctx.branch(it.n > j, f"comp has element {j}"):
                    break
                items.append(it.get(z3.IntVal(j)))
            it = items
        for x in it:
            self.assign(g.target, x)
            if all(self.truthy(self.eval(c), _descr(c)) for c in g.ifs):
                self.comp_iter(gens, body_fn, idx + 1)

    def _comp_frame(self):
        fr = self.frames[-1]
        nf = Frame(fr.func, {"__parent__": fr.env}, fr.module, fr.cls, fr.self_val, fr.qualname)
        nf.loop_ordinal = fr.loop_ordinal
        return nf

    def invariant_comp(self, e, it, spec, key):
        """[elt for x in L] over a symbolic list L with an invariant (the body may have effects):
        result_i = the list built after i elements; checked init / preserve like a for loop."""
        ctx = self.ctx
        fr = self.frames[-1]
        tag = f"{key[0]}/comp{key[1]}"
        g = e.generators[0]
        spec.enter(self, fr, it)
        empty = SymList(z3.IntVal(0), lambda i: spec.dummy(i), elem_sort=spec.result_sort)
        for lbl, f in spec.inv(self, fr, it, z3.IntVal(0), empty):
            ctx.oblige(f"{tag}/init/{lbl}", f, kind="inv_init", props=spec.props)
        i = ctx.fresh("i", Int)
        spec.havoc(self, fr, it, i, set())
        res = SymList.fresh(ctx, "comp", spec.result_sort)
        ctx.assume(AND(i >= 0, i <= it.n, res.n == i))
        for lbl, f in spec.inv(self, fr, it, i, res):
            ctx.assume(f)
        if ctx.branch(i < it.n, f"comp{key[1]} iterates"):
            self.frames.append(self._comp_frame())
            try:
                self.assign(g.target, it.get(i))
                for c in g.ifs:
                    raise Unsupported("filtered comprehension with invariant")
                v = self.eval(e.elt)
            finally:
                self.frames.pop()
            res.do_append(self, v)
            for lbl, f in spec.inv(self, fr, it, i + 1, res):
                ctx.oblige(f"{tag}/preserve/{lbl}", f, kind="inv_pres", props=spec.props)
            raise PathEnd()
        ctx.assume(i == it.n)
        return res

    def e_ListComp(self, e):
        if len(e.generators) == 1:
            key = (self.frames[-1].qualname, "c%d" % sum(1 for _ in [0]))
            spec = self.ctx.loopspecs.get((self.frames[-1].qualname, "comp0"))
            if spec is not None:
                it = self.iterate(self.eval(e.generators[0].iter))
                if isinstance(it, SymList):
                    return self.invariant_comp(e, it, spec, (self.frames[-1].qualname, 0))
        if len(e.generators) == 1 and not e.generators[0].ifs:
            it0 = self.iterate(self.eval(e.generators[0].iter))
            if isinstance(it0, SymList) and self.default_unroll(it0) is None:
                return self.lazy_map(e, it0)
        elif len(e.generators) == 1:
            it0 = self.iterate(self.eval(e.generators[0].iter))
            if isinstance(it0, SymList) and self.default_unroll(it0) is None:
                return self.lazy_filter_map(e, it0)
        out = []
        self.frames.append(self._comp_frame())
        try:
            self.comp_iter(e.generators, lambda: out.append(self.eval(e.elt)))
        finally:
            self.frames.pop()
        return out

    def lazy_map(self, e, L):
        """[f(x) for x in L] with a pure f over a symbolic list: the list L' with L'[i] = f(L[i]), evaluated
        lazily; what f needs in order not to raise becomes one safety obligation over a fresh index."""
        frame = self._comp_frame()
        g = e.generators[0]

        def f(i):
            self.frames.append(frame)
            self.pure += 1
            try:
                self.assign(g.target, L.get(i))
                return self.eval(e.elt)
            finally:
                self.pure -= 1
                self.frames.pop()
        j0 = self.ctx.fresh("j", Int)
        n_before = len(self.pure_guards)
        r0 = f(j0)
        guards = self.pure_guards[n_before:]
        del self.pure_guards[n_before:]
        if guards:
            self.ctx.oblige(f"{self.frames[-1].qualname}/comprehension-does-not-raise", z3.Implies(AND(j0 >= 0, j0 < L.n), AND(*guards)),
                            kind="safety", props=getattr(self, "safety_props", ()))
        return SymList(L.n, _eager(r0, j0, f))

    def lazy_filter_map(self, e, L):
        """[f(x) for x in L if c(x)] with pure f, c over a symbolic list: the selected indices sel(0) < sel(1) < ... <
        sel(m-1) are exactly the indices of L whose element satisfies c (rank is the inverse), and the result is
        R[j] = f(L[sel(j)]).  What c and f need in order not to raise is one safety obligation over a fresh index."""
        ctx = self.ctx
        frame = self._comp_frame()
        g = e.generators[0]

        def ev(i, what):
            self.frames.append(frame)
            self.pure += 1
            try:
                self.assign(g.target, L.get(i))
                if what == "cond":
                    return AND(*[self.as_formula(self.eval(c)) for c in g.ifs])
                return self.eval(e.elt)
            finally:
                self.pure -= 1
                self.frames.pop()
        j0 = ctx.fresh("j", Int)
        n_before = len(self.pure_guards)
        c0 = ev(j0, "cond")
        r0 = ev(j0, "elt")
        cond_at = lambda i: z3.substitute(c0, (j0, i if z3.is_expr(i) else z3.IntVal(i)))
        elt_at = _eager(r0, j0, lambda i: ev(i, "elt"))
        guards = self.pure_guards[n_before:]
        del self.pure_guards[n_before:]
        if guards:
            ctx.oblige(f"{self.frames[-1].qualname}/comprehension-does-not-raise", z3.Implies(AND(j0 >= 0, j0 < L.n), AND(*guards)),
                       kind="safety", props=getattr(self, "safety_props", ()))
        m = ctx.fresh("nsel", Int)
        sel = ctx.fresh_fun("sel", Int, Int)
        rank = ctx.fresh_fun("rank", Int, Int)
        i_, k_ = z3.Ints("i!f k!f")
        ctx.assume(AND(m >= 0, m <= L.n))
        ctx.assume(z3.ForAll([k_], z3.Implies(AND(k_ >= 0, k_ < m), AND(sel(k_) >= 0, sel(k_) < L.n, cond_at(sel(k_)), rank(sel(k_)) == k_))))
        ctx.assume(z3.ForAll([i_, k_], z3.Implies(AND(i_ >= 0, i_ < k_, k_ < m), sel(i_) < sel(k_))))
        ctx.assume(z3.ForAll([i_], z3.Implies(AND(i_ >= 0, i_ < L.n, cond_at(i_)), AND(rank(i_) >= 0, rank(i_) < m, sel(rank(i_)) == i_))))
        out = SymList(m, lambda k: elt_at(sel(k)))
        out.sel, out.rank, out.source = sel, rank, L
        return out

    def e_GeneratorExp(self, e):
        return self.e_ListComp(e)

    def e_SetComp(self, e):
        raise Unsupported("set comprehension")

    def symdict_comp(self, e):
        """{k: f(k, v) for k, v in D.items() if c(k, v)} over a symbolic dict D -> symbolic dict defined by
        z3 lambdas (no loop, no invariant needed; the body must be pure)."""
        if len(e.generators) != 1:
            return NotImplemented
        g = e.generators[0]
        src = self.eval(g.iter)
        if isinstance(src, Instance) and src.store is not None:
            src = src.store
        if isinstance(src, SymDict):
            src = src.do_keys(self)
        if isinstance(src, ModelObj) and getattr(src, "set_like", False):
            return self.setdict_comp(e, g, src)
        if isinstance(src, SymList) and getattr(src, "comp_table", None) is not None:
            # items() of a table-like model: the loop target is bound to table.comp_item(x) for an arbitrary member x
            return self.setdict_comp(e, g, src.comp_table, item=src.comp_table.comp_item)
        if not (isinstance(src, SymList) and getattr(src, "src_dict", None) is not None):
            return NotImplemented
        D = src.src_dict
        kv = z3.Const("k!comp", D.ksort)
        fr = self._comp_frame()
        self.frames.append(fr)
        self.pure += 1
        n_guards = len(self.pure_guards)
        try:
            if src.src_kind == "items":
                item = D.comp_value(kv) if hasattr(D, "comp_value") else D.wrap(z3.Select(D.val, kv))
                self.assign(g.target, (Sym(kv), item))
            else:
                self.assign(g.target, Sym(kv))
            conds = [self.as_formula(self.eval(c)) for c in g.ifs]
            key = self.eval(e.key)
            if not (isinstance(key, Sym) and key.e.eq(kv)):
                raise Unsupported("dict comprehension that renames keys")
            val = self.eval(e.value)
        finally:
            self.pure -= 1
            self.frames.pop()
        guards = self.pure_guards[n_guards:]
        del self.pure_guards[n_guards:]
        for gd in guards:
            # what the body needs in order not to raise; a need that does not depend on the key is decided here
            # (the comprehension raises - over-approximated as "whenever the need fails", also for an empty dict)
            if any(x.eq(kv) for x in _consts_of(gd)):
                raise Unsupported("key-dependent exception inside a dict comprehension over a symbolic dict")
            if not self.ctx.branch(gd, "comprehension body does not raise"):
                raise PyRaise(BuiltinExc("KeyError", ("comprehension",)))
        dom = z3.Lambda([kv], AND(z3.Select(D.dom, kv), *conds))
        ve = getattr(val, "e", None)
        if ve is None:
            ve = to_z3(val)
        if hasattr(D, "val") and ve.eq(z3.Select(D.val, kv)):
            return SymDict(dom, D.val, D.ksort, D.vsort, D.wrap)
        if ve.sort() == Val or True:
            return SymDict(dom, z3.Lambda([kv], ve), D.ksort, ve.sort())

    def setdict_comp(self, e, g, src, item=None):
        """{key(x): val(x) for x in S} over a set-like model S (membership array `mem`, element sort `esort`); the
        body must be pure and must not raise.  key(x) = x gives a dict on S itself, any other key an ImageDict."""
        from .values import ImageDict
        if g.ifs:
            raise Unsupported("filtered dict comprehension over a set-like value")
        xv = z3.Const("x!comp", src.esort)
        fr = self._comp_frame()

        def ev(expr, at):
            self.frames.append(fr)
            self.pure += 1
            n0 = len(self.pure_guards)
            try:
                self.assign(g.target, Sym(at) if item is None else item(at))
                out = self.eval(expr)
            finally:
                self.pure -= 1
                self.frames.pop()
            if len(self.pure_guards) > n0:
                del self.pure_guards[n0:]
                raise Unsupported("comprehension body that may raise")
            return out
        key = ev(e.key, xv)
        if not isinstance(key, Sym):
            raise Unsupported("dict comprehension key")
        val0 = ev(e.value, xv)
        if key.e.eq(xv):
            ve = to_z3(val0)
            return SymDict(src.mem, z3.Lambda([xv], ve), src.esort, ve.sort())
        gk = lambda t: z3.substitute(key.e, (xv, t))
        return ImageDict(self.ctx, src.mem, src.esort, gk, lambda t: ev(e.value, t), key.e.sort())

    def e_DictComp(self, e):
        r = self.symdict_comp(e)
        if r is not NotImplemented:
            return r
        out = []
        self.frames.append(self._comp_frame())
        try:
            self.comp_iter(e.generators, lambda: out.append((self.eval(e.key), self.eval(e.value))))
        finally:
            self.frames.pop()
        if all(isinstance(k, (str, int)) for k, _ in out):
            return dict(out)
        return AssocDict(out)

    def any_all(self, which, gen):
        vals = self.e_ListComp(ast.ListComp(elt=gen.elt, generators=gen.generators))
        if isinstance(vals, SymList):
            # any / all over a lazily mapped symbolic list: a fresh Boolean with a witness index / a universal fact
            ctx = self.ctx
            r = ctx.fresh(which, Bool)
            w = ctx.fresh("at", Int)
            j = z3.Int("j!any")
            f = lambda i: self.as_formula(vals.get(i))
            inr = lambda i: AND(i >= 0, i < vals.n)
            if which == "any":
                ctx.assume(z3.Implies(r, AND(inr(w), f(w))))
                ctx.assume(z3.Implies(z3.Not(r), z3.ForAll([j], z3.Implies(inr(j), z3.Not(f(j))))))
            else:
                ctx.assume(z3.Implies(z3.Not(r), AND(inr(w), z3.Not(f(w)))))
                ctx.assume(z3.Implies(r, z3.ForAll([j], z3.Implies(inr(j), f(j)))))
            return Sym(r)
        fs = []
        for v in vals:
            if isinstance(v, Sym):
                fs.append(self.as_formula(v))
            else:
                fs.append(z3.BoolVal(bool(self.truthy(v))))
        f = z3.simplify(OR(*fs) if which == "any" else AND(*fs))
        return _unsym(f)


def _consts_of(e):
    out, todo, seen = [], [e], set()
    while todo:
        x = todo.pop()
        if x.get_id() in seen:
            continue
        seen.add(x.get_id())
        if z3.is_const(x) and x.decl().kind() == z3.Z3_OP_UNINTERPRETED:
            out.append(x)
        todo.extend(x.children())
    return out


_INPLACE_DONE = object()


def _eager(r0, j0, lazy):
    """element function of a comprehension result: a Python list comprehension is evaluated when it is executed, so the
    element expression must be read in the state of that moment.  r0 is the element evaluated at the fresh index j0
    right then; for symbolic values (and tuples of them) later accesses substitute the index in r0 instead of
    re-evaluating the expression in a possibly changed state.  Other values (library models: aliases of live objects)
    are re-evaluated."""
    def subst(v, i):
        ie = i if z3.is_expr(i) else z3.IntVal(i)
        if isinstance(v, Sym):
            return Sym(z3.substitute(v.e, (j0, ie)))
        if isinstance(v, tuple) and all(isinstance(x, (Sym, tuple, int, str, bool, type(None))) for x in v):
            return tuple(subst(x, i) if isinstance(x, (Sym, tuple)) else x for x in v)
        return None
    if subst(r0, j0) is None and not isinstance(r0, (int, str, bool, type(None))):
        return lazy
    if isinstance(r0, (int, str, bool, type(None))):
        return lambda i: r0
    return lambda i: subst(r0, i)


def _unsym(f):
    if z3.is_true(f):
        return True
    if z3.is_false(f):
        return False
    return Sym(f)


def _load(t):
    t2 = ast.parse(ast.unparse(t), mode="eval").body
    return ast.copy_location(t2, t)


def _descr(e):
    s = ast.unparse(e)
    return s if len(s) <= 70 else s[:67] + "..."


def _tname(x):
    if isinstance(x, ExtRef):
        return x.name.split(".")[-1]
    if isinstance(x, ClassVal):
        return x.cls.name
    return str(x)


def assigned_names(body):
    names = set()
    for st in body:
        for n in ast.walk(st):
            if isinstance(n, ast.Name) and isinstance(n.ctx, (ast.Store, ast.Del)):
                names.add(n.id)
    return names


class EnumMember(ModelObj):
    """a member of an Enum class of the repository: only .value and .name are modelled"""

    def __init__(self, name, value):
        self.name, self.value = name, value

    def m_getattr(self, I, name):
        if name == "value":
            return self.value
        if name == "name":
            return self.name
        raise Unsupported(f"enum member attribute {name}")


class _ExternalBase(ModelObj):
    """super().__init__(...) reaching a builtin base class (list, dict, Exception...)."""

    def __init__(self, inst):
        self.inst = inst

    def m_call(self, I, name, args, kw):
        if name == "__init__":
            ext = self.inst.cls.external_bases()
            if "list" in ext and args:
                self.inst.store = list(I.concrete_list(args[0]))
            elif "dict" in ext and args:
                src = args[0]
                if isinstance(src, (SymDict,)):
                    self.inst.store = src.do_copy(I)
                else:
                    self.inst.store = AssocDict(I.dict_items(src))
            elif any(b in ("RuntimeError", "Exception", "ValueError") for b in ext):
                self.inst.fields["args"] = tuple(args)
            return None
        raise Unsupported(f"super().{name} into external base")


class _PyBuiltinMethods(ModelObj):
    """Methods of concrete Python containers held by the interpreter."""

    def __init__(self, obj):
        self.obj = obj

    def m_call(self, I, name, args, kw):
        o = self.obj
        if isinstance(o, list):
            if name == "append":
                o.append(args[0]); return None
            if name == "extend":
                o.extend(I.concrete_list(args[0])); return None
            if name == "copy":
                return list(o)
            if name == "remove":
                for i, x in enumerate(o):
                    if I.ctx.branch(I.eq_formula(x, args[0]), "list.remove match"):
                        del o[i]
                        return None
                raise PyRaise(BuiltinExc("ValueError", ("list.remove(x): x not in list",)))
            if name == "insert":
                o.insert(args[0], args[1]); return None
            if name == "pop":
                return o.pop(*args)
            if name == "sort":
                if len(o) <= 1:
                    return None
                raise Unsupported("sort of concrete list with >1 symbolic elements")
            if name == "index":
                for i, x in enumerate(o):
                    if I.ctx.branch(I.eq_formula(x, args[0]), "list.index match"):
                        return i
                raise PyRaise(BuiltinExc("ValueError", ("not in list",)))
        if isinstance(o, dict):
            if name == "items":
                return list(o.items())
            if name == "keys":
                return list(o.keys())
            if name == "values":
                return list(o.values())
            if name == "get":
                k = args[0]
                d = args[1] if len(args) > 1 else None
                if isinstance(k, Sym):
                    for kk, v in o.items():
                        if I.ctx.branch(I.eq_formula(k, kk), f"key=={kk}"):
                            return v
                    return d
                return o.get(k, d)
            if name == "copy":
                return dict(o)
            if name == "update":
                src = args[0]
                if isinstance(src, ModelObj) and not isinstance(src, AssocDict) and hasattr(src, "do_copy"):
                    if o:
                        raise Unsupported("non-empty concrete dict updated with a symbolic dict")
                    # {}.update(D) for a symbolic dict D: the (still empty) dict becomes a copy of D; every variable
                    # that refers to it is re-bound to the copy
                    I.rebind(o, src.do_copy(I))
                    return None
                for k, v in I.dict_items(src):
                    o[k] = v
                return None
            if name == "pop":
                return o.pop(*args)
        if isinstance(o, str):
            if name in ("lower", "upper", "startswith", "endswith", "capitalize"):
                return getattr(o, name)(*args)
        if isinstance(o, tuple) and name == "index":
            return o.index(*args)
        raise Unsupported(f"{type(o).__name__}.{name}")
