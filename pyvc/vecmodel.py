"""Model of 1-D integer numpy arrays of one common length (columns of a node table), boolean masks over them,
mask selection, np.unique, and dict(pairs) of a symbolic pair list.

Assumed numpy / Python semantics (all integers mathematical):
  np.asarray(v)            the same values
  x in v                   some index holds x
  v + c                    elementwise
  v == c                   boolean mask over the indices
  v[mask]                  the selected values in index order (same mask -> same selection of indices)
  np.unique(v)             the distinct values of v in strictly increasing order
  dict(pairs)              one item per distinct first component; the value is that of the LAST pair with this key;
                           items are ordered by first occurrence
"""
from __future__ import annotations

import z3

from .core import Unsupported
from .terms import AND, IMP, Int, Sym, forall, to_z3
from .values import ModelObj, SymList

i_, j_, k_ = z3.Ints("i!v j!v k!v")


class Vec(ModelObj):
    type_names = ("ndarray",)

    def __init__(self, ctx, n, f=None, name="vec"):
        self.ctx, self.n = ctx, n
        self.f = f if f is not None else ctx.fresh_fun(name, Int, Int)

    def inr(self, i):
        return AND(i >= 0, i < self.n)

    def m_contains(self, I, x):
        ctx = I.ctx
        xe = to_z3(x, Int)
        r = ctx.fresh("in_vec", z3.BoolSort())
        w = ctx.fresh("at", Int)
        ctx.assume(IMP(r, AND(self.inr(w), self.f(w) == xe)))
        ctx.assume(IMP(z3.Not(r), forall([i_], IMP(self.inr(i_), self.f(i_) != xe))))
        return Sym(r)

    def m_binop(self, I, op, other, inplace=False):
        import ast
        o = to_z3(other, Int)
        f = self.f
        if isinstance(op, ast.Add):
            return Vec(self.ctx, self.n, lambda i: f(i) + o)
        if isinstance(op, ast.Sub):
            return Vec(self.ctx, self.n, lambda i: f(i) - o)
        raise Unsupported("vector arithmetic")

    def m_eq(self, I, other):
        o = to_z3(other, Int)
        f = self.f
        return VecMask(self, lambda i: f(i) == o)

    def m_getitem(self, I, idx):
        if isinstance(idx, VecMask):
            if not z3.eq(z3.simplify(idx.vec.n - self.n), z3.IntVal(0)):
                raise Unsupported("mask of another length")
            sel = idx.selection(I)
            f = self.f
            out = SymList(sel.c, lambda j: Sym(f(sel.at(j))), elem_sort=Int)
            out.selection, out.source = sel, self
            return out
        raise Unsupported("vector index")


class Selection:
    """the indices a mask selects, in increasing order: at : [0,c) -> indices, rank : selected index -> position"""

    def __init__(self, ctx, mask):
        n, pred = mask.vec.n, mask.pred
        self.c = ctx.fresh("nsel", Int)
        self.at = ctx.fresh_fun("sel", Int, Int)
        self.rank = ctx.fresh_fun("rank", Int, Int)
        at, rank, c = self.at, self.rank, self.c
        ctx.assume(AND(c >= 0, c <= n))
        ctx.assume(forall([j_], IMP(AND(j_ >= 0, j_ < c), AND(at(j_) >= 0, at(j_) < n, pred(at(j_)), rank(at(j_)) == j_))))
        ctx.assume(forall([j_, k_], IMP(AND(j_ >= 0, j_ < k_, k_ < c), at(j_) < at(k_))))
        ctx.assume(forall([i_], IMP(AND(i_ >= 0, i_ < n, pred(i_)), AND(rank(i_) >= 0, rank(i_) < c, at(rank(i_)) == i_))))


class VecMask(ModelObj):
    def __init__(self, vec, pred):
        self.vec, self.pred = vec, pred
        self._sel = None

    def selection(self, I):
        if self._sel is None:
            self._sel = Selection(I.ctx, self)
        return self._sel


class PairDict(ModelObj):
    """dict(P) for a symbolic list P of (Int, Int) pairs"""

    type_names = ("dict",)

    def __init__(self, ctx, pairs):
        self.pairs = pairs
        c = pairs.n
        pk = lambda k: to_z3(pairs.f(k)[0], Int)
        pv = lambda k: to_z3(pairs.f(k)[1], Int)
        self.pk, self.pv = pk, pv
        self.d = ctx.fresh("nitems", Int)
        self.key = ctx.fresh_fun("dkey", Int, Int)
        self.val = ctx.fresh_fun("dval", Int, Int)
        self.first = ctx.fresh_fun("dfirst", Int, Int)
        self.last = ctx.fresh_fun("dlast", Int, Int)
        self.pos = ctx.fresh_fun("dpos", Int, Int)
        d, key, val, first, last, pos = self.d, self.key, self.val, self.first, self.last, self.pos
        ind = lambda j: AND(j >= 0, j < d)
        ctx.assume(AND(d >= 0, d <= c))
        ctx.assume(forall([j_], IMP(ind(j_), AND(first(j_) >= 0, first(j_) <= last(j_), last(j_) < c, pk(first(j_)) == key(j_),
                                                pk(last(j_)) == key(j_), val(j_) == pv(last(j_)), pos(first(j_)) == j_, pos(last(j_)) == j_))))
        ctx.assume(forall([j_, k_], IMP(AND(ind(j_), k_ >= 0, k_ < c, pk(k_) == key(j_)), AND(first(j_) <= k_, k_ <= last(j_)))))
        ctx.assume(forall([j_, k_], IMP(AND(ind(j_), ind(k_), j_ != k_), key(j_) != key(k_))))
        ctx.assume(forall([j_, k_], IMP(AND(ind(j_), ind(k_), j_ < k_), first(j_) < first(k_))))
        ctx.assume(forall([k_], IMP(AND(k_ >= 0, k_ < c), AND(ind(pos(k_)), key(pos(k_)) == pk(k_)))))

    def do_items(self, I):
        key, val = self.key, self.val
        out = SymList(self.d, lambda j: (Sym(key(j)), Sym(val(j))))
        out.pairdict = self
        return out

    def m_len(self, I):
        return Sym(self.d)


def np_asarray(I, args, kw):
    x = args[0]
    if isinstance(x, Vec):
        return x
    h = I.ext.get("numpy.asarray.other")
    if h:
        return h(I, args, kw)
    raise Unsupported("np.asarray of this value")


def np_unique(I, args, kw):
    v = args[0]
    if not isinstance(v, Vec) or kw:
        raise Unsupported("np.unique of this value")
    ctx = I.ctx
    m = ctx.fresh("nuniq", Int)
    U = ctx.fresh_fun("uniq", Int, Int)
    widx = ctx.fresh_fun("uniq_from", Int, Int)
    uidx = ctx.fresh_fun("uniq_of", Int, Int)
    ctx.assume(AND(m >= 0, m <= v.n))
    ctx.assume(forall([j_], IMP(AND(j_ >= 0, j_ < m), AND(v.inr(widx(j_)), v.f(widx(j_)) == U(j_)))))
    ctx.assume(forall([i_], IMP(v.inr(i_), AND(uidx(i_) >= 0, uidx(i_) < m, U(uidx(i_)) == v.f(i_)))))
    ctx.assume(forall([j_, k_], IMP(AND(j_ >= 0, j_ < k_, k_ < m), U(j_) < U(k_))))
    out = SymList(m, lambda j: Sym(U(j)), elem_sort=Int)
    out.uniq_of, out.U, out.source = uidx, U, v
    return out


def dict_of_pairs(I, args, kw):
    return PairDict(I.ctx, args[0])


EXT = {"numpy.asarray": np_asarray, "numpy.unique": np_unique, "model.dict_of_pairs": dict_of_pairs}
