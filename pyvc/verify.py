"""Verification driver: units -> paths -> obligations -> solver verdicts, aggregated per obligation id."""
from __future__ import annotations

import multiprocessing as mp
import os

import z3
import time
import traceback

from .builtins import EXT
from .core import PathEnd, Unsupported, explore, explore_iter
from .discharge import discharge_all
from .frontend import Repo
from .interp import Interp
from .terms import lits_distinct
from .values import FuncVal, PyRaise

_REPO = None


def repo():
    global _REPO
    if _REPO is None:
        _REPO = Repo()
    return _REPO


def make_interp(ctx, extra_ext=None, sym_attr=None):
    ext = dict(EXT)
    if extra_ext:
        ext.update(extra_ext)
    I = Interp(repo(), ctx, ext, sym_attr or {})
    I.under_verification = None
    return I


def call_real(I, qualname, args, kw=None):
    """Execute the real function `qualname` (its current source) on symbolic arguments.
    -> ('return', value) | ('raise', exc)"""
    fi = repo().get_function(qualname)
    fv = FuncVal(fi.node, fi.module, None, fi.cls, fi.qualname)
    I.under_verification = fi.qualname
    try:
        return ("return", I.call_function(fv, list(args), kw or {}))
    except PyRaise as pr:
        return ("raise", pr.exc)


class Unit:
    """One verification task: a contract run on one configuration."""

    def __init__(self, contract, config=None, name=None):
        self.contract, self.config = contract, config or {}
        self.name = name or (contract.qualname + (f"[{_cfgstr(self.config)}]" if self.config else ""))


def _cfgstr(c):
    return ",".join(f"{k}={v}" for k, v in sorted(c.items()))


def run_unit(unit: Unit):
    t0 = time.time()
    con = unit.contract
    out = {"unit": unit.name, "func": con.qualname, "obligs": [], "paths": 0, "errors": [], "outcomes": [],
           "cuts": 0, "solver_calls": 0}
    try:
        finfo = repo().get_function(con.qualname) if con.qualname else None
        if finfo is not None:
            out["source"] = {"file": os.path.relpath(finfo.module.path, "/repo"), "lines": list(finfo.span()),
                             "sha256": finfo.sha256()}
    except KeyError as e:
        out["errors"].append(f"function vanished: {e}")
        out["wall"] = time.time() - t0
        return out

    def run(ctx):
        ctx.unit = unit
        I = make_interp(ctx, getattr(con, "ext", None), getattr(con, "sym_attr", None))
        return con.run(I, unit.config)

    lits = None
    out["path_checks"] = []
    results = explore_iter(run, func=con.qualname)
    pi = -1
    while True:
        try:
            pr = next(results)
        except StopIteration:
            break
        except Exception:
            out["errors"].append("engine crash: " + traceback.format_exc()[-1500:])
            out["wall"] = time.time() - t0
            return out
        pi += 1
        ctx = pr.ctx
        out["solver_calls"] += ctx.solver_calls
        if pr.error:
            where = ">".join(ctx.call_stack[-3:])
            out["errors"].append(f"{pr.error} @ {where} path={list(ctx.events)[-4:]}")
            continue
        if pr.outcome and pr.outcome[0] == "cut":
            out["cuts"] += 1
        else:
            out["paths"] += 1
            out["outcomes"].append(_outcome_str(pr.outcome))
        if lits is None:
            lits = lits_distinct()
        nfull = len(ctx.hyps)
        end_obs = 0
        for ob in ctx.obligations:
            at_end = (len(ob.hyps) + ob.dropped == nfull)
            end_obs += at_end
            out["obligs"].append({
                "label": ob.label, "kind": ob.kind, "props": list(ob.props), "path": list(ob.path),
                "smt2": ob.smt2(lits_distinct()), "smt2_full": ob.smt2_full(lits_distinct()), "note": ob.note,
                "unit": unit.name, "func": con.qualname, "path_id": pi if at_end else None,
            })
        if end_obs >= 2:
            # one feasibility query per path: if the final path condition is inconsistent, the obligations
            # stated at the end of this path hold vacuously and need not be sent to the solver one by one
            s_ = z3.Solver()
            for h in ctx.hyps:
                s_.add(h)
            for h in lits_distinct():
                s_.add(h)
            out["path_checks"].append((pi, s_.to_smt2()))
    out["wall"] = time.time() - t0
    return out


def _outcome_str(o):
    if o is None:
        return "?"
    k, v = o[0], o[1] if len(o) > 1 else None
    if k == "raise":
        return f"raise {getattr(v, 'name', None) or getattr(getattr(v, 'cls', None), 'name', '?')}"
    return k


_SRC_HASH = None


def source_hash():
    """Hash of everything a unit report depends on: the repository sources and the verifier itself."""
    global _SRC_HASH
    if _SRC_HASH is None:
        import hashlib
        h = hashlib.sha256()
        verif = os.path.dirname(os.path.dirname(os.path.abspath(__file__)))
        roots = [os.path.join(repo().src, "funtracks"), os.path.join(verif, "pyvc"), os.path.join(verif, "contracts")]
        for root in roots:
            for dp, dn, fns in sorted(os.walk(root)):
                dn.sort()
                for fn in sorted(fns):
                    if fn.endswith(".py"):
                        p = os.path.join(dp, fn)
                        h.update(p.encode())
                        h.update(open(p, "rb").read())
        h.update(os.environ.get("PYVC_BRANCH_MS", "60").encode())
        _SRC_HASH = h.hexdigest()
    return _SRC_HASH


CACHE_DIR = os.environ.get("PYVC_CACHE", os.path.join(os.path.dirname(os.path.dirname(os.path.abspath(__file__))), ".cache"))


def run_unit_cached(unit):
    """Build cache (like ccache): a unit report is reused only if the repository sources, the verifier
    and the contracts are byte-identical to the run that produced it."""
    import hashlib
    import pickle
    if os.environ.get("PYVC_NOCACHE"):
        return run_unit(unit)
    key = hashlib.sha256((source_hash() + "|" + unit.name).encode()).hexdigest()[:32]
    path = os.path.join(CACHE_DIR, "unit-" + key + ".pkl")
    try:
        with open(path, "rb") as f:
            rep = pickle.load(f)
        rep["cached"] = True
        return rep
    except Exception:
        pass
    rep = run_unit(unit)
    if not any(e.startswith("engine crash") for e in rep["errors"]):
        try:
            os.makedirs(CACHE_DIR, exist_ok=True)
            tmp = path + f".{os.getpid()}.tmp"
            with open(tmp, "wb") as f:
                pickle.dump(rep, f)
            os.replace(tmp, path)
        except OSError:
            pass
    rep["cached"] = False
    return rep


def _verdict_cache_load(items, tag):
    import hashlib
    import pickle
    hits, todo = {}, []
    for key, txt in items:
        h = hashlib.sha256((tag + txt).encode()).hexdigest()[:32]
        p = os.path.join(CACHE_DIR, "q-" + h + ".pkl")
        try:
            with open(p, "rb") as f:
                hits[key] = pickle.load(f)
                hits[key]["cached"] = True
        except Exception:
            todo.append((key, txt, p))
    return hits, todo


def _run_units_pool(units, nproc):
    """one process per unit; a worker that dies (killed, solver library crash) must not hang the run:
    its unit - and every unit still pending in the broken pool - is re-run in this process"""
    from concurrent.futures import ProcessPoolExecutor
    from concurrent.futures.process import BrokenProcessPool
    reports = [None] * len(units)
    try:
        with ProcessPoolExecutor(max_workers=nproc, mp_context=mp.get_context("fork")) as ex:
            futs = [ex.submit(run_unit_cached, u) for u in units]
            for i, f in enumerate(futs):
                try:
                    reports[i] = f.result()
                except BrokenProcessPool:
                    break
    except BrokenProcessPool:
        pass
    for i, u in enumerate(units):
        if reports[i] is None:
            reports[i] = run_unit_cached(u)
    return reports


def run_units(units, nproc=None, timeout=10, retry=60, want_both=False, only_prop=None):
    """-> (unit reports, obligation table {oid: {...}})"""
    import pickle
    nproc = nproc or int(os.environ.get("PYVC_NPROC", "16"))
    seen = set()
    units = [u for u in units if not (u.name in seen or seen.add(u.name))]
    if len(units) <= 1 or nproc == 1:
        reports = [run_unit_cached(u) for u in units]
    else:
        source_hash()
        reports = _run_units_pool(units, min(nproc, len(units)))
    # path feasibility pre-pass
    pitems = [((ri, pi), txt) for ri, rep in enumerate(reports) for pi, txt in rep.get("path_checks", [])]
    infeasible = set()
    if pitems and not os.environ.get("PYVC_NO_PATHCHECK"):
        ptag = "pathcheck|8|"
        phits, ptodo = ({}, [(k, t, None) for k, t in pitems]) if os.environ.get("PYVC_NOCACHE") else _verdict_cache_load(pitems, ptag)
        pver, _ = discharge_all([(k, t) for k, t, _ in ptodo], timeout=8, retry=0)
        for k, t, pth in ptodo:
            if pth is not None:
                try:
                    os.makedirs(CACHE_DIR, exist_ok=True)
                    with open(pth + f".{os.getpid()}.tmp", "wb") as f:
                        pickle.dump(pver[k], f)
                    os.replace(pth + f".{os.getpid()}.tmp", pth)
                except OSError:
                    pass
        pver.update(phits)
        infeasible = {k for k, v in pver.items() if v["result"] == "unsat"}
    items = []
    vacuous = {}
    for ri, rep in enumerate(reports):
        if only_prop is not None:
            rep["obligs"] = [ob for ob in rep["obligs"] if only_prop in ob["props"]]
        for oi, ob in enumerate(rep["obligs"]):
            if ob.get("path_id") is not None and (ri, ob["path_id"]) in infeasible:
                vacuous[(ri, oi)] = {"result": "unsat", "solver": "z3(path infeasible)", "time": 0.0, "attempts": [("pathcheck", "unsat", 0)]}
            else:
                items.append(((ri, oi), ob["smt2"]))
    tag = f"{timeout}|{retry}|{want_both}|"
    if os.environ.get("PYVC_NOCACHE"):
        hits, todo = {}, [(k, t, None) for k, t in items]
    else:
        hits, todo = _verdict_cache_load(items, tag)
    verdicts, nuniq = discharge_all([(k, t) for k, t, _ in todo], timeout=timeout, retry=retry, want_both=want_both)
    for k, t, p in todo:
        if p is not None and verdicts[k]["result"] in ("unsat", "sat"):
            try:
                os.makedirs(CACHE_DIR, exist_ok=True)
                with open(p + f".{os.getpid()}.tmp", "wb") as f:
                    pickle.dump(verdicts[k], f)
                os.replace(p + f".{os.getpid()}.tmp", p)
            except OSError:
                pass
    verdicts.update(hits)
    # portfolio: minimal axiom scope first, then the declared (full) scope for what is still open
    again = []
    for ri, rep in enumerate(reports):
        for oi, ob in enumerate(rep["obligs"]):
            v = verdicts.get((ri, oi))
            if v is not None and v["result"] != "unsat" and ob.get("smt2_full"):
                again.append(((ri, oi), ob["smt2_full"]))
    if again:
        ftag = tag + "full|"
        fhits, ftodo = ({}, [(k, t, None) for k, t in again]) if os.environ.get("PYVC_NOCACHE") else _verdict_cache_load(again, ftag)
        fver, _ = discharge_all([(k, t) for k, t, _ in ftodo], timeout=timeout, retry=retry, want_both=want_both)
        for k, t, pth in ftodo:
            if pth is not None and fver[k]["result"] in ("unsat", "sat"):
                try:
                    with open(pth + f".{os.getpid()}.tmp", "wb") as f:
                        pickle.dump(fver[k], f)
                    os.replace(pth + f".{os.getpid()}.tmp", pth)
                except OSError:
                    pass
        fver.update(fhits)
        for k, v in fver.items():
            v["attempts"] = verdicts[k]["attempts"] + [("full-scope",) + tuple(a) for a in v["attempts"]]
            v["time"] += verdicts[k]["time"]
            verdicts[k] = v
    # rescue stage: a handful of queries that every stage left undecided get long, load-scaled budgets (few at a time).
    # Many open queries mean a real failure, not a busy machine - they are not retried.
    open_keys = [k for k, v in verdicts.items() if v["result"] not in ("unsat", "sat")]
    by_text = {}
    for (ri, oi) in open_keys:
        ob = reports[ri]["obligs"][oi]
        by_text.setdefault(ob["smt2"], ([ob["smt2"]] + ([ob["smt2_full"]] if ob.get("smt2_full") else []), []))[1].append((ri, oi))
    if 0 < len(by_text) <= int(os.environ.get("PYVC_RESCUE_MAX", "8")):
        from .discharge import rescue
        res = rescue([(t, variants) for t, (variants, _) in by_text.items()])
        for t, v in res.items():
            for k in by_text[t][1]:
                v2 = dict(v)
                v2["attempts"] = verdicts[k]["attempts"] + list(v["attempts"])
                v2["time"] = verdicts[k]["time"] + v["time"]
                verdicts[k] = v2
    verdicts.update(vacuous)
    nuniq += len({t for k, t in items if k in hits})
    table = {}
    for ri, rep in enumerate(reports):
        for oi, ob in enumerate(rep["obligs"]):
            v = verdicts[(ri, oi)]
            e = table.setdefault(ob["label"], {
                "label": ob["label"], "kind": ob["kind"], "props": set(), "instances": 0, "discharged": 0,
                "failed": [], "solvers": set(), "time": 0.0, "units": set(), "func": ob["func"]})
            e["props"].update(ob["props"])
            e["instances"] += 1
            e["units"].add(ob["unit"])
            e["time"] += v["time"]
            e["solvers"].add(v["solver"])
            if v["result"] == "unsat":
                e["discharged"] += 1
            else:
                e["failed"].append({"result": v["result"], "path": ob["path"], "unit": ob["unit"],
                                    "attempts": v["attempts"], "smt2": ob["smt2"], "note": ob["note"]})
    return reports, table, nuniq
