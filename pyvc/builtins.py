"""Models of the Python builtins the verified functions use."""
from __future__ import annotations

import z3

from .core import Unsupported
from .terms import AND, OR, Bool, Flt, Int, Key, Sym, Val, is_VInt, to_z3
from .values import (
    AssocDict, BuiltinExc, ClassVal, ExtRef, Instance, ModelObj, PyRaise, SymDict, SymList,
)

EXT = {}


def ext(name):
    def deco(f):
        EXT[name] = f
        return f
    return deco


@ext("builtins.len")
def _len(I, args, kw):
    return I.length(args[0])


@ext("builtins.list")
def _list(I, args, kw):
    if not args:
        return []
    v = args[0]
    if isinstance(v, SymList):
        return v.do_copy(I)
    from .values import SymSet
    if isinstance(v, SymSet):
        return v.m_iter(I)
    if isinstance(v, Sym) and v.sort() == Val:
        h = I.ext.get("model.tolist")
        if h:
            return h(I, [v], {})
    if isinstance(v, ModelObj) and hasattr(v, "m_to_list"):
        return v.m_to_list(I)  # list(x) of a library object whose content is opaque
    it = I.iterate(v)
    if isinstance(it, SymList):
        return it.do_copy(I)
    return list(it)


@ext("builtins.tuple")
def _tuple(I, args, kw):
    if not args:
        return ()
    if isinstance(args[0], Sym) and args[0].sort() == Val:
        return args[0]  # tuple(opaque sequence): same opaque value
    it = I.iterate(args[0])
    if isinstance(it, SymList):
        return it
    return tuple(it)


@ext("builtins.dict")
def _dict(I, args, kw):
    if not args:
        return dict(kw)
    v = args[0]
    if isinstance(v, (SymDict, AssocDict)):
        return v.do_copy(I)
    if isinstance(v, Instance) and v.store is not None:
        return _dict(I, [v.store], kw)
    if isinstance(v, dict):
        return dict(v)
    items = I.iterate(v)
    if isinstance(items, list):
        if all(isinstance(k, (str, int)) for k, _ in items):
            return dict(items)
        return AssocDict(items)
    h = I.ext.get("model.dict_of_pairs")
    if h and isinstance(items, SymList):
        return h(I, [items], kw)
    raise Unsupported("dict() of symbolic sequence")


@ext("builtins.set")
def _set(I, args, kw):
    h = I.ext.get("model.set")
    if h:
        return h(I, args, kw)
    raise Unsupported("set()")


def type_test(I, v, t):
    """isinstance(v, t) for one type reference -> z3 Bool."""
    if isinstance(t, ClassVal):
        if isinstance(v, Instance):
            return z3.BoolVal(v.cls.is_subclass(t.cls))
        return z3.BoolVal(False)
    if not isinstance(t, ExtRef):
        raise Unsupported(f"isinstance against {t!r}")
    tn = t.name.split(".")[-1]
    if isinstance(v, Instance):
        return z3.BoolVal(tn in v.cls.external_bases())
    if isinstance(v, ModelObj):
        return z3.BoolVal(tn in v.type_names)
    if isinstance(v, Sym):
        s = v.sort()
        if s == Int:
            return z3.BoolVal(tn in ("int", "integer"))
        if s == Bool:
            return z3.BoolVal(tn in ("bool", "int"))
        if s == Key:
            return z3.BoolVal(tn == "str")
        if s == Flt:
            return z3.BoolVal(tn in ("float", "floating", "float64"))
        if s == Val:
            if tn == "int":
                return is_VInt(v.e)
            h = I.ext.get("model.val_isinstance")
            if h:
                return h(I, [v, tn], {})
            raise Unsupported(f"isinstance(opaque, {tn})")
        return z3.BoolVal(False)
    pt = {
        "int": int, "str": str, "list": list, "tuple": tuple, "dict": dict, "float": float, "bool": bool, "set": set,
    }.get(tn)
    if pt is not None:
        if pt is int and isinstance(v, bool):
            return z3.BoolVal(True)
        return z3.BoolVal(isinstance(v, pt))
    if v is None or isinstance(v, (int, float, str, list, tuple, dict)):
        return z3.BoolVal(False)
    raise Unsupported(f"isinstance({type(v).__name__}, {t.name})")


@ext("builtins.isinstance")
def _isinstance(I, args, kw):
    v, t = args
    ts = t if isinstance(t, tuple) else (t,)
    f = z3.simplify(OR(*[type_test(I, v, x) for x in ts]))
    if z3.is_true(f):
        return True
    if z3.is_false(f):
        return False
    return Sym(f)


@ext("builtins.iter")
def _iter(I, args, kw):
    it = I.iterate(args[0])
    if isinstance(it, list):
        return _PyIter(it)
    return it


class _PyIter(ModelObj):
    def __init__(self, items):
        self.items, self.pos = items, 0

    def m_iter(self, I):
        return self.items[self.pos:]


@ext("builtins.next")
def _next(I, args, kw):
    it = args[0]
    if isinstance(it, _PyIter):
        if it.pos < len(it.items):
            it.pos += 1
            return it.items[it.pos - 1]
        if len(args) > 1:
            return args[1]
        raise PyRaise(BuiltinExc("StopIteration", ()))
    if isinstance(it, ModelObj) and not isinstance(it, SymList):
        it = it.m_iter(I)
    if isinstance(it, list):
        if it:
            return it[0]
        if len(args) > 1:
            return args[1]
        raise PyRaise(BuiltinExc("StopIteration", ()))
    if isinstance(it, SymList):
        if I.ctx.branch(it.n > 0, "next() has an element"):
            return it.get(z3.IntVal(0))
        if len(args) > 1:
            return args[1]
        raise PyRaise(BuiltinExc("StopIteration", ()))
    raise Unsupported(f"next on {type(it).__name__}")


@ext("builtins.int")
def _int(I, args, kw):
    v = args[0]
    if isinstance(v, Sym):
        return Sym(to_z3(v, Int))
    if isinstance(v, ModelObj) and hasattr(v, "m_int"):
        return v.m_int(I)
    return int(v)


@ext("builtins.float")
def _float(I, args, kw):
    v = args[0]
    if isinstance(v, Sym):
        return v
    return float(v)


@ext("builtins.bool")
def _bool(I, args, kw):
    return I.truthy(args[0])


@ext("builtins.str")
def _str(I, args, kw):
    v = args[0]
    if isinstance(v, str):
        return v
    return "<str>"


@ext("builtins.range")
def _range(I, args, kw):
    if all(isinstance(a, int) for a in args):
        return list(range(*args))
    if len(args) == 1:
        n = to_z3(args[0], Int)
        return SymList(z3.If(n >= 0, n, 0), lambda i: Sym(i), elem_sort=Int)
    raise Unsupported("range with symbolic start")


@ext("builtins.enumerate")
def _enumerate(I, args, kw):
    it = I.iterate(args[0])
    start = kw.get("start", args[1] if len(args) > 1 else 0)
    if isinstance(it, list):
        return [(i + start, x) for i, x in enumerate(it)]
    f = it.f
    return SymList(it.n, lambda i: (Sym(z3.simplify(i + start)), f(i)))


@ext("builtins.zip")
def _zip(I, args, kw):
    its = [I.iterate(a) for a in args]
    if all(isinstance(x, list) for x in its):
        if kw.get("strict") and len({len(x) for x in its}) > 1:
            raise PyRaise(BuiltinExc("ValueError", ("zip() arguments have different lengths",)))
        return list(zip(*its))
    seqs = [I.to_symseq(x) for x in its]
    n = seqs[0].n
    for s in seqs[1:]:
        if kw.get("strict"):
            if not I.ctx.branch(s.n == n, "zip strict lengths equal"):
                raise PyRaise(BuiltinExc("ValueError", ("zip() arguments have different lengths",)))
        else:
            n = z3.If(s.n < n, s.n, n)
    return SymList(z3.simplify(n), lambda i: tuple(s.f(i) for s in seqs))


@ext("builtins.max")
def _max(I, args, kw):
    if len(args) == 2 and all(isinstance(a, (int, Sym)) for a in args):
        a, b = to_z3(args[0], Int), to_z3(args[1], Int)
        return Sym(z3.If(a >= b, a, b))
    if len(args) == 1 and isinstance(args[0], (list, tuple)) and all(isinstance(x, int) for x in args[0]):
        return max(args[0])
    raise Unsupported("max()")


@ext("builtins.min")
def _min(I, args, kw):
    if len(args) == 2 and all(isinstance(a, (int, Sym)) for a in args):
        a, b = to_z3(args[0], Int), to_z3(args[1], Int)
        return Sym(z3.If(a <= b, a, b))
    raise Unsupported("min()")


@ext("builtins.sorted")
def _sorted(I, args, kw):
    v = args[0]
    it = I.iterate(v)
    if isinstance(it, list) and len(it) <= 1:
        return list(it)
    if isinstance(it, list) and all(isinstance(x, (int, str)) for x in it) and "key" not in kw:
        return sorted(it)
    h = I.ext.get("model.sorted")
    if h:
        return h(I, [it], kw)
    raise Unsupported("sorted() of symbolic sequence")


@ext("builtins.getattr")
def _getattr(I, args, kw):
    if isinstance(args[1], str):
        return I.getattr(args[0], args[1])
    raise Unsupported("getattr with symbolic name")


@ext("builtins.reversed")
def _reversed(I, args, kw):
    it = I.iterate(args[0])
    if isinstance(it, list):
        return list(reversed(it))
    return it.reversed()


for _n in ("ValueError", "KeyError", "RuntimeError", "NotImplementedError", "AssertionError", "TypeError",
           "StopIteration", "IndexError", "AttributeError", "FileNotFoundError", "Exception"):
    def _mk(n):
        def h(I, args, kw):
            return BuiltinExc(n, tuple(args))
        return h
    EXT["builtins." + _n] = _mk(_n)


def _lex_le(a, b):
    """a <= b lexicographically for ints / tuples of ints (interpreter values)"""
    if isinstance(a, tuple) and isinstance(b, tuple):
        if not a:
            return z3.BoolVal(True)
        a0, b0 = to_z3(a[0], Int), to_z3(b[0], Int)
        return OR(a0 < b0, AND(a0 == b0, _lex_le(a[1:], b[1:])))
    return to_z3(a, Int) <= to_z3(b, Int)


@ext("model.sorted")
def _model_sorted(I, args, kw):
    """sorted(L, key=f) of a symbolic list: a permutation of L (index bijection pi) in ascending key order"""
    L = args[0]
    if not isinstance(L, SymList):
        raise Unsupported("sorted() of this value")
    ctx = I.ctx
    pi = ctx.fresh_fun("sort_pi", Int, Int)
    inv = ctx.fresh_fun("sort_inv", Int, Int)
    j, k = z3.Ints("j!so k!so")
    n = L.n
    ctx.assume(z3.ForAll([j], z3.Implies(AND(j >= 0, j < n), AND(pi(j) >= 0, pi(j) < n, inv(pi(j)) == j))))
    ctx.assume(z3.ForAll([j], z3.Implies(AND(j >= 0, j < n), AND(inv(j) >= 0, inv(j) < n, pi(inv(j)) == j))))
    S = SymList(n, lambda i: L.get(pi(i)), elem_sort=L.elem_sort)
    key = kw.get("key")

    def keyof(x):
        if key is None:
            return x
        I.pure += 1
        nb = len(I.pure_guards)
        try:
            return I.call(key, [x], {})
        finally:
            del I.pure_guards[nb:]  # a raising key is reported by the loop that consumes the list
            I.pure -= 1
    ctx.assume(z3.ForAll([j, k], z3.Implies(AND(j >= 0, j < k, k < n), _lex_le(keyof(S.get(j)), keyof(S.get(k))))))
    return S
