"""Abstract view of a (Solution)Tracks object and the library models that read/write it.

State components are versioned uninterpreted function symbols; every update introduces a new
symbol with a definitional axiom (DESIGN.md 3.5, 4).  The models below are the *assumed
contracts* of networkx / numpy / psygnal operations the verified code calls; they are
conformance-tested against the real libraries by /verif/bounded/conformance.py.
"""
from __future__ import annotations

import z3

from .core import Unsupported
from .terms import (
    AND, IMP, OR, Bool, Int, Key, Pix, Sym, Val, VInt, VNone, forall, is_VNone, iv, to_z3,
)
from .values import BuiltinExc, ModelObj, PyRaise, SymList, ite_val

a_, b_, c_ = z3.Ints("a! b! c!")
k_ = z3.Const("k!", Key)
p_ = z3.Const("p!", Pix)
t_ = z3.Int("t!")

St = z3.DeclareSort("St")  # ghost: an abstract whole-tracks state (timeline entries)
ActRef = z3.DeclareSort("ActRef")  # an action record whose class is not known


class View:
    """An immutable snapshot of the abstract state (component name -> z3 decl / expr)."""

    COMPONENTS = ("N", "E", "A", "Ae", "od", "idg", "par", "c1", "c2", "Seg")

    def __init__(self, **kw):
        self.__dict__.update(kw)

    def copy(self, **kw):
        d = dict(self.__dict__)
        d.update(kw)
        return View(**d)

    # derived notions used by contracts ------------------------------------------------
    def time(self, n, tk):
        return iv(self.A(n, tk))

    def mask(self, n, tk, p):
        """pixel p (spatial) belongs to node n's mask"""
        return self.Seg(self.time(n, tk), p) == n


class TState:
    """The current abstract state along one path."""

    def __init__(self, ctx, has_seg=False, assume_wf=True):
        self.ctx = ctx
        self.has_seg = has_seg
        self.ver = 0
        f = ctx.fresh_fun
        self.v = View(
            N=f("N", Int, Bool), E=f("E", Int, Int, Bool), A=f("A", Int, Key, Val), Ae=f("Ae", Int, Int, Key, Val),
            od=f("od", Int, Int), idg=f("idg", Int, Int), par=f("par", Int, Int), c1=f("c1", Int, Int),
            c2=f("c2", Int, Int), Seg=f("Seg", Int, Pix, Int) if has_seg else None,
        )
        self.world = None  # ghost St for history reasoning
        if assume_wf:
            for ax in graph_link_axioms(self.v):
                ctx.assume(ax)
            for ax in wf_axioms(self.v):
                ctx.assume(ax)
        self.init = self.v

    def snapshot(self) -> View:
        return self.v

    def set(self, **kw):
        self.v = self.v.copy(**kw)
        self.ctx.ghost["muts"] += 1

    def havoc(self, ctx, names):
        new = {}
        for n in names:
            old = getattr(self.v, n)
            if old is None:
                continue
            dom = [old.domain(i) for i in range(old.arity())]
            new[n] = ctx.fresh_fun(n, *dom, old.range())
        self.v = self.v.copy(**new)
        if any(n in new for n in ("E", "od", "idg", "par", "c1", "c2", "N")):
            for ax in graph_link_axioms(self.v):
                ctx.assume(ax)

    # ---- updates (each: new symbol + definitional axiom)
    def upd(self, name, build):
        old = getattr(self.v, name)
        dom = [old.domain(i) for i in range(old.arity())]
        new = self.ctx.fresh_fun(name, *dom, old.range())
        vs = [z3.Const(f"u{i}!", s) for i, s in enumerate(dom)]
        self.ctx.assume(forall(vs, new(*vs) == build(old, *vs)))
        self.v = self.v.copy(**{name: new})
        self.ctx.ghost["muts"] += 1
        return new


def graph_link_axioms(v: View):
    """Facts relating E to degree functions and witness functions (true of every finite digraph
    for suitably chosen witnesses par, c1, c2)."""
    E, N, od, idg, par, c1, c2 = v.E, v.N, v.od, v.idg, v.par, v.c1, v.c2
    return [
        forall([a_, b_], IMP(E(a_, b_), AND(N(a_), N(b_), od(a_) >= 1, idg(b_) >= 1))),
        forall([a_], AND(od(a_) >= 0, idg(a_) >= 0)),
        forall([a_], IMP(od(a_) >= 1, E(a_, c1(a_)))),
        forall([a_], IMP(od(a_) >= 2, AND(E(a_, c2(a_)), c1(a_) != c2(a_)))),
        forall([a_, b_], IMP(AND(E(a_, b_), od(a_) == 1), b_ == c1(a_))),
        forall([a_, b_], IMP(AND(E(a_, b_), od(a_) == 2), OR(b_ == c1(a_), b_ == c2(a_)))),
        forall([a_], IMP(idg(a_) >= 1, E(par(a_), a_))),
        forall([a_, b_], IMP(AND(E(a_, b_), idg(b_) == 1), a_ == par(b_))),
    ]


def wf_axioms(v: View):
    """Representation convention of the view: attributes of absent nodes/edges read as None."""
    return [
        forall([a_, k_], IMP(z3.Not(v.N(a_)), v.A(a_, k_) == VNone)),
        forall([a_, b_, k_], IMP(z3.Not(v.E(a_, b_)), v.Ae(a_, b_, k_) == VNone)),
    ]


# ----------------------------------------------------------------------------- networkx DiGraph
class GraphModel(ModelObj):
    type_names = ("DiGraph", "Graph")

    def __init__(self, st: TState):
        self.st = st

    @property
    def v(self):
        return self.st.v

    def _n(self, x):
        return to_z3(x, Int)

    def do_has_node(self, I, n):
        return Sym(self.v.N(self._n(n)))

    def m_contains(self, I, n):
        return Sym(self.v.N(self._n(n)))

    def do_has_edge(self, I, u, v):
        return Sym(self.v.E(self._n(u), self._n(v)))

    def _need_node(self, I, n):
        if not I.guard(self.v.N(n), f"node in graph"):
            raise PyRaise(BuiltinExc("NetworkXError", ("node not in graph",)))

    def do_in_degree(self, I, n=None):
        if n is None:
            raise Unsupported("in_degree() view")
        n = self._n(n)
        self._need_node(I, n)
        return Sym(self.v.idg(n))

    def do_out_degree(self, I, n=None):
        if n is None:
            raise Unsupported("out_degree() view")
        n = self._n(n)
        self._need_node(I, n)
        return Sym(self.v.od(n))

    def do_number_of_nodes(self, I):
        nn = I.ctx.fresh("nnodes", Int)
        I.ctx.assume(nn >= 0)
        I.ctx.assume(IMP(nn == 0, forall([a_], z3.Not(self.v.N(a_)))))
        return Sym(nn)

    def do_successors(self, I, n):
        n = self._n(n)
        self._need_node(I, n)
        v = self.v
        sk = I.ctx.fresh_fun("succ", Int, Int)
        i = z3.Int("i!s")
        I.ctx.assume(forall([i], IMP(AND(i >= 0, i < v.od(n)), v.E(n, sk(i)))))
        I.ctx.assume(IMP(v.od(n) >= 1, sk(0) == v.c1(n)))
        I.ctx.assume(IMP(v.od(n) >= 2, sk(1) == v.c2(n)))
        return SymList(v.od(n), lambda j: Sym(sk(j)), elem_sort=Int)

    def do_predecessors(self, I, n):
        n = self._n(n)
        self._need_node(I, n)
        v = self.v
        sk = I.ctx.fresh_fun("pred", Int, Int)
        i = z3.Int("i!s")
        I.ctx.assume(forall([i], IMP(AND(i >= 0, i < v.idg(n)), v.E(sk(i), n))))
        I.ctx.assume(IMP(v.idg(n) >= 1, sk(0) == v.par(n)))
        return SymList(v.idg(n), lambda j: Sym(sk(j)), elem_sort=Int)

    def do_in_edges(self, I, n):
        pl = self.do_predecessors(I, n)
        f = pl.f
        return SymList(pl.n, lambda j: (f(j), n if isinstance(n, Sym) else Sym(self._n(n))))

    def do_out_edges(self, I, n):
        if not isinstance(n, (Sym, int)):
            raise Unsupported("out_edges(nbunch)")
        sl = self.do_successors(I, n)
        f = sl.f
        return SymList(sl.n, lambda j: (n if isinstance(n, Sym) else Sym(self._n(n)), f(j)))

    # ---- mutation
    def do_add_node(self, I, n, **attrs):
        n = self._n(n)
        st = self.st
        if attrs:
            raise Unsupported("add_node with attributes")
        if I.ctx.entails(st.v.N(n)):
            return
        st.upd("N", lambda old, a: OR(old(a), a == n))
        I.ctx.ghost["log"].append(("add_node", n))

    def do_remove_node(self, I, n):
        n = self._n(n)
        st = self.st
        self._need_node(I, n)
        v0 = st.v
        isolated = AND(v0.od(n) == 0, v0.idg(n) == 0)
        if not I.ctx.entails(isolated):
            # incident edges are removed with the node: degrees of neighbours change
            st.upd("N", lambda old, a: AND(old(a), a != n))
            st.upd("E", lambda old, a, b: AND(old(a, b), a != n, b != n))
            st.havoc(I.ctx, ["od", "idg", "par", "c1", "c2"])
            st.upd("Ae", lambda old, a, b, k: z3.If(OR(a == n, b == n), VNone, old(a, b, k)))
        else:
            st.upd("N", lambda old, a: AND(old(a), a != n))
        st.upd("A", lambda old, a, k: z3.If(a == n, VNone, old(a, k)))
        I.ctx.ghost["log"].append(("remove_node", n))

    def do_add_edge(self, I, u, w, **attrs):
        u, w = self._n(u), self._n(w)
        st = self.st
        ctx = I.ctx
        v0 = st.v
        symkw = attrs.pop("__symkw__", None)
        # networkx creates missing endpoints silently
        for x in (u, w):
            if not ctx.entails(st.v.N(x)):
                st.upd("N", lambda old, a, x=x: OR(old(a), a == x))
        if ctx.branch(v0.E(u, w), "edge already present"):
            pass
        else:
            st.upd("E", lambda old, a, b: OR(old(a, b), AND(a == u, b == w)))
            od0, idg0 = v0.od, v0.idg
            st.upd("od", lambda old, a: old(a) + z3.If(a == u, 1, 0))
            st.upd("idg", lambda old, a: old(a) + z3.If(a == w, 1, 0))
            c1n, c2n, parn = ctx.fresh_fun("c1", Int, Int), ctx.fresh_fun("c2", Int, Int), ctx.fresh_fun("par", Int, Int)
            ctx.assume(forall([a_], IMP(a_ != u, AND(c1n(a_) == v0.c1(a_), c2n(a_) == v0.c2(a_)))))
            ctx.assume(forall([a_], IMP(a_ != w, parn(a_) == v0.par(a_))))
            st.v = st.v.copy(c1=c1n, c2=c2n, par=parn)
            for ax in graph_link_axioms(st.v):
                ctx.assume(ax)
        for k, val in attrs.items():
            kk = to_z3(k, Key)
            st.upd("Ae", lambda old, a, b, k2, kk=kk, val=val: z3.If(AND(a == u, b == w, k2 == kk), to_z3(val, Val), old(a, b, k2)))
        if symkw is not None:
            self.add_edge_attrs(I, u, w, symkw)
        ctx.ghost["log"].append(("add_edge", u, w))

    def add_edge_attrs(self, I, u, w, attrs):
        """**attrs given as a symbolic dict (SymDict Key->Val): all keys stored."""
        from .values import SymDict
        if isinstance(attrs, SymDict):
            has, at = (lambda k: z3.Select(attrs.dom, k)), (lambda k: z3.Select(attrs.val, k))
        else:
            items = attrs.items
            has = lambda k: OR(*[k == to_z3(kk, Key) for kk, _ in items])
            def at(k):
                e = VNone
                for kk, vv in reversed(items):
                    e = z3.If(k == to_z3(kk, Key), to_z3(vv, Val), e)
                return e
        self.st.upd("Ae", lambda old, a, b, k2: z3.If(AND(a == u, b == w, has(k2)), at(k2), old(a, b, k2)))

    def do_remove_edge(self, I, u, w):
        u, w = self._n(u), self._n(w)
        st = self.st
        ctx = I.ctx
        v0 = st.v
        if not ctx.branch(v0.E(u, w), "edge in graph"):
            raise PyRaise(BuiltinExc("NetworkXError", ("edge not in graph",)))
        st.upd("E", lambda old, a, b: AND(old(a, b), z3.Not(AND(a == u, b == w))))
        st.upd("od", lambda old, a: old(a) - z3.If(a == u, 1, 0))
        st.upd("idg", lambda old, a: old(a) - z3.If(a == w, 1, 0))
        c1n, c2n, parn = ctx.fresh_fun("c1", Int, Int), ctx.fresh_fun("c2", Int, Int), ctx.fresh_fun("par", Int, Int)
        ctx.assume(forall([a_], IMP(a_ != u, AND(c1n(a_) == v0.c1(a_), c2n(a_) == v0.c2(a_)))))
        ctx.assume(forall([a_], IMP(a_ != w, parn(a_) == v0.par(a_))))
        st.v = st.v.copy(c1=c1n, c2=c2n, par=parn)
        for ax in graph_link_axioms(st.v):
            ctx.assume(ax)
        st.upd("Ae", lambda old, a, b, k: z3.If(AND(a == u, b == w), VNone, old(a, b, k)))
        ctx.ghost["log"].append(("remove_edge", u, w))

    # ---- attribute views
    def attr_nodes(self, I):
        return NodeView(self)

    def attr_edges(self, I):
        return EdgeView(self)


class NodeView(ModelObj):
    def __init__(self, g):
        self.g = g

    def m_getitem(self, I, n):
        n = to_z3(n, Int)
        if not I.guard(self.g.v.N(n), "node in graph"):
            raise PyRaise(BuiltinExc("KeyError", (n,)))
        return NodeAttrs(self.g, n)

    def m_contains(self, I, n):
        return Sym(self.g.v.N(to_z3(n, Int)))

    def m_call(self, I, name, args, kw):
        raise Unsupported("graph.nodes(...) call")


class NodeAttrs(ModelObj):
    type_names = ("dict",)

    def __init__(self, g, n):
        self.g, self.n = g, n

    def m_getitem(self, I, k):
        e = self.g.v.A(self.n, to_z3(k, Key))
        if not I.guard(z3.Not(is_VNone(e)), "attribute present"):
            raise PyRaise(BuiltinExc("KeyError", (k,)))
        return Sym(e)

    def do_get(self, I, k, default=None):
        e = self.g.v.A(self.n, to_z3(k, Key))
        if default is None:
            return Sym(e)
        return ite_val(is_VNone(e), default, Sym(e))

    def m_setitem(self, I, k, val):
        n, kk, ve = self.n, to_z3(k, Key), to_z3(val, Val)
        self.g.st.upd("A", lambda old, a, k2: z3.If(AND(a == n, k2 == kk), ve, old(a, k2)))
        I.ctx.ghost["log"].append(("set_node_attr", n, kk))

    def m_contains(self, I, k):
        return Sym(z3.Not(is_VNone(self.g.v.A(self.n, to_z3(k, Key)))))


class EdgeView(ModelObj):
    def __init__(self, g):
        self.g = g

    def m_getitem(self, I, e):
        u, w = I.unpack(e, 2)
        u, w = to_z3(u, Int), to_z3(w, Int)
        if not I.ctx.branch(self.g.v.E(u, w), "edge in graph"):
            raise PyRaise(BuiltinExc("KeyError", ((u, w),)))
        return EdgeAttrs(self.g, u, w)

    def m_contains(self, I, e):
        u, w = I.unpack(e, 2)
        return Sym(self.g.v.E(to_z3(u, Int), to_z3(w, Int)))


class EdgeAttrs(ModelObj):
    type_names = ("dict",)

    def __init__(self, g, u, w):
        self.g, self.u, self.w = g, u, w

    def m_getitem(self, I, k):
        e = self.g.v.Ae(self.u, self.w, to_z3(k, Key))
        if not I.ctx.branch(z3.Not(is_VNone(e)), "edge attribute present"):
            raise PyRaise(BuiltinExc("KeyError", (k,)))
        return Sym(e)

    def do_get(self, I, k, default=None):
        e = self.g.v.Ae(self.u, self.w, to_z3(k, Key))
        if default is None:
            return Sym(e)
        return ite_val(is_VNone(e), default, Sym(e))

    def m_setitem(self, I, k, val):
        u, w, kk, ve = self.u, self.w, to_z3(k, Key), to_z3(val, Val)
        self.g.st.upd("Ae", lambda old, a, b, k2: z3.If(AND(a == u, b == w, k2 == kk), ve, old(a, b, k2)))
        I.ctx.ghost["log"].append(("set_edge_attr", u, w, kk))


# ----------------------------------------------------------------------------- psygnal Signal
class SignalModel(ModelObj):
    """tracks.refresh: emit appends to the ghost emission log; callbacks are not executed."""

    def do_emit(self, I, *args):
        I.ctx.ghost["emits"].append(tuple(args))

    def do_connect(self, I, *args):
        raise Unsupported("connecting callbacks")


# ----------------------------------------------------------------------------- invariants (DESIGN 4)
def forest(v: View, tk):
    """C03: in-degree <= 1, out-degree <= 2, edges strictly forward in time."""
    return [
        ("in<=1", forall([a_], v.idg(a_) <= 1)),
        ("out<=2", forall([a_], v.od(a_) <= 2)),
        ("forward", forall([a_, b_], IMP(v.E(a_, b_), iv(v.A(a_, tk)) < iv(v.A(b_, tk))))),
    ]
