"""Discharge obligations: z3 (z3-new 5.1 CLI) first, cvc5 takes z3's unknowns.  16-process pool."""
from __future__ import annotations

import hashlib
import os
import subprocess
import tempfile
import time
from concurrent.futures import ThreadPoolExecutor

Z3 = os.environ.get("PYVC_Z3", "z3-new")
CVC5 = os.environ.get("PYVC_CVC5", "/usr/bin/cvc5")
NPROC = int(os.environ.get("PYVC_NPROC", "16"))


def _run(cmd, text, timeout):
    t0 = time.time()
    try:
        p = subprocess.run(cmd, input=text, capture_output=True, text=True, timeout=timeout + 5)
        out = (p.stdout or "").strip().splitlines()
        res = out[0].strip() if out else "unknown"
        if res not in ("sat", "unsat", "unknown"):
            res = "error:" + (p.stdout + p.stderr)[:300].replace("\n", " ")
    except subprocess.TimeoutExpired:
        res = "timeout"
    return res, time.time() - t0


def solve_one(smt2: str, timeout=20, retry=120, want_both=False):
    """-> dict(result, solver, time, attempts).  result 'unsat' == discharged."""
    attempts = []
    r, t = _run([Z3, "-in", f"-T:{timeout}"], smt2, timeout)
    attempts.append(("z3", r, round(t, 3)))
    if r == "unsat" and not want_both:
        return {"result": "unsat", "solver": "z3", "time": t, "attempts": attempts}
    if r == "sat":
        return {"result": "sat", "solver": "z3", "time": t, "attempts": attempts}
    txt = smt2
    if "(set-logic" not in txt:
        txt = "(set-logic ALL)\n" + txt
    r2, t2 = _run([CVC5, "--lang=smt2", f"--tlimit={timeout * 1000}", "-"], txt, timeout)
    attempts.append(("cvc5", r2, round(t2, 3)))
    if r == "unsat" and want_both:
        # cross-check: the two solvers must not disagree
        res = "unsat" if r2 != "sat" else "disagree"
        return {"result": res, "solver": "z3", "time": t + t2, "attempts": attempts}
    if r2 in ("unsat", "sat"):
        return {"result": r2, "solver": "cvc5", "time": t + t2, "attempts": attempts}
    if retry and retry > timeout:
        r3, t3 = _run([Z3, "-in", f"-T:{retry}"], smt2, retry)
        attempts.append(("z3-long", r3, round(t3, 3)))
        if r3 in ("unsat", "sat"):
            return {"result": r3, "solver": "z3", "time": t + t2 + t3, "attempts": attempts}
    return {"result": "unknown", "solver": "-", "time": sum(a[2] for a in attempts), "attempts": attempts}


def discharge_all(items, timeout=20, retry=120, want_both=False):
    """items: list of (key, smt2 text).  Identical texts are solved once."""
    uniq = {}
    for key, txt in items:
        h = hashlib.sha1(txt.encode()).hexdigest()
        uniq.setdefault(h, (txt, []))[1].append(key)
    out = {}

    def work(h):
        txt, keys = uniq[h]
        return h, solve_one(txt, timeout, retry, want_both)

    with ThreadPoolExecutor(max_workers=NPROC) as ex:
        for h, res in ex.map(work, list(uniq)):
            for key in uniq[h][1]:
                out[key] = res
    return out, len(uniq)
