"""Discharge obligations: z3 (z3-new 5.1 CLI) first, cvc5 takes z3's unknowns.  16-process pool."""
from __future__ import annotations

import hashlib
import os
import subprocess
import tempfile
import time
from concurrent.futures import ThreadPoolExecutor

Z3 = os.environ.get("PYVC_Z3", "z3-new")
CVC5 = os.environ.get("PYVC_CVC5", "/usr/bin/cvc5")
NPROC = int(os.environ.get("PYVC_NPROC", "16"))


def _run(cmd, text, timeout):
    t0 = time.time()
    try:
        p = subprocess.run(cmd, input=text, capture_output=True, text=True, timeout=timeout + 5)
        out = (p.stdout or "").strip().splitlines()
        res = out[0].strip() if out else "unknown"
        if res not in ("sat", "unsat", "unknown"):
            res = "error:" + (p.stdout + p.stderr)[:300].replace("\n", " ")
    except subprocess.TimeoutExpired:
        res = "timeout"
    return res, time.time() - t0


def solve_one(smt2: str, timeout=20, retry=120, want_both=False):
    """-> dict(result, solver, time, attempts).  result 'unsat' == discharged."""
    attempts = []
    r, t = _run([Z3, "-in", f"-T:{timeout}"], smt2, timeout)
    attempts.append(("z3", r, round(t, 3)))
    if r == "unsat" and not want_both:
        return {"result": "unsat", "solver": "z3", "time": t, "attempts": attempts}
    if r == "sat":
        return {"result": "sat", "solver": "z3", "time": t, "attempts": attempts}
    txt = smt2
    if "(set-logic" not in txt:
        txt = "(set-logic ALL)\n" + txt
    r2, t2 = _run([CVC5, "--lang=smt2", f"--tlimit={timeout * 1000}", "-"], txt, timeout)
    attempts.append(("cvc5", r2, round(t2, 3)))
    if r == "unsat" and want_both:
        # cross-check: the two solvers must not disagree
        res = "unsat" if r2 != "sat" else "disagree"
        return {"result": res, "solver": "z3", "time": t + t2, "attempts": attempts}
    if r2 in ("unsat", "sat"):
        return {"result": r2, "solver": "cvc5", "time": t + t2, "attempts": attempts}
    if retry and retry > timeout:
        r3, t3 = _run([Z3, "-in", f"-T:{retry}"], smt2, retry)
        attempts.append(("z3-long", r3, round(t3, 3)))
        if r3 in ("unsat", "sat"):
            return {"result": r3, "solver": "z3", "time": t + t2 + t3, "attempts": attempts}
    return {"result": "unknown", "solver": "-", "time": sum(a[2] for a in attempts), "attempts": attempts}


def load_factor():
    """how much slower than an idle machine solver processes currently run: 1-minute load average per core, clamped to
    [1, 4].  Solver budgets are multiplied by it, so that a busy machine does not turn a 7-second proof into a time-out."""
    try:
        ncpu = os.cpu_count() or 1
        return max(1.0, min(4.0, 1.25 * os.getloadavg()[0] / ncpu))
    except OSError:
        return 1.0


def rescue(texts, budget=120):
    """last resort for a query every stage left undecided: long budgets, few at a time, cvc5 first (it decides the
    quantified queries z3 leaves open).  texts: [(key, [smt2 variants])] -> {key: verdict}"""
    out = {}

    def work(item):
        key, variants = item
        attempts = []
        f = load_factor()
        for txt in variants:
            t2 = txt if "(set-logic" in txt else "(set-logic ALL)\n" + txt
            b = int(budget * f)
            r, t = _run([CVC5, "--lang=smt2", f"--tlimit={b * 1000}", "-"], t2, b)
            attempts.append(("rescue-cvc5", r, round(t, 3)))
            if r in ("unsat", "sat"):
                return key, {"result": r, "solver": "cvc5", "time": sum(a[2] for a in attempts), "attempts": attempts}
            r, t = _run([Z3, "-in", f"-T:{b}"], txt, b)
            attempts.append(("rescue-z3", r, round(t, 3)))
            if r in ("unsat", "sat"):
                return key, {"result": r, "solver": "z3", "time": sum(a[2] for a in attempts), "attempts": attempts}
        return key, {"result": "unknown", "solver": "-", "time": sum(a[2] for a in attempts), "attempts": attempts}

    with ThreadPoolExecutor(max_workers=4) as ex:
        for key, v in ex.map(work, texts):
            out[key] = v
    return out


def discharge_all(items, timeout=20, retry=120, want_both=False):
    """items: list of (key, smt2 text).  Identical texts are solved once."""
    f = load_factor()
    timeout, retry = int(round(timeout * f)), int(round(retry * f))
    uniq = {}
    for key, txt in items:
        h = hashlib.sha1(txt.encode()).hexdigest()
        uniq.setdefault(h, (txt, []))[1].append(key)
    out = {}

    def work(h):
        txt, keys = uniq[h]
        return h, solve_one(txt, timeout, retry, want_both)

    with ThreadPoolExecutor(max_workers=NPROC) as ex:
        for h, res in ex.map(work, list(uniq)):
            for key in uniq[h][1]:
                out[key] = res
    return out, len(uniq)
