"""Front end: re-reads the real source under /repo/src on every run.

Nothing is copied: the symbolic executor walks the `ast` of the file the editable install
imports from.  What the front end drops is listed in DESIGN.md 3.2 (docstrings, annotations,
warnings/logging calls, tqdm, cast, @override, text of f-strings/messages).
"""
from __future__ import annotations

import ast
import hashlib
import os

REPO_SRC = os.environ.get("PYVC_REPO_SRC", "/repo/src")


class ModuleInfo:
    def __init__(self, name, path, tree, source):
        self.name, self.path, self.tree, self.source = name, path, tree, source
        self.is_pkg = os.path.basename(path) == "__init__.py"
        self.globals: dict[str, object] = {}  # name -> ('func'|'class'|'import'|'const', payload)


class ClassInfo:
    def __init__(self, name, module, node):
        self.name, self.module, self.node = name, module, node
        self.methods: dict[str, ast.FunctionDef] = {}
        self.props: dict[str, ast.FunctionDef] = {}
        self.classmethods: set[str] = set()
        self.consts: dict[str, ast.expr] = {}
        self.base_exprs = node.bases
        self.bases: list[object] = []  # ClassInfo or str (external)
        for st in node.body:
            if isinstance(st, ast.FunctionDef):
                decos = [ast.unparse(d) for d in st.decorator_list]
                if "property" in decos:
                    self.props[st.name] = st
                elif any(d.endswith(".setter") for d in decos):
                    pass
                else:
                    self.methods[st.name] = st
                    if "classmethod" in decos:
                        self.classmethods.add(st.name)
            elif isinstance(st, ast.Assign) and len(st.targets) == 1 and isinstance(st.targets[0], ast.Name):
                self.consts[st.targets[0].id] = st.value

    @property
    def qualname(self):
        return f"{self.module.name}.{self.name}"

    def mro(self):
        out, seen = [], set()

        def go(c):
            if isinstance(c, ClassInfo) and id(c) not in seen:
                seen.add(id(c))
                out.append(c)
                for b in c.bases:
                    go(b)

        go(self)
        return out

    def external_bases(self):
        ext = []
        for c in self.mro():
            ext += [b for b in c.bases if isinstance(b, str)]
        return ext

    def find(self, name):
        for c in self.mro():
            if name in c.methods:
                return c, c.methods[name], "method"
            if name in c.props:
                return c, c.props[name], "prop"
        return None

    def is_subclass(self, other: "ClassInfo"):
        return any(c is other for c in self.mro())


class FuncInfo:
    def __init__(self, name, module, node, cls=None):
        self.name, self.module, self.node, self.cls = name, module, node, cls

    @property
    def qualname(self):
        if self.cls is not None:
            return f"{self.cls.qualname}.{self.name}"
        return f"{self.module.name}.{self.name}"

    def source_segment(self):
        return ast.get_source_segment(self.module.source, self.node) or ""

    def sha256(self):
        return hashlib.sha256(self.source_segment().encode()).hexdigest()

    def span(self):
        return (self.node.lineno, self.node.end_lineno)


class Repo:
    def __init__(self, src=None, package="funtracks"):
        self.src = src or REPO_SRC
        self.package = package
        self.modules: dict[str, ModuleInfo] = {}
        self._load_all()
        self._link()

    def _load_all(self):
        root = os.path.join(self.src, self.package)
        for dp, _dn, fns in os.walk(root):
            for fn in fns:
                if not fn.endswith(".py"):
                    continue
                path = os.path.join(dp, fn)
                rel = os.path.relpath(path, self.src)[:-3].replace(os.sep, ".")
                if rel.endswith(".__init__"):
                    rel = rel[: -len(".__init__")]
                source = open(path).read()
                self.modules[rel] = ModuleInfo(rel, path, ast.parse(source), source)

    def _resolve_from(self, mod: ModuleInfo, node: ast.ImportFrom):
        if node.level == 0:
            return node.module
        parts = mod.name.split(".")
        if not mod.is_pkg:
            parts = parts[:-1]
        if node.level > 1:
            parts = parts[: len(parts) - (node.level - 1)]
        if node.module:
            parts = parts + node.module.split(".")
        return ".".join(parts)

    def _link(self):
        for mod in self.modules.values():
            self._scan(mod, mod.tree.body)
        # resolve class bases
        for mod in self.modules.values():
            for kind, payload in list(mod.globals.values()):
                if kind == "class":
                    ci: ClassInfo = payload
                    for b in ci.base_exprs:
                        r = None
                        if isinstance(b, ast.Name):
                            r = self.lookup_global(mod, b.id)
                        elif isinstance(b, ast.Subscript) and isinstance(b.value, ast.Name):
                            r = self.lookup_global(mod, b.value.id) or ("ext", b.value.id)
                        if r and r[0] == "class":
                            ci.bases.append(r[1])
                        else:
                            ci.bases.append(ast.unparse(b).split("[")[0])

    def _scan(self, mod, body):
        for st in body:
            if isinstance(st, ast.FunctionDef):
                mod.globals[st.name] = ("func", FuncInfo(st.name, mod, st))
            elif isinstance(st, ast.ClassDef):
                mod.globals[st.name] = ("class", ClassInfo(st.name, mod, st))
            elif isinstance(st, ast.Import):
                for a in st.names:
                    mod.globals[a.asname or a.name.split(".")[0]] = ("import", (a.name if a.asname else a.name.split(".")[0], None))
            elif isinstance(st, ast.ImportFrom):
                target = self._resolve_from(mod, st)
                for a in st.names:
                    mod.globals[a.asname or a.name] = ("import", (target, a.name))
            elif isinstance(st, ast.Assign) and len(st.targets) == 1 and isinstance(st.targets[0], ast.Name):
                mod.globals[st.targets[0].id] = ("const", st.value)
            elif isinstance(st, ast.If):
                # `if TYPE_CHECKING:` blocks: imports used only for annotations - still recorded so
                # that isinstance targets resolve; harmless otherwise
                self._scan(mod, st.body)
                self._scan(mod, st.orelse)

    def lookup_global(self, mod: ModuleInfo, name: str, _depth=0):
        """-> ('func', FuncInfo) | ('class', ClassInfo) | ('const', (mod, expr)) | ('ext', dotted) | None"""
        if _depth > 12:
            return None
        g = mod.globals.get(name)
        if g is None:
            return None
        kind, payload = g
        if kind in ("func", "class"):
            return (kind, payload)
        if kind == "const":
            return ("const", (mod, payload))
        target, attr = payload
        if attr is None:
            if target in self.modules:
                return ("module", self.modules[target])
            return ("ext", target)
        # from target import attr
        if target in self.modules:
            tm = self.modules[target]
            r = self.lookup_global(tm, attr, _depth + 1)
            if r is not None:
                return r
            sub = f"{target}.{attr}"
            if sub in self.modules:
                return ("module", self.modules[sub])
            return None
        sub = f"{target}.{attr}"
        if sub in self.modules:
            return ("module", self.modules[sub])
        return ("ext", f"{target}.{attr}")

    def get_class(self, qual: str) -> ClassInfo:
        modname, cname = qual.rsplit(".", 1)
        r = self.lookup_global(self.modules[modname], cname)
        assert r and r[0] == "class", f"class {qual} not found"
        return r[1]

    def get_function(self, qual: str) -> FuncInfo:
        """qual = module.func or module.Class.method"""
        parts = qual.split(".")
        for i in range(len(parts) - 1, 0, -1):
            modname = ".".join(parts[:i])
            if modname in self.modules:
                rest = parts[i:]
                mod = self.modules[modname]
                if len(rest) == 1:
                    r = self.lookup_global(mod, rest[0])
                    if r and r[0] == "func":
                        return r[1]
                elif len(rest) == 2:
                    r = self.lookup_global(mod, rest[0])
                    if r and r[0] == "class":
                        ci = r[1]
                        f = ci.methods.get(rest[1]) or ci.props.get(rest[1])
                        if f is not None:
                            return FuncInfo(rest[1], ci.module, f, ci)
                break
        raise KeyError(f"function {qual} not found in {self.src}")
