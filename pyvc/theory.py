"""Ghost forest theory (DESIGN.md 5.2) and the invariant clauses of DESIGN.md 4.

`below_V(a, b)`: b is a or a descendant of a in graph version V (= ReflTransGen E_V a b).  It is
introduced per graph version, never updated, and comes with first-order facts that hold of every
reflexive-transitive closure (lemma M3, /verif/theory/lean); the facts that need the forest shape are
guarded by the corresponding invariant formula of that version.
"""
from __future__ import annotations

import z3

from .terms import AND, IMP, OR, Bool, Int, Key, Val, VInt, VNone, forall, is_VInt, is_VNone, iv
from .tracksmodel import View, a_, b_, c_, k_

x_, y_ = z3.Ints("x! y!")


class Keys:
    def __init__(self, W):
        self.tk, self.trk, self.lk, self.pk = W.time_key, W.tracklet_key, W.lineage_key, W.pos_key


def tm(v, K, n):
    return iv(v.A(n, K.tk))


def tid(v, K, n):
    return v.A(n, K.trk)


def lid(v, K, n):
    return v.A(n, K.lk)


def head(v, n):
    """n starts an unbranched segment (assuming in-degree <= 1)."""
    return OR(v.idg(n) == 0, v.od(v.par(n)) >= 2)


def root(v, n):
    return v.idg(n) == 0


# ------------------------------------------------------------------ invariant clauses
def FOREST(v, K):
    return [
        ("C03.has_time", forall([a_], IMP(v.N(a_), is_VInt(v.A(a_, K.tk))))),
        ("C03.in<=1", forall([a_], v.idg(a_) <= 1)),
        ("C03.out<=2", forall([a_], v.od(a_) <= 2)),
        ("C03.forward", forall([a_, b_], IMP(v.E(a_, b_), tm(v, K, a_) < tm(v, K, b_)))),
    ]


def TRACKIDS(v, K):
    return [
        ("C04.has_id", forall([a_], IMP(v.N(a_), is_VInt(tid(v, K, a_))))),
        ("C04.T1", forall([a_, b_], IMP(AND(v.E(a_, b_), v.od(a_) == 1), tid(v, K, a_) == tid(v, K, b_)))),
        ("C04.T2", forall([a_, b_], IMP(AND(v.N(a_), v.N(b_), head(v, a_), head(v, b_), a_ != b_),
                                        tid(v, K, a_) != tid(v, K, b_)))),
    ]


def LINEAGE(v, K):
    return [
        ("C05.has_id", forall([a_], IMP(v.N(a_), is_VInt(lid(v, K, a_))))),
        ("C05.L1", forall([a_, b_], IMP(v.E(a_, b_), lid(v, K, a_) == lid(v, K, b_)))),
        ("C05.L2", forall([a_, b_], IMP(AND(v.N(a_), v.N(b_), root(v, a_), root(v, b_), a_ != b_),
                                        lid(v, K, a_) != lid(v, K, b_)))),
    ]


def B1(v, K, cache, which="trk"):
    i = z3.Int("i!b")
    key = K.trk if which == "trk" else K.lk
    return [(f"C06.B1.{which}", forall([i, a_], cache.cnt(i, a_) == z3.If(AND(v.N(a_), v.A(a_, key) == VInt(i)), 1, 0)))]


def B2(v, K, maxT, maxL=None):
    out = [("C06.B2.trk", forall([a_], IMP(v.N(a_), iv(tid(v, K, a_)) <= maxT)))]
    if maxL is not None:
        out.append(("C06.B2.lin", forall([a_], IMP(AND(v.N(a_), is_VInt(lid(v, K, a_))), iv(lid(v, K, a_)) <= maxL))))
    return out


# ------------------------------------------------------------------ below (descendant closure)
class Below:
    """below(a,b) with witness nxt(a,b) = the child of a on the way to b."""

    def __init__(self, ctx, v: View, K, name="below"):
        self.v = v
        self.rel = ctx.fresh_fun(name, Int, Int, Bool)
        self.nxt = ctx.fresh_fun(name + "_nxt", Int, Int, Int)
        self.K = K

    def __call__(self, a, b):
        return self.rel(a, b)

    def facts(self, which=("refl", "trans", "edge", "fwd", "bwd", "bwd_edge", "mono", "chain", "nodes")):
        v, K, bel, nxt = self.v, self.K, self.rel, self.nxt
        fwd_inv = forall([x_, y_], IMP(v.E(x_, y_), tm(v, K, x_) < tm(v, K, y_)))
        in1 = forall([x_], v.idg(x_) <= 1)
        F = {
            "refl": forall([a_], bel(a_, a_)),
            "trans": forall([a_, b_, c_], IMP(AND(bel(a_, b_), bel(b_, c_)), bel(a_, c_))),
            "edge": forall([a_, b_], IMP(v.E(a_, b_), bel(a_, b_))),
            "fwd": forall([a_, b_], IMP(AND(bel(a_, b_), a_ != b_), AND(v.E(a_, nxt(a_, b_)), bel(nxt(a_, b_), b_)))),
            "bwd": forall([a_, b_], IMP(AND(bel(a_, b_), a_ != b_), AND(v.idg(b_) >= 1, IMP(v.idg(b_) == 1, bel(a_, v.par(b_)))))),
            # below_bwd + InLe1: the unique parent of a proper descendant is a descendant too
            "bwd_edge": IMP(in1, forall([a_, b_, c_], IMP(AND(bel(c_, b_), v.E(a_, b_), c_ != b_), bel(c_, a_)))),
            "nodes": forall([a_, b_], IMP(AND(bel(a_, b_), a_ != b_), AND(v.N(a_), v.N(b_)))),
            "mono": IMP(fwd_inv, forall([a_, b_], IMP(AND(bel(a_, b_), a_ != b_), tm(v, K, a_) < tm(v, K, b_)))),
            "chain": IMP(in1, forall([a_, b_, c_], IMP(AND(bel(a_, c_), bel(b_, c_)), OR(bel(a_, b_), bel(b_, a_))))),
        }
        return [(n, F[n]) for n in which]


def segment_facts(v, K, bel):
    """Consequences of FOREST & T1 & T2 for one graph version (Lean lemma M2'):
    nodes with the same track id form a chain through non-dividing nodes."""
    t = lambda n: tid(v, K, n)
    return [
        ("seg.comparable", forall([a_, b_], IMP(AND(v.N(a_), v.N(b_), t(a_) == t(b_)), OR(bel(a_, b_), bel(b_, a_))))),
        ("seg.convex", forall([a_, b_, c_], IMP(AND(bel(a_, c_), bel(c_, b_), t(a_) == t(b_)), t(c_) == t(a_)))),
        ("seg.nondividing", forall([a_, b_], IMP(AND(bel(a_, b_), a_ != b_, t(a_) == t(b_)), v.od(a_) == 1))),
    ]
