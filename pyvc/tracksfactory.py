"""The declared shape of a SolutionTracks object (DESIGN.md 3.4 item 5, 4).

The factory builds the heap shape that `SolutionTracks.__init__` produces - instances of the
*real* classes (their methods are executed from the real source) whose leaf fields are symbolic
and whose third-party members (graph, segmentation, signal, lookup dicts) are library models.
The native monitor (native/shape_check.py) compares this shape with a really constructed object.
"""
from __future__ import annotations

import z3

from .core import Unsupported
from .terms import AND, IMP, OR, Bool, Int, Key, Sym, Val, VInt, VNone, forall, is_VNone, iv, lit, to_z3
from .tracksmodel import ActRef, GraphModel, SignalModel, TState, a_, b_, k_
from .values import AssocDict, BuiltinExc, Instance, ModelObj, PyRaise, SymDict, SymList
from .verify import repo

FeatMeta = z3.DeclareSort("FeatMeta")
ftype = z3.Function("feature_type", FeatMeta, Key)
RP_KEYS = ["pos", "generic"]  # position + one generic regionprops feature (the code treats table entries uniformly)


def _featmeta_getitem(I, sym, name):
    raise AttributeError(name)


class FeatMetaVal(ModelObj):
    """A Feature TypedDict held symbolically; only v['feature_type'] is interpreted."""

    type_names = ("dict",)

    def __init__(self, e):
        self.e = e

    def m_getitem(self, I, k):
        if k == "feature_type":
            return Sym(ftype(self.e))
        raise Unsupported(f"Feature[{k!r}]")

    def do_get(self, I, k, default=None):
        if k == "feature_type":
            return Sym(ftype(self.e))
        raise Unsupported(f"Feature.get({k!r})")


class World:
    """Everything a contract needs to talk about one tracks object."""

    def __init__(self):
        self.__dict__["_d"] = {}

    def __getattr__(self, k):
        try:
            return self.__dict__["_d"][k]
        except KeyError:
            raise AttributeError(k)

    def __setattr__(self, k, v):
        self.__dict__["_d"][k] = v


def make_tracks(I, has_seg=False, solution=True, lineage=True, rp_active=None, history="symbolic"):
    """-> World with .tracks (Instance of SolutionTracks) and handles on its parts."""
    ctx = I.ctx
    R = repo()
    W = World()
    st = TState(ctx, has_seg=has_seg)
    ctx.state = st
    W.st = st
    tk = ctx.fresh("time_key", Key)
    trk = ctx.fresh("tracklet_key", Key)
    lk = ctx.fresh("lineage_key", Key)
    pk = ctx.fresh("pos_key", Key)
    W.time_key, W.tracklet_key, W.lineage_key, W.pos_key = tk, trk, lk, pk
    gk = ctx.fresh("rp_key", Key)
    rp_keys = {"pos": pk, "generic": gk}
    W.rp_keys = rp_keys
    iou_key = lit("iou")
    W.iou_key = iou_key
    ctx.assume(z3.Distinct(tk, trk, lk, pk, iou_key, *[rp_keys[n] for n in RP_KEYS if n != "pos"]))

    # FeatureDict -----------------------------------------------------------------------------
    fd_cls = R.get_class("funtracks.features._feature_dict.FeatureDict")
    store = SymDict.fresh(ctx, "F", Key, FeatMeta, wrap=lambda e: FeatMetaVal(e))
    W.F = store
    features = Instance(fd_cls, {
        "time_key": Sym(tk), "position_key": Sym(pk), "tracklet_key": Sym(trk),
        "lineage_key": Sym(lk) if lineage else None,
    }, store=store)
    # the time feature is always registered and is a node feature
    ctx.assume(AND(store.has(tk), ftype(store.at(tk)) == lit("node")))
    ctx.assume(forall([k_], OR(ftype(z3.Select(store.val, k_)) == lit("node"), ftype(z3.Select(store.val, k_)) == lit("edge"))))

    # annotators -------------------------------------------------------------------------------
    annots = []
    feat_opaque = lambda n: FeatMetaVal(ctx.fresh("feat_" + n, FeatMeta))
    W.act = {}
    if has_seg:
        rp_cls = R.get_class("funtracks.annotators._regionprops_annotator.RegionpropsAnnotator")
        items = []
        for n in RP_KEYS:
            act = ctx.fresh("act_" + n, Bool)
            W.act[n] = act
            items.append((Sym(rp_keys[n]), (feat_opaque(n), Sym(act))))
        rp = Instance(rp_cls, {
            "pos_key": Sym(pk), "area_key": "area", "ellipse_axis_radii_key": "ellipse_axis_radii",
            "circularity_key": "circularity", "perimeter_key": "perimeter",
            "all_features": AssocDict(items),
            "regionprops_names": AssocDict([(Sym(pk), "centroid"), (Sym(gk), Sym(ctx.fresh("rp_attr_name", Key)))]),
        })
        annots.append(rp)
        W.rp = rp
        ea_cls = R.get_class("funtracks.annotators._edge_annotator.EdgeAnnotator")
        act = ctx.fresh("act_iou", Bool)
        W.act["iou"] = act
        ea = Instance(ea_cls, {"iou_key": "iou", "all_features": AssocDict([("iou", (feat_opaque("iou"), Sym(act)))])})
        annots.append(ea)
        W.ea = ea
    ta = None
    if solution:
        ta_cls = R.get_class("funtracks.annotators._track_annotator.TrackAnnotator")
        act_t = z3.BoolVal(True)
        act_l = ctx.fresh("act_lineage", Bool) if lineage else z3.BoolVal(False)
        W.act["tracklet"], W.act["lineage"] = act_t, act_l
        maxT, maxL = ctx.fresh("maxT", Int), ctx.fresh("maxL", Int)
        ta = Instance(ta_cls, {
            "tracklet_key": Sym(trk), "lineage_key": Sym(lk),
            "all_features": AssocDict([(Sym(trk), (feat_opaque("tracklet"), True)), (Sym(lk), (feat_opaque("lineage"), Sym(act_l) if lineage else False))]),
            "max_tracklet_id": Sym(maxT), "max_lineage_id": Sym(maxL),
            "tracklet_id_to_nodes": CacheModel(ctx, "T2N"), "lineage_id_to_nodes": CacheModel(ctx, "L2N"),
        })
        annots.append(ta)
        W.ta = ta
    reg_cls = R.get_class("funtracks.annotators._annotator_registry.AnnotatorRegistry")
    registry = Instance(reg_cls, {}, store=annots)

    # history -----------------------------------------------------------------------------------
    ah_cls = R.get_class("funtracks.actions.action_history.ActionHistory")
    U = SymList.fresh(ctx, "U", ActRef)
    Rr = SymList.fresh(ctx, "R", ActRef)
    ah = Instance(ah_cls, {"undo_stack": U, "redo_stack": Rr})
    W.U0, W.R0 = (U, U.n, U.f), (Rr, Rr.n, Rr.f)

    cls = R.get_class("funtracks.data_model.solution_tracks.SolutionTracks" if solution else "funtracks.data_model.tracks.Tracks")
    seg = None
    if has_seg:
        from .segmodel import SegModel
        seg = SegModel(st)
    scale = ScaleModel(ctx)
    tracks = Instance(cls, {
        "graph": GraphModel(st), "segmentation": seg, "scale": scale, "ndim": Sym(ctx.fresh("ndim", Int)),
        "features": features, "annotators": registry, "action_history": ah, "refresh": SignalModel(),
        "node_id_counter": Sym(ctx.fresh("node_id_counter", Int)), "axis_names": ["y", "x"],
    })
    if solution:
        tracks.fields["track_annotator"] = ta
    for a in annots:
        a.fields["tracks"] = tracks
    W.tracks, W.features, W.registry, W.ah, W.graph, W.seg, W.scale = tracks, features, registry, ah, tracks.fields["graph"], seg, scale
    W.maxT = lambda: to_z3(ta.fields["max_tracklet_id"], Int)
    W.maxL = lambda: to_z3(ta.fields["max_lineage_id"], Int)
    return W


class ScaleModel(ModelObj):
    """tracks.scale: None or a list of floats - opaque; scale[1:] is the spatial spacing."""

    type_names = ("list",)

    def __init__(self, ctx):
        self.is_none = ctx.fresh("scale_is_none", Bool)
        self.id = ctx.fresh("scale", Val)
        self.spacing = ctx.fresh("spacing", Val)

    def m_getitem(self, I, idx):
        if isinstance(idx, slice) and idx.start == 1 and idx.stop is None and idx.step is None:
            return Sym(self.spacing)
        raise Unsupported("scale[...] other than scale[1:]")

    def m_eq(self, I, other):
        if other is None:
            return self.is_none
        raise Unsupported("scale == x")

    def m_is_none(self, I):
        return self.is_none


class CacheModel(ModelObj):
    """TrackAnnotator.tracklet_id_to_nodes / lineage_id_to_nodes : dict[int, list[int]].

    Abstract view: key(i) : Bool, cnt(i, n) : Int multiplicity of node n in the list of id i,
    ln(i) : Int length of that list.  Model facts: cnt >= 0, ln >= 0, ln(i) = 0 <=> all cnt(i,.) = 0.
    """

    type_names = ("dict",)

    def __init__(self, ctx, name):
        self.name = name
        self.key = ctx.fresh_fun(name + "_key", Int, Bool)
        self.cnt = ctx.fresh_fun(name + "_cnt", Int, Int, Int)
        self.ln = ctx.fresh_fun(name + "_len", Int, Int)
        self.facts(ctx)
        self.init = (self.key, self.cnt, self.ln)

    def facts(self, ctx):
        i, n = z3.Ints("i!c n!c")
        tg = "cache." + self.name
        ctx.assume(forall([i, n], self.cnt(i, n) >= 0), tg)
        ctx.assume(forall([i], self.ln(i) >= 0), tg)
        ctx.assume(forall([i, n], IMP(self.cnt(i, n) > 0, self.ln(i) > 0)), tg)
        ctx.assume(forall([i], IMP(z3.Not(self.key(i)), self.ln(i) == 0)), tg)
        w = ctx.fresh_fun(self.name + "_wit", Int, Int)
        ctx.assume(forall([i], IMP(self.ln(i) > 0, self.cnt(i, w(i)) > 0)), tg)

    def havoc(self, ctx):
        self.key = ctx.fresh_fun(self.name + "_key", Int, Bool)
        self.cnt = ctx.fresh_fun(self.name + "_cnt", Int, Int, Int)
        self.ln = ctx.fresh_fun(self.name + "_len", Int, Int)
        self.facts(ctx)

    def snapshot(self):
        return (self.key, self.cnt, self.ln)

    def m_contains(self, I, i):
        return Sym(self.key(to_z3(i, Int)))

    def m_getitem(self, I, i):
        i = to_z3(i, Int)
        if not I.ctx.branch(self.key(i), f"id in {self.name}"):
            raise PyRaise(BuiltinExc("KeyError", (i,)))
        return CacheList(self, i)

    def do_get(self, I, i, default=None):
        i = to_z3(i, Int)
        if I.ctx.branch(self.key(i), f"id in {self.name}"):
            return CacheList(self, i)
        return default

    def m_setitem(self, I, i, v):
        i = to_z3(i, Int)
        ctx = I.ctx
        if isinstance(v, list) and not v:
            ok, oc, ol = self.key, self.cnt, self.ln
            a, n = z3.Ints("a!c n!c")
            self.key = ctx.fresh_fun(self.name + "_key", Int, Bool)
            self.cnt = ctx.fresh_fun(self.name + "_cnt", Int, Int, Int)
            self.ln = ctx.fresh_fun(self.name + "_len", Int, Int)
            ctx.assume(forall([a], self.key(a) == OR(ok(a), a == i)))
            ctx.assume(forall([a, n], self.cnt(a, n) == z3.If(a == i, 0, oc(a, n))))
            ctx.assume(forall([a], self.ln(a) == z3.If(a == i, 0, ol(a))))
            self.facts(ctx)
            ctx.ghost["muts"] += 1
            return
        raise Unsupported("cache[id] = non-empty list")

    def m_delitem(self, I, i):
        i = to_z3(i, Int)
        ctx = I.ctx
        if not ctx.branch(self.key(i), f"id in {self.name}"):
            raise PyRaise(BuiltinExc("KeyError", (i,)))
        ok, oc, ol = self.key, self.cnt, self.ln
        a, n = z3.Ints("a!c n!c")
        self.key = ctx.fresh_fun(self.name + "_key", Int, Bool)
        self.cnt = ctx.fresh_fun(self.name + "_cnt", Int, Int, Int)
        self.ln = ctx.fresh_fun(self.name + "_len", Int, Int)
        ctx.assume(forall([a], self.key(a) == AND(ok(a), a != i)))
        ctx.assume(forall([a, n], self.cnt(a, n) == z3.If(a == i, 0, oc(a, n))))
        ctx.assume(forall([a], self.ln(a) == z3.If(a == i, 0, ol(a))))
        self.facts(ctx)
        ctx.ghost["muts"] += 1


class CacheList(ModelObj):
    """The list stored under one id: an alias of the cache entry (a location, DESIGN 3.4 item 5)."""

    type_names = ("list",)

    def __init__(self, cache, i):
        self.c, self.i = cache, i

    def m_truthy(self, I):
        return I.ctx.branch(self.c.ln(self.i) > 0, f"{self.c.name}[id] non-empty")

    def m_len(self, I):
        return Sym(self.c.ln(self.i))

    def m_contains(self, I, n):
        return Sym(self.c.cnt(self.i, to_z3(n, Int)) > 0)

    def _bump(self, I, n, d):
        c, i, ctx = self.c, self.i, I.ctx
        n = to_z3(n, Int)
        oc, ol = c.cnt, c.ln
        a, m = z3.Ints("a!c m!c")
        c.cnt = ctx.fresh_fun(c.name + "_cnt", Int, Int, Int)
        c.ln = ctx.fresh_fun(c.name + "_len", Int, Int)
        ctx.assume(forall([a, m], c.cnt(a, m) == oc(a, m) + z3.If(AND(a == i, m == n), d, 0)))
        ctx.assume(forall([a], c.ln(a) == ol(a) + z3.If(a == i, d, 0)))
        c.facts(ctx)
        ctx.ghost["muts"] += 1

    def do_append(self, I, n):
        self._bump(I, n, 1)

    def do_extend(self, I, nodes):
        if isinstance(nodes, (list, tuple)):
            for n in nodes:
                self._bump(I, n, 1)
            return
        h = getattr(I, "cache_extend_symbolic", None)
        if h:
            return h(self, nodes)
        raise Unsupported("cache list extend with a symbolic list (needs the walk contract)")

    def do_remove(self, I, n):
        if not I.ctx.branch(self.c.cnt(self.i, to_z3(n, Int)) > 0, "node in cache list"):
            raise PyRaise(BuiltinExc("ValueError", ("list.remove(x): x not in list",)))
        self._bump(I, n, -1)

    def _order(self, I):
        """the list as a sequence: an enumeration of the bag (valid when no node occurs twice)"""
        c, i, ctx = self.c, self.i, I.ctx
        seq = ctx.fresh_fun(c.name + "_seq", Int, Int)
        pos = ctx.fresh_fun(c.name + "_pos", Int, Int)
        j, n = z3.Ints("j!o n!o")
        nodup = forall([n], c.cnt(i, n) <= 1)
        ctx.assume(IMP(nodup, forall([j], IMP(AND(j >= 0, j < c.ln(i)), AND(c.cnt(i, seq(j)) > 0, pos(seq(j)) == j)))), "cache.order")
        ctx.assume(IMP(nodup, forall([n], IMP(c.cnt(i, n) > 0, AND(pos(n) >= 0, pos(n) < c.ln(i), seq(pos(n)) == n)))), "cache.order")
        return seq

    def do_sort(self, I, key=None):
        """in-place sort: the bag is unchanged; the order becomes ascending in key (stable order unspecified)"""
        c, i, ctx = self.c, self.i, I.ctx
        seq = self._order(I)
        if key is not None:
            kq = ctx.fresh("kq", Int)
            nb = len(I.pure_guards)
            I.pure += 1
            try:
                kt = I.call(key, [Sym(kq)], {})
            finally:
                I.pure -= 1
            guards = I.pure_guards[nb:]
            del I.pure_guards[nb:]
            kterm = to_z3(kt, Int)
            keyf = lambda x: z3.substitute(kterm, (kq, x))
            if guards:
                ctx.oblige(f"{I.frames[-1].qualname}/sort-key-does-not-raise",
                           IMP(c.cnt(i, kq) > 0, AND(*guards)), kind="safety", props=getattr(I, "safety_props", ()))
            j, k = z3.Ints("j!s k!s")
            ctx.assume(forall([j, k], IMP(AND(j >= 0, j < k, k < c.ln(i)), keyf(seq(j)) <= keyf(seq(k)))), "cache.sorted")
        c.order = getattr(c, "order", {})
        c.order[str(i)] = (seq, c.cnt)

    def m_iter(self, I):
        c, i = self.c, self.i
        od = getattr(c, "order", {}).get(str(i))
        if od is not None and od[1] is c.cnt:
            seq = od[0]
        else:
            seq = self._order(I)  # an arbitrary order
        return SymList(c.ln(i), lambda j: Sym(seq(j)), elem_sort=Int)
