"""Term layer: z3 sorts shared by the symbolic executor, the library models and the contracts.

Python values are encoded as follows (DESIGN.md 3.4):
  int            -> z3 Int (mathematical)
  bool           -> z3 Bool
  str            -> uninterpreted sort Key (atoms; distinct literals are distinct)
  any attr value -> datatype Val = VNone | VInt(iv) | VBool(bv) | VKey(kv) | VOpq(ov)
                    (VOpq: floats, arrays, lists ... opaque values compared by identity)
  pixel index    -> uninterpreted sort Pix (a spatial index tuple without the time axis)
"""
from __future__ import annotations

import z3

Int = z3.IntSort()
Bool = z3.BoolSort()
Key = z3.DeclareSort("Key")
Pix = z3.DeclareSort("Pix")
Flt = z3.DeclareSort("Flt")  # opaque floating point values

Val = z3.Datatype("Val")
Val.declare("VNone")
Val.declare("VInt", ("iv", Int))
Val.declare("VBool", ("bv", Bool))
Val.declare("VKey", ("kv", Key))
Val.declare("VOpq", ("ov", Int))
Val = Val.create()
VNone, VInt, VBool, VKey, VOpq = Val.VNone, Val.VInt, Val.VBool, Val.VKey, Val.VOpq
iv, bv, kv, ov = Val.iv, Val.bv, Val.kv, Val.ov
is_VNone, is_VInt = Val.is_VNone, Val.is_VInt


class Sym:
    """A symbolic Python value: a z3 expression plus nothing else (the sort is the type)."""

    __slots__ = ("e",)

    def __init__(self, e):
        self.e = e

    def sort(self):
        return self.e.sort()

    def __repr__(self):
        return f"Sym({self.e})"


_LITS: dict[str, z3.ExprRef] = {}


def lit(s: str):
    """The Key atom of a string literal."""
    if s not in _LITS:
        _LITS[s] = z3.Const("lit!" + s, Key)
    return _LITS[s]


truthyV = z3.Function("truthy", Val, Bool)  # Python truthiness of an attribute value


def lits_distinct():
    """global axioms added to every obligation: distinct string literals, truthiness of values"""
    ks = list(_LITS.values())
    out = [z3.Distinct(*ks)] if len(ks) > 1 else []
    i = z3.Int("i!tv")
    b = z3.Bool("b!tv")
    out += [z3.Not(truthyV(VNone)), z3.ForAll([i], truthyV(VInt(i)) == (i != 0)), z3.ForAll([b], truthyV(VBool(b)) == b)]
    return out


def is_sym(v):
    return isinstance(v, Sym)


def to_z3(v, want=None):
    """Coerce an interpreter value to a z3 expression (optionally of sort `want`)."""
    if isinstance(v, Sym):
        e = v.e
    elif isinstance(v, bool):
        e = z3.BoolVal(v)
    elif isinstance(v, int):
        e = z3.IntVal(v)
    elif isinstance(v, str):
        e = lit(v)
    elif v is None:
        e = VNone
    elif z3.is_expr(v):
        e = v
    else:
        raise TypeError(f"cannot encode {type(v).__name__} value {v!r} as a term")
    if want is None or e.sort() == want:
        return e
    s = e.sort()
    if want == Val:
        if s == Int:
            return VInt(e)
        if s == Bool:
            return VBool(e)
        if s == Key:
            return VKey(e)
    if s == Val:
        if want == Int:
            return iv(e)
        if want == Bool:
            return bv(e)
        if want == Key:
            return kv(e)
    raise TypeError(f"cannot coerce {e} : {s} to {want}")


def common(a, b):
    """Coerce two values to a common sort for (dis)equality."""
    ea, eb = to_z3(a), to_z3(b)
    if ea.sort() == eb.sort():
        return ea, eb
    if ea.sort() == Val:
        return ea, to_z3(b, Val)
    if eb.sort() == Val:
        return to_z3(a, Val), eb
    return None, None  # different python types: never equal


def AND(*xs):
    xs = [x for x in xs if not z3.is_true(x)]
    if not xs:
        return z3.BoolVal(True)
    return xs[0] if len(xs) == 1 else z3.And(*xs)


def OR(*xs):
    xs = [x for x in xs if not z3.is_false(x)]
    if not xs:
        return z3.BoolVal(False)
    return xs[0] if len(xs) == 1 else z3.Or(*xs)


def IMP(a, b):
    return z3.Implies(a, b)


def _inner_bound_names(e, seen=None, out=None):
    """names bound by quantifiers inside e"""
    seen = set() if seen is None else seen
    out = set() if out is None else out
    todo = [e]
    while todo:
        x = todo.pop()
        if x.get_id() in seen:
            continue
        seen.add(x.get_id())
        if z3.is_quantifier(x):
            if not x.is_lambda():  # a lambda applied to the outer variable re-uses the name harmlessly
                for i in range(x.num_vars()):
                    out.add(x.var_name(i))
            todo.append(x.body())
        else:
            todo.extend(x.children())
    return out


def forall(vs, body, pats=None):
    if not isinstance(vs, (list, tuple)):
        vs = [vs]
    # a nested quantifier that re-binds one of these variables would capture its occurrences inside (the formula would
    # silently say something else): refuse to build it
    clash = {str(v) for v in vs} & _inner_bound_names(body)
    if clash:
        raise ValueError(f"bound variable {sorted(clash)} is re-bound by a nested quantifier (variable capture)")
    if pats:
        return z3.ForAll(list(vs), body, patterns=pats)
    return z3.ForAll(list(vs), body)
