"""Bridge to the native harness (real funtracks under /venv/bin/python)."""
from __future__ import annotations

import json
import os
import subprocess
import tempfile

VERIF = os.path.dirname(os.path.dirname(os.path.abspath(__file__)))
PY = os.environ.get("PYVC_NATIVE_PY", "/venv/bin/python")
FOCUS = {"UserAddEdge": "add_edge", "UserDeleteEdge": "del_edge", "UserDeleteNode": "del_node", "UserAddNode": "add_node",
         "UserSwapPredecessors": "swap", "UserUpdateNodeAttrs": "attrs", "UserUpdateSegmentation": "paint",
         "AddEdge": "add_edge", "DeleteEdge": "del_edge", "AddNode": "add_node", "DeleteNode": "del_node",
         "UpdateNodeSeg": "paint", "ActionHistory": "undo,redo", "Tracks.undo": "undo", "Tracks.redo": "redo"}


def run_harness(script, args, timeout):
    env = dict(os.environ)
    env["PYTHONPATH"] = os.path.join(VERIF, "native")
    if os.environ.get("PYVC_REPO_SRC"):  # scratch copy under test (self-tests of the machinery)
        env["PYTHONPATH"] += os.pathsep + os.environ["PYVC_REPO_SRC"]
    try:
        p = subprocess.run([PY, os.path.join(VERIF, "native", script)] + args, capture_output=True, text=True,
                           timeout=timeout, env=env, cwd=VERIF)
    except subprocess.TimeoutExpired:
        return {"found": False, "search_error": "timeout"}
    try:
        return json.loads(p.stdout.strip().splitlines()[-1])
    except Exception:
        return {"found": False, "search_error": (p.stdout + p.stderr)[-800:]}


def tracks_witness(prop, label, failure, seed, budget=25, extra=()):
    focus = ""
    for k, v in FOCUS.items():
        if k in label:
            focus = v
            break
    args = ["--prop", prop, "--seed", str(seed), "--budget", str(budget)] + list(extra)
    if focus:
        args += ["--focus", focus]
    return run_harness("harness.py", args, budget + 60)


def replay(prop, witness):
    script = witness.get("script", "harness.py")
    with tempfile.NamedTemporaryFile("w", suffix=".json", delete=False, dir=os.path.join(VERIF, "replays")) as f:
        json.dump(witness, f)
        path = f.name
    try:
        return run_harness(script, ["--prop", prop, "--replay", path], 300)
    finally:
        os.unlink(path)


def bounded_walk(tier, what, name, rule):
    """bounded stand-in: exhaustive native check of the walk / bulk / query contracts (never counted as proved)"""
    nodes, frames = (6, 4) if tier == "thorough" and "walk" in what else (5, 4)
    r = run_harness("walk_bounded.py", ["--what", what, "--nodes", str(nodes), "--frames", str(frames)], 3000)
    out = {"name": name, "rule": rule + f"; every time-forward binary forest with <= {nodes} nodes over <= {frames} frames",
           "bound": {"nodes": nodes, "frames": frames}, "cases": r.get("cases", 0), "nontrivial": r.get("nontrivial", 0),
           "exhaustive": True, "wall_s": r.get("wall"), "violations": [dict(v, script="walk_bounded.py") for v in r.get("violations", [])]}
    if "cases" not in r:
        out["violations"] = []
        out["error"] = r.get("search_error", "no result")
    return out


def bounded_pure(tier, what, name, rule, seed=0, exhaustive=True):
    """bounded stand-in on the real pure functions (native/pure_bounded.py); never counted as proved"""
    size = "thorough" if tier == "thorough" else "quick"
    r = run_harness("pure_bounded.py", ["--what", what, "--size", size, "--seed", str(seed)], 3000)
    out = {"name": name, "rule": rule, "bound": size, "cases": r.get("cases", 0), "nontrivial": r.get("nontrivial", 0),
           "exhaustive": exhaustive, "wall_s": r.get("wall"),
           "violations": [dict(v, script="pure_bounded.py") for v in r.get("violations", [])]}
    if "cases" not in r:
        out["error"] = r.get("search_error", "no result")
        out["violations"] = []
    return out


def bounded_harness(tier, prop, name, rule, seed=0, focus="", segonly=False, budget=None, ignore=()):
    """sampled native scenarios on the real code (random user-action / paint / undo / redo walks with the
    property's oracle after every step); a bounded stand-in / cross-check, never counted as proved"""
    budget = budget or (60 if tier == "thorough" else 12)
    args = ["--prop", prop, "--seed", str(seed), "--budget", str(budget)]
    if focus:
        args += ["--focus", focus]
    if segonly:
        args += ["--segonly"]
    for pat in ignore:
        args += ["--ignore", pat]
    r = run_harness("harness.py", args, budget + 120)
    out = {"name": name, "rule": rule + f"; random scenarios for {budget} s (seeded)", "bound": {"seconds": budget}, "cases": r.get("scenarios_tried", 0),
           "nontrivial": r.get("scenarios_tried", 0), "exhaustive": False, "violations": [], "known_seen": r.get("known", [])}
    if r.get("found"):
        out["violations"] = [{"found": True, "scenario": r["scenario"], "violations": r["violations"], "script": "harness.py"}]
    if "scenarios_tried" not in r:
        out["error"] = r.get("search_error", "no result")
    return out


def bounded_paint(tier, prop, rule, ignore=()):
    """every rectangular paint / erase stroke (1x1..2x3, every position, every frame) on two small label videos, every
    label choice, every existing or a fresh track id, force on/off, both group orders, each followed by undo and redo;
    the property's oracle after every step.  Exhaustive over that finite family; a bounded stand-in for the
    paint-driven UserUpdateSegmentation, never counted as proved"""
    args = ["--prop", prop, "--paint-exhaustive", "1"]
    for pat in ignore:
        args += ["--ignore", pat]
    r = run_harness("harness.py", args, 900)
    out = {"name": "paint-strokes-exhaustive", "rule": rule + "; every rectangular stroke up to 2x3 on two 3-frame fixtures x label x track id x force x group order, then undo, redo",
           "bound": {"stroke": "<=2x3 rectangle", "fixtures": 2, "frames": 3}, "cases": r.get("scenarios_tried", 0),
           "nontrivial": r.get("scenarios_tried", 0), "exhaustive": True, "violations": [], "known_seen": r.get("known", [])}
    if r.get("found"):
        out["violations"] = [{"found": True, "scenario": r["scenario"], "violations": r["violations"], "script": "harness.py"}]
    if "scenarios_tried" not in r:
        out["error"] = r.get("search_error", "no result")
    return out


def bounded_conformance(tier, groups, seed=0):
    """native conformance tests of the assumed library contracts (native/conformance.py): samples, not a proof"""
    size = "thorough" if tier == "thorough" else "quick"
    r = run_harness("conformance.py", ["--what", groups, "--size", size, "--seed", str(seed)], 900)
    out = {"name": "model-conformance:" + groups, "rule": "the assumed external contracts of " + groups + " (what the models in pyvc/*model.py and contracts/*.py say about "
           "the real libraries) hold on random small inputs", "bound": size, "cases": r.get("cases", 0), "nontrivial": r.get("nontrivial", 0),
           "exhaustive": False, "wall_s": r.get("wall"), "violations": [dict(v, script="conformance.py") for v in r.get("violations", [])]}
    if "cases" not in r:
        out["error"] = r.get("search_error", "no result")
        out["violations"] = []
    return out


def declared_shape():
    """{class name: [field names]} of the SolutionTracks heap the proofs declare (both with and without segmentation)"""
    from .core import Ctx
    from .tracksfactory import make_tracks
    from .values import Instance
    from .verify import make_interp
    out = {}
    for has_seg in (False, True):
        ctx = Ctx()
        I = make_interp(ctx)
        W = make_tracks(I, has_seg=has_seg)
        seen, todo = set(), [W.tracks]
        while todo:
            o = todo.pop()
            if id(o) in seen or not isinstance(o, Instance):
                continue
            seen.add(id(o))
            out.setdefault(o.cls.name, set()).update(k for k in o.fields)
            todo.extend(o.fields.values())
            if isinstance(o.store, list):
                todo.extend(o.store)
    return {k: sorted(v) for k, v in out.items()}


def bounded_shape(tier):
    import tempfile
    shape = declared_shape()
    with tempfile.NamedTemporaryFile("w", suffix=".json", delete=False) as f:
        json.dump(shape, f)
        path = f.name
    try:
        r = run_harness("shape_check.py", [path], 300)
    finally:
        os.unlink(path)
    out = {"name": "declared-heap-shape", "rule": "every field the proofs declare on SolutionTracks, its FeatureDict, ActionHistory, AnnotatorRegistry and the three annotators "
           "exists on really constructed objects (with and without segmentation)", "bound": f"{sum(len(v) for v in shape.values())} fields of {len(shape)} classes",
           "cases": r.get("cases", 0), "nontrivial": r.get("nontrivial", 0), "exhaustive": True, "violations": [dict(v, script="shape_check.py") for v in r.get("violations", [])]}
    if "cases" not in r:
        out["error"] = r.get("search_error", "no result")
        out["violations"] = []
    return out
