/-
  Forest.lean — graph-theory lemmas backing the SMT encoding of the funtracks
  lineage forest (nodes `V`, edge relation `E`, time stamp `tm`).

  Check with:   cd /verif/theory/lean && lean Forest.lean
-/
import Mathlib.Logic.Relation
import Mathlib.Data.Nat.Init

namespace Funtracks

open Relation

variable {V : Type}

/-! ## Definitions (mirror the SMT encoding) -/

/-- every edge goes strictly forward in time -/
def Forward (E : V → V → Prop) (tm : V → ℕ) : Prop := ∀ a b, E a b → tm a < tm b
/-- at most one parent -/
def InLe1 (E : V → V → Prop) : Prop := ∀ a b c, E a c → E b c → a = b
/-- at most one child -/
def NonDiv (E : V → V → Prop) (a : V) : Prop := ∀ b c, E a b → E a c → b = c
def IsRoot (E : V → V → Prop) (n : V) : Prop := ∀ p, ¬ E p n
/-- starts an unbranched segment -/
def IsHead (E : V → V → Prop) (n : V) : Prop := IsRoot E n ∨ ∃ p, E p n ∧ ¬ NonDiv E p
/-- `Below E a b`: b is a or a descendant of a -/
abbrev Below (E : V → V → Prop) := Relation.ReflTransGen E
def SegStep (E : V → V → Prop) (a b : V) : Prop := E a b ∧ NonDiv E a
def L1 (E : V → V → Prop) (lid : V → ℕ) : Prop := ∀ a b, E a b → lid a = lid b
def L2 (E : V → V → Prop) (lid : V → ℕ) : Prop :=
  ∀ a b, IsRoot E a → IsRoot E b → a ≠ b → lid a ≠ lid b
def T1 (E : V → V → Prop) (tid : V → ℕ) : Prop := ∀ a b, E a b → NonDiv E a → tid a = tid b
def T2 (E : V → V → Prop) (tid : V → ℕ) : Prop :=
  ∀ a b, IsHead E a → IsHead E b → a ≠ b → tid a ≠ tid b

/-! ## M3 : facts about the descendant closure -/
section M3
variable {E E0 E1 : V → V → Prop} {tm : V → ℕ} {a b c s : V}

/-- a non-trivial path can be split at its first edge -/
theorem below_fwd (h : Below E a b) (hne : a ≠ b) : ∃ c, E a c ∧ Below E c b := by
  rcases ReflTransGen.cases_head h with h | h
  · exact absurd h hne
  · exact h

/-- a non-trivial path can be split at its last edge -/
theorem below_bwd (h : Below E a b) (hne : a ≠ b) : ∃ c, Below E a c ∧ E c b := by
  rcases ReflTransGen.cases_tail h with h | h
  · exact absurd h.symm hne
  · exact h

theorem below_mono_time (hF : Forward E tm) (h : Below E a b) : tm a ≤ tm b := by
  induction h with
  | refl => exact Nat.le_refl _
  | tail _ hcb ih => exact Nat.le_trans ih (Nat.le_of_lt (hF _ _ hcb))

theorem below_lt_time (hF : Forward E tm) (h : Below E a b) (hne : a ≠ b) : tm a < tm b := by
  obtain ⟨c, hac, hcb⟩ := below_bwd h hne
  exact Nat.lt_of_le_of_lt (below_mono_time hF hac) (hF _ _ hcb)

/-- (helper) `Below` is antisymmetric in a forward graph -/
theorem below_antisymm (hF : Forward E tm) (h1 : Below E a b) (h2 : Below E b a) : a = b := by
  by_cases hne : a = b
  · exact hne
  · have l1 := below_lt_time hF h1 hne
    have l2 := below_mono_time hF h2
    omega

/-- with at most one parent, the ancestors of a node form a chain -/
theorem below_chain (hI : InLe1 E) (h1 : Below E a c) (h2 : Below E b c) :
    Below E a b ∨ Below E b a := by
  induction h1 generalizing b with
  | refl => exact Or.inr h2
  | @tail c' c hac' hc'c ih =>
    rcases ReflTransGen.cases_tail h2 with h | ⟨d, hbd, hdc⟩
    · subst h
      exact Or.inl (hac'.tail hc'c)
    · have hd : d = c' := hI _ _ _ hdc hc'c
      subst hd
      exact ih hbd

/-- (helper) with at most one child, the descendants of a node form a chain -/
theorem below_chain_out {R : V → V → Prop} (hO : ∀ a b c, R a b → R a c → b = c)
    (h1 : ReflTransGen R a b) (h2 : ReflTransGen R a c) :
    ReflTransGen R b c ∨ ReflTransGen R c b := by
  induction h1 using ReflTransGen.head_induction_on with
  | refl => exact Or.inl h2
  | @head a a' haa' ha'b ih =>
    rcases ReflTransGen.cases_head h2 with h | ⟨d, had, hdc⟩
    · subst h
      exact Or.inr (ReflTransGen.head haa' ha'b)
    · have hd : d = a' := hO _ _ _ had haa'
      subst hd
      exact ih hdc

theorem below_mono_edges (h : ∀ a b, E1 a b → E0 a b) (hab : Below E1 a b) : Below E0 a b :=
  ReflTransGen.mono h _ _ hab

/-- M3'' : it suffices that the edges *reachable from s* are preserved -/
theorem below_rel_mono (h : ∀ a b, Below E1 s a → E1 a b → E0 a b) (hsa : Below E1 s a) :
    Below E0 s a := by
  induction hsa with
  | refl => exact ReflTransGen.refl
  | tail hsc hca ih => exact ih.tail (h _ _ hsc hca)

/-- M3' : a set containing `s`, closed under children, in which every member other than `s`
has a parent in the set, is exactly the set of descendants of `s`. -/
theorem closed_set_eq_below (hF : Forward E tm) (S : V → Prop) (hs : S s)
    (hcl : ∀ a b, S a → E a b → S b) (hpar : ∀ x, S x → x ≠ s → ∃ p, S p ∧ E p x) :
    ∀ x, S x ↔ Below E s x := by
  -- `→` by strong induction on the time stamp
  have key : ∀ k x, tm x = k → S x → Below E s x := by
    intro k
    induction k using Nat.strong_induction_on with
    | _ k ih =>
      intro x hk hx
      by_cases hxs : x = s
      · subst hxs; exact ReflTransGen.refl
      · obtain ⟨p, hp, hpx⟩ := hpar x hx hxs
        exact (ih (tm p) (hk ▸ hF _ _ hpx) p rfl hp).tail hpx
  intro x
  constructor
  · exact key _ x rfl
  · intro h
    induction h with
    | refl => exact hs
    | tail _ hcb ih => exact hcl _ _ ih hcb

end M3

/-! ## M1 : lineage ids = connected components -/
section M1
variable {E : V → V → Prop} {tm lid : V → ℕ} {a b : V}

/-- every node has a root ancestor (strong induction on `tm`) -/
theorem exists_root (hF : Forward E tm) (n : V) : ∃ r, IsRoot E r ∧ Below E r n := by
  have key : ∀ k n, tm n = k → ∃ r, IsRoot E r ∧ Below E r n := by
    intro k
    induction k using Nat.strong_induction_on with
    | _ k ih =>
      intro n hk
      by_cases hp : ∃ p, E p n
      · obtain ⟨p, hp⟩ := hp
        obtain ⟨r, hr, hrp⟩ := ih (tm p) (hk ▸ hF _ _ hp) p rfl
        exact ⟨r, hr, hrp.tail hp⟩
      · exact ⟨n, fun p hpn => hp ⟨p, hpn⟩, ReflTransGen.refl⟩
  exact key _ n rfl

theorem below_eqv (h : Below E a b) : EqvGen E a b := by
  induction h with
  | refl => exact EqvGen.refl _
  | tail _ h ih => exact EqvGen.trans _ _ _ ih (EqvGen.rel _ _ h)

/-- `L1` makes the id constant on connected components -/
theorem lid_of_eqv (h1 : L1 E lid) (h : EqvGen E a b) : lid a = lid b := by
  induction h with
  | rel x y h => exact h1 _ _ h
  | refl x => rfl
  | symm x y _ ih => exact ih.symm
  | trans x y z _ _ ih1 ih2 => exact ih1.trans ih2

/-- in a forest, connected nodes have exactly the same root ancestors -/
theorem root_below_of_eqv (hI : InLe1 E) (h : EqvGen E a b) (r : V) (hr : IsRoot E r) :
    Below E r a ↔ Below E r b := by
  induction h with
  | rel x y h =>
    constructor
    · intro hx; exact hx.tail h
    · intro hy
      rcases ReflTransGen.cases_tail hy with e | ⟨c, hrc, hcy⟩
      · subst e; exact absurd h (hr _)
      · have hc : c = x := hI _ _ _ hcy h
        subst hc; exact hrc
  | refl x => exact Iff.rfl
  | symm x y _ ih => exact ih.symm
  | trans x y z _ _ ih1 ih2 => exact ih1.trans ih2

theorem lineage_iff_connected (hF : Forward E tm) (_hI : InLe1 E) (h1 : L1 E lid) (h2 : L2 E lid) :
    ∀ n m, lid n = lid m ↔ EqvGen E n m := by
  intro n m
  constructor
  · intro h
    obtain ⟨rn, hrn, hn⟩ := exists_root hF n
    obtain ⟨rm, hrm, hm⟩ := exists_root hF m
    have e1 := lid_of_eqv h1 (below_eqv hn)
    have e2 := lid_of_eqv h1 (below_eqv hm)
    -- the two roots carry the same id, hence coincide by `L2`
    have hrr : rn = rm := by
      by_cases hne : rn = rm
      · exact hne
      · exact absurd (by rw [e1, e2, h]) (h2 _ _ hrn hrm hne)
    subst hrr
    exact EqvGen.trans _ _ _ (EqvGen.symm _ _ (below_eqv hn)) (below_eqv hm)
  · exact lid_of_eqv h1

theorem connected_iff_lineage_gives_L1_L2 (_hF : Forward E tm) (hI : InLe1 E)
    (h : ∀ n m, lid n = lid m ↔ EqvGen E n m) : L1 E lid ∧ L2 E lid := by
  constructor
  · intro a b hab
    exact (h a b).2 (EqvGen.rel _ _ hab)
  · intro a b ha hb hne heq
    -- a is a root ancestor of a, hence of b; but b is a root, so a = b
    have hab : Below E a b := (root_below_of_eqv hI ((h a b).1 heq) a ha).1 ReflTransGen.refl
    rcases ReflTransGen.cases_tail hab with e | ⟨c, _, hcb⟩
    · exact hne e.symm
    · exact hb _ hcb

end M1

/-! ## M2 : track ids = unbranched segments.
The segment graph `SegStep E` is itself a forward forest whose roots are the heads of `E`,
so M2 is M1 applied to `SegStep E`. -/
section M2
variable {E : V → V → Prop} {tm tid : V → ℕ} {a b c : V}

theorem seg_forward (hF : Forward E tm) : Forward (SegStep E) tm := fun a b h => hF a b h.1

theorem seg_inle1 (hI : InLe1 E) : InLe1 (SegStep E) := fun a b c h1 h2 => hI a b c h1.1 h2.1

theorem seg_outle1 : ∀ a b c, SegStep E a b → SegStep E a c → b = c :=
  fun _ b c h1 h2 => h1.2 b c h1.1 h2.1

/-- the roots of the segment graph are exactly the heads -/
theorem isRoot_seg_iff (hI : InLe1 E) (n : V) : IsRoot (SegStep E) n ↔ IsHead E n := by
  constructor
  · intro h
    by_cases hp : ∃ p, E p n
    · obtain ⟨p, hp⟩ := hp
      exact Or.inr ⟨p, hp, fun hnd => h p ⟨hp, hnd⟩⟩
    · exact Or.inl fun p hpn => hp ⟨p, hpn⟩
  · rintro (h | ⟨p, hp, hnd⟩) q ⟨hq, hqnd⟩
    · exact h q hq
    · have e : q = p := hI _ _ _ hq hp
      subst e; exact hnd hqnd

theorem seg_L1 (h : T1 E tid) : L1 (SegStep E) tid := fun a b hab => h a b hab.1 hab.2

theorem seg_L2 (hI : InLe1 E) (h : T2 E tid) : L2 (SegStep E) tid :=
  fun a b ha hb => h a b ((isRoot_seg_iff hI a).1 ha) ((isRoot_seg_iff hI b).1 hb)

theorem tracklet_iff_segment (hF : Forward E tm) (hI : InLe1 E) (h1 : T1 E tid) (h2 : T2 E tid) :
    ∀ n m, tid n = tid m ↔ EqvGen (SegStep E) n m :=
  lineage_iff_connected (seg_forward hF) (seg_inle1 hI) (seg_L1 h1) (seg_L2 hI h2)

theorem segment_iff_tracklet_gives_T1_T2 (hF : Forward E tm) (hI : InLe1 E)
    (h : ∀ n m, tid n = tid m ↔ EqvGen (SegStep E) n m) : T1 E tid ∧ T2 E tid := by
  obtain ⟨l1, l2⟩ := connected_iff_lineage_gives_L1_L2 (seg_forward hF) (seg_inle1 hI) h
  exact ⟨fun a b hab hnd => l1 a b ⟨hab, hnd⟩,
    fun a b ha hb => l2 a b ((isRoot_seg_iff hI a).2 ha) ((isRoot_seg_iff hI b).2 hb)⟩

/-! ## M2' : segment facts -/

/-- (helper) the segment graph has in- and out-degree ≤ 1, so connected = comparable -/
theorem seg_eqv_comparable (hI : InLe1 E) (h : EqvGen (SegStep E) a b) :
    ReflTransGen (SegStep E) a b ∨ ReflTransGen (SegStep E) b a := by
  induction h with
  | rel x y h => exact Or.inl (ReflTransGen.single h)
  | refl x => exact Or.inl ReflTransGen.refl
  | symm x y _ ih => exact ih.symm
  | trans x y z _ _ ih1 ih2 =>
    rcases ih1 with h1 | h1 <;> rcases ih2 with h2 | h2
    · exact Or.inl (h1.trans h2)
    · exact below_chain (seg_inle1 hI) h1 h2
    · exact below_chain_out seg_outle1 h1 h2
    · exact Or.inr (h2.trans h1)

/-- (helper) same track id ⇒ comparable along segment steps -/
theorem seg_comparable' (hF : Forward E tm) (hI : InLe1 E) (h1 : T1 E tid) (h2 : T2 E tid)
    (h : tid a = tid b) : ReflTransGen (SegStep E) a b ∨ ReflTransGen (SegStep E) b a :=
  seg_eqv_comparable hI ((tracklet_iff_segment hF hI h1 h2 a b).1 h)

theorem seg_below (h : ReflTransGen (SegStep E) a b) : Below E a b :=
  ReflTransGen.mono (fun _ _ (h : SegStep E _ _) => h.1) _ _ h

theorem seg_comparable (hF : Forward E tm) (hI : InLe1 E) (h1 : T1 E tid) (h2 : T2 E tid)
    (h : tid a = tid b) : Below E a b ∨ Below E b a :=
  (seg_comparable' hF hI h1 h2 h).imp seg_below seg_below

/-- (helper) a node on an E-path between the ends of a segment path lies on the segment path -/
theorem seg_between (hF : Forward E tm) (hI : InLe1 E) (h : ReflTransGen (SegStep E) a b) :
    ∀ c, Below E a c → Below E c b →
      ReflTransGen (SegStep E) a c ∧ ReflTransGen (SegStep E) c b := by
  induction h with
  | refl =>
    intro c hac hca
    have e : a = c := below_antisymm hF hac hca
    subst e; exact ⟨ReflTransGen.refl, ReflTransGen.refl⟩
  | @tail b' b hab' hb'b ih =>
    intro c hac hcb
    rcases ReflTransGen.cases_tail hcb with e | ⟨d, hcd, hdb⟩
    · subst e; exact ⟨hab'.tail hb'b, ReflTransGen.refl⟩
    · have e : d = b' := hI _ _ _ hdb hb'b.1
      subst e
      obtain ⟨i1, i2⟩ := ih c hac hcd
      exact ⟨i1, i2.tail hb'b⟩

theorem seg_convex (hF : Forward E tm) (hI : InLe1 E) (h1 : T1 E tid) (h2 : T2 E tid)
    (hac : Below E a c) (hcb : Below E c b) (h : tid a = tid b) : tid c = tid a := by
  have hseg : ReflTransGen (SegStep E) a b := by
    rcases seg_comparable' hF hI h1 h2 h with hs | hs
    · exact hs
    · -- then a = b
      have e : a = b := below_antisymm hF (hac.trans hcb) (seg_below hs)
      subst e; exact ReflTransGen.refl
  have hsc := (seg_between hF hI hseg c hac hcb).1
  exact ((tracklet_iff_segment hF hI h1 h2 a c).2 (below_eqv hsc)).symm

theorem seg_nondividing (hF : Forward E tm) (hI : InLe1 E) (h1 : T1 E tid) (h2 : T2 E tid)
    (hab : Below E a b) (hne : a ≠ b) (h : tid a = tid b) : NonDiv E a := by
  rcases seg_comparable' hF hI h1 h2 h with hs | hs
  · rcases ReflTransGen.cases_head hs with e | ⟨c, hac, _⟩
    · exact absurd e hne
    · exact hac.2
  · exact absurd (below_antisymm hF hab (seg_below hs)) hne

end M2

/-! ## M4 : undo of a composite action -/
section M4
variable {S : Type}

/-- applying f₁,…,fₙ and then gₙ,…,g₁, where each gᵢ undoes fᵢ everywhere, gives back x -/
theorem reverse_inverts : ∀ (fs : List (S → S)) (gs : List (S → S)), fs.length = gs.length →
    (∀ i (h : i < fs.length) (h' : i < gs.length), ∀ x, (gs.get ⟨i, h'⟩) ((fs.get ⟨i, h⟩) x) = x) →
    ∀ x, (gs.reverse.foldl (fun acc g => g acc) (fs.foldl (fun acc f => f acc) x)) = x := by
  intro fs
  induction fs with
  | nil =>
    intro gs hlen _ x
    cases gs with
    | nil => rfl
    | cons g gs => simp at hlen
  | cons f fs ih =>
    intro gs hlen hinv x
    cases gs with
    | nil => simp at hlen
    | cons g gs =>
      have hlen' : fs.length = gs.length := by simpa using hlen
      have hinv' : ∀ i (h : i < fs.length) (h' : i < gs.length), ∀ x,
          (gs.get ⟨i, h'⟩) ((fs.get ⟨i, h⟩) x) = x := by
        intro i h h' x
        exact hinv (i + 1) (Nat.succ_lt_succ h) (Nat.succ_lt_succ h') x
      have h0 : g (f x) = x := hinv 0 (Nat.succ_pos _) (Nat.succ_pos _) x
      simp only [List.foldl_cons, List.reverse_cons, List.foldl_append, List.foldl_nil]
      rw [ih gs hlen' hinv' (f x)]
      exact h0

end M4

/-! ## M5 : ancestor closure used by subset export -/
section M5
variable {E : V → V → Prop} {K : V → Prop}

/-- `Anc E k x`: x is a proper ancestor of k -/
def Anc (E : V → V → Prop) (k x : V) : Prop := Relation.TransGen E x k

/-- `AncClosure E K x` (the `C x` of the spec): x is kept or is a proper ancestor of a kept node -/
def AncClosure (E : V → V → Prop) (K : V → Prop) (x : V) : Prop := K x ∨ ∃ k, K k ∧ Anc E k x

theorem anc_closure_closed : ∀ x p, AncClosure E K x → E p x → AncClosure E K p := by
  rintro x p (hk | ⟨k, hk, hxk⟩) hpx
  · exact Or.inr ⟨x, hk, TransGen.single hpx⟩
  · exact Or.inr ⟨k, hk, TransGen.head hpx hxk⟩

theorem anc_closure_least : ∀ (D : V → Prop), (∀ x, K x → D x) → (∀ x p, D x → E p x → D p) →
    ∀ x, AncClosure E K x → D x := by
  intro D hK hD
  -- D is closed under proper ancestors
  have up : ∀ x k, TransGen E x k → D k → D x := by
    intro x k h
    induction h with
    | single h => exact fun dk => hD _ _ dk h
    | tail _ hbk ih => exact fun dk => ih (hD _ _ dk hbk)
  rintro x (hk | ⟨k, hk, hxk⟩)
  · exact hK x hk
  · exact up x k hxk (hK k hk)

end M5

end Funtracks
