#!/bin/sh
# Offline setup: nothing to download.  Validates that the prover and the replayer start, and
# (when present) checks the Lean bridge lemmas once.
set -e
cd "$(dirname "$0")"
python3-vt -c "import z3, sys; sys.path.insert(0, '.'); import pyvc.verify, contracts.history; print('pyvc ok, z3', z3.get_version_string())"
/venv/bin/python -c "import funtracks, networkx, numpy; print('native replayer ok')"
if [ -x tools/lean_check.sh ]; then tools/lean_check.sh || echo "lean lemmas: check failed (reported in evidence as unchecked)"; fi
