"""Native conformance tests of the library models the proofs rely on (runs under /venv/bin/python on the real libraries).

Each group samples random small inputs and compares the real library's behaviour with the *assumed external contract*
written in the corresponding model (pyvc/*model.py, contracts/*.py).  A bounded cross-check of the trusted base - it
proves nothing, it only makes a wrong model assumption visible.

  --what networkx | numpy | kdtree | difflib | regionprops | compute_ious | all
"""
from __future__ import annotations

import argparse
import difflib
import itertools
import json
import random
import time
import warnings

import networkx as nx
import numpy as np

warnings.filterwarnings("ignore")


def rand_forest(rng, n):
    g = nx.DiGraph()
    for i in range(1, n + 1):
        g.add_node(i, time=rng.randrange(0, 4), seg_id=rng.randrange(1, 5))
    for i in range(2, n + 1):
        if rng.random() < 0.7:
            p = rng.randrange(1, i)
            if g.out_degree(p) < 3:
                g.add_edge(p, i)
    return g


def g_networkx(rng, rounds):
    bad, n = [], 0
    for _ in range(rounds):
        g = rand_forest(rng, rng.randrange(1, 8))
        n += 1
        nodes = list(g.nodes())
        # out_degree(): every node once, with its out-degree; successors = the children, each once
        od = list(g.out_degree())
        if sorted(x for x, _ in od) != sorted(nodes) or any(d != len(list(g.successors(x))) for x, d in od):
            bad.append("out_degree() does not list every node once with its number of successors")
        for x in nodes:
            if sorted(g.successors(x)) != sorted(b for a, b in g.edges() if a == x):
                bad.append("successors(x) is not the set of children")
            if sorted(g.out_edges(x)) != sorted((a, b) for a, b in g.edges() if a == x):
                bad.append("out_edges(x) is not the set of edges leaving x")
        some = rng.sample(nodes, rng.randrange(0, len(nodes) + 1))
        if sorted(g.out_edges(some)) != sorted((a, b) for a, b in g.edges() if a in some):
            bad.append("out_edges(list) is not the set of edges leaving the listed nodes")
        # copy(): same nodes / edges / attributes, independent edge set
        c = g.copy()
        if sorted(c.nodes()) != sorted(nodes) or sorted(c.edges()) != sorted(g.edges()):
            bad.append("copy() differs")
        if nodes:
            x = rng.choice(nodes)
            before = sorted(g.edges())
            c.remove_edges_from(g.out_edges(x))
            if sorted(c.edges()) != sorted(e for e in before if e[0] != x) or sorted(g.edges()) != before:
                bad.append("remove_edges_from(out_edges(x)) on a copy does not remove exactly x's out-edges from the copy only")
            kids = list(g.successors(x))
            if kids:
                c2 = g.copy()
                c2.remove_edge(x, kids[0])
                if sorted(c2.edges()) != sorted(e for e in before if e != (x, kids[0])):
                    bad.append("remove_edge removes something else")
        # weakly_connected_components: a partition into non-empty classes, each once; edges stay inside a class;
        # two nodes of one class are connected ignoring direction
        comps = [set(s) for s in nx.weakly_connected_components(g)]
        if sorted(itertools.chain(*comps)) != sorted(nodes) or any(not s for s in comps):
            bad.append("weakly_connected_components is not a partition of the nodes")
        comp_of = {x: i for i, s in enumerate(comps) for x in s}
        if any(comp_of[a] != comp_of[b] for a, b in g.edges()):
            bad.append("an edge joins two components")
        u = g.to_undirected()
        if any(not nx.has_path(u, min(s), x) for s in comps for x in s):
            bad.append("a component is not connected")
        # relabel_nodes(copy=False): in place, node k -> mapping[k], edges follow
        h = g.copy()
        r = nx.relabel_nodes(h, {k: k + 1 for k in h.nodes()}, copy=False)
        if r is not h or sorted(h.nodes()) != sorted(k + 1 for k in nodes) or sorted(h.edges()) != sorted((a + 1, b + 1) for a, b in g.edges()):
            bad.append("relabel_nodes(copy=False) is not the in-place renaming k -> k+1")
        # graph.nodes(data=True): every node once with its attribute dict; graph.nodes[n][k] = v writes that attribute only
        if sorted(x for x, _ in g.nodes(data=True)) != sorted(nodes) or any(d is not g.nodes[x] for x, d in g.nodes(data=True)):
            bad.append("nodes(data=True) does not yield the live attribute dicts")
    return n, bad


def g_numpy(rng, rounds):
    bad, n = [], 0
    for _ in range(rounds):
        n += 1
        a = np.array([[rng.randrange(0, 4) for _ in range(5)] for _ in range(3)], dtype=np.int64)
        b = a.copy()
        v = a[1]
        v[v == 2] = 9  # a[i] is a view; masked store writes exactly the masked cells
        exp = b.copy()
        exp[1] = np.where(b[1] == 2, 9, b[1])
        if not np.array_equal(a, exp):
            bad.append("a[i][mask] = c is not an in-place update of exactly the masked cells of frame i")
        a = b.copy()
        a[1][a[1] != 0] += 5
        exp = b.copy()
        exp[1] = np.where(b[1] != 0, b[1] + 5, b[1])
        if not np.array_equal(a, exp):
            bad.append("a[i][mask] += c differs")
        z = np.zeros_like(b).astype(np.uint64)
        if z.shape != b.shape or z.any():
            bad.append("zeros_like/astype changes shape or content")
        if int(np.max(b[0])) != max(b[0].tolist()):
            bad.append("np.max differs")
        col = np.array([rng.randrange(0, 4) for _ in range(rng.randrange(0, 7))], dtype=np.int64)
        other = np.array([rng.randrange(10, 20) for _ in col], dtype=np.int64)
        u = np.unique(col).tolist()
        if u != sorted(set(col.tolist())):
            bad.append("np.unique is not the sorted list of distinct values")
        if ((0 in col) != (0 in col.tolist())) or not np.array_equal(col + 1, np.array([x + 1 for x in col.tolist()], dtype=np.int64)):
            bad.append("`x in v` / v + c differ from the elementwise reading")
        for t in range(4):
            m = col == t
            if col[m].tolist() != [x for x in col.tolist() if x == t] or other[m].tolist() != [y for x, y in zip(col.tolist(), other.tolist()) if x == t]:
                bad.append("v[mask] is not the selection in index order with a shared index map")
            d = dict(zip(col[m], other[m], strict=True))
            exp_d = {}
            for x, y in zip(col[m].tolist(), other[m].tolist()):
                exp_d[x] = y
            if {int(k): int(w) for k, w in d.items()} != exp_d:
                bad.append("dict(zip(a, b)) is not last-pair-wins")
        r = b.reshape((-1,) + b.shape[2:]) if b.ndim > 2 else b.reshape(b.shape)
        if not np.array_equal(r.reshape(b.shape), b):
            bad.append("reshape round trip changes cells")
    return n, bad


def g_kdtree(rng, rounds):
    from scipy.spatial import KDTree
    bad, n = [], 0
    for _ in range(rounds):
        n += 1
        A = [[float(rng.randrange(0, 6)), float(rng.randrange(0, 6))] for _ in range(rng.randrange(1, 6))]
        B = [[float(rng.randrange(0, 6)), float(rng.randrange(0, 6))] for _ in range(rng.randrange(1, 6))]
        r = float(rng.choice([0, 1, 2, 3]))
        res = KDTree(A).query_ball_tree(KDTree(B), r)
        if len(res) != len(A):
            bad.append("query_ball_tree result has another length than the first tree")
        for i, row in enumerate(res):
            exp = [j for j, q in enumerate(B) if (A[i][0] - q[0]) ** 2 + (A[i][1] - q[1]) ** 2 <= r * r + 1e-9]
            if sorted(row) != exp or len(set(row)) != len(row):
                bad.append(f"query_ball_tree row {i}: {sorted(row)} != indices within distance {r}: {exp}")
    for _ in range(rounds):
        keys = [rng.randrange(0, 9) for _ in range(rng.randrange(0, 6))]
        d = {k: [] for k in keys}
        if sorted(d.keys()) != sorted(set(keys)):
            bad.append("sorted(dict.keys()) is not strictly increasing over the keys")
    return n, bad


def g_difflib(rng, rounds):
    words = ["time", "t", "x", "y", "z", "area", "Area", "track_id", "Track", "seg", "seg_id", "label", "Label", "pos", "position", "iou"]
    bad, n = [], 0
    for _ in range(rounds):
        n += 1
        poss = rng.sample(words, rng.randrange(0, 7))
        w = rng.choice(words)
        for k in (1, 3):
            got = difflib.get_close_matches(w.lower(), [p.lower() for p in poss], n=k, cutoff=rng.choice([0.0, 0.4, 0.8]))
            if len(got) > k or any(x not in [p.lower() for p in poss] for x in got):
                bad.append("get_close_matches returned more than n words or a word outside the possibilities")
        lm = {p.lower(): p for p in poss}
        if any(v.lower() != k or v not in poss for k, v in lm.items()) or any(p.lower() not in lm for p in poss):
            bad.append("{p.lower(): p for p in L} is not the image dictionary the model assumes")
    return n, bad


def rand_video(rng, frames=3, h=4, w=5, labels=4):
    seg = np.zeros((frames, h, w), dtype=np.uint64)
    for t in range(frames):
        for _ in range(rng.randrange(0, 4)):
            lab = rng.randrange(1, labels + 1)
            y, x = rng.randrange(0, h - 1), rng.randrange(0, w - 1)
            seg[t, y:y + rng.randrange(1, 3), x:x + rng.randrange(1, 3)] = lab
    return seg


def g_regionprops(rng, rounds):
    from skimage.measure import regionprops

    from funtracks.annotators._regionprops_extended import regionprops_extended
    bad, n = [], 0
    for _ in range(rounds):
        n += 1
        seg = rand_video(rng)
        for t in range(seg.shape[0]):
            present = sorted(int(x) for x in np.unique(seg[t]) if x != 0)
            for fn, kw in ((regionprops, {}), (regionprops_extended, {"spacing": None}), (regionprops_extended, {"spacing": (2.0, 2.0)})):
                regs = list(fn(seg[t].astype(np.int64), **kw))
                if sorted(int(r.label) for r in regs) != present:
                    bad.append(f"{fn.__name__}: regions are not one per non-zero label")
                for r in regs:
                    m = seg[t] == r.label
                    vox = 4.0 if kw.get("spacing") else 1.0
                    if abs(float(r.area) - m.sum() * vox) > 1e-6:
                        bad.append(f"{fn.__name__}: area is not the measurement of the label's own mask with the given spacing")
        # determinism: equal masks and spacing give equal measurements
        t = rng.randrange(0, seg.shape[0])
        a1 = [(int(r.label), float(r.area), tuple(float(c) for c in r.centroid)) for r in regionprops_extended(seg[t].astype(np.int64), spacing=None)]
        a2 = [(int(r.label), float(r.area), tuple(float(c) for c in r.centroid)) for r in regionprops_extended(seg[t].astype(np.int64).copy(), spacing=None)]
        if a1 != a2:
            bad.append("regionprops_extended is not deterministic")
    return n, bad


def g_compute_ious(rng, rounds):
    from funtracks.annotators._compute_ious import _compute_ious as ious_a
    from funtracks.candidate_graph.iou import _compute_ious as ious_c
    bad, n = [], 0
    for _ in range(rounds):
        n += 1
        seg = rand_video(rng, frames=2)
        f1, f2 = seg[0], seg[1]
        exp = {}
        for a in np.unique(f1):
            for b in np.unique(f2):
                if a != 0 and b != 0:
                    inter = np.logical_and(f1 == a, f2 == b).sum()
                    if inter > 0:
                        exp[(int(a), int(b))] = inter / np.logical_or(f1 == a, f2 == b).sum()
        for fn in (ious_a, ious_c):
            got = fn(f1, f2)
            pairs = [(int(a), int(b)) for a, b, _ in got]
            if sorted(pairs) != sorted(exp) or len(set(pairs)) != len(pairs):
                bad.append(f"{fn.__module__}._compute_ious does not list every overlapping pair of non-zero labels exactly once")
            elif any(abs(float(v) - exp[(int(a), int(b))]) > 1e-9 for a, b, v in got):
                bad.append(f"{fn.__module__}._compute_ious: a value is not |A & B| / |A | B|")
    return n, bad


GROUPS = {"networkx": g_networkx, "numpy": g_numpy, "kdtree": g_kdtree, "difflib": g_difflib, "regionprops": g_regionprops, "compute_ious": g_compute_ious}


def main():
    ap = argparse.ArgumentParser()
    ap.add_argument("--what", default="all")
    ap.add_argument("--size", default="quick")
    ap.add_argument("--seed", type=int, default=0)
    a = ap.parse_args()
    rng = random.Random(a.seed)
    rounds = 150 if a.size == "quick" else 1500
    t0 = time.time()
    cases, viol = 0, []
    for name in (GROUPS if a.what == "all" else a.what.split(",")):
        n, bad = GROUPS[name](rng, rounds)
        cases += n
        viol += [{"what": "conformance", "group": name, "bad": sorted(set(bad))[:5]}] if bad else []
    print(json.dumps({"what": "conformance:" + a.what, "cases": cases, "nontrivial": cases, "violations": viol, "n_violations": len(viol), "wall": round(time.time() - t0, 1)}))


if __name__ == "__main__":
    main()
