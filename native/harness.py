#!/venv/bin/python
"""Native harness (runs under /venv/bin/python against the real funtracks in /repo).

Used for three things, never as the deciding step of a proof:
  * witness search: after an obligation failed, find a concrete failing input on the real code
    (`--prop Cxx --budget S [--focus UserAddEdge]`) and write it as a replayable scenario;
  * replay of such a scenario (`--replay file`);
  * run-time cross-check of the proved clauses on random scenarios in the thorough tier.

A scenario = {"graph": {"nodes": [[id, t, track?]..], "edges": [[u,v]..]}, "seg": bool, "ndim": 3,
              "steps": [[kind, args...], ...]}; it is executed from scratch on every replay.
"""
from __future__ import annotations

import argparse
import os
import copy
import json
import random
import sys
import time
import warnings

import networkx as nx
import numpy as np

warnings.filterwarnings("ignore")

from funtracks.data_model import SolutionTracks  # noqa: E402
from funtracks.exceptions import InvalidActionError  # noqa: E402
from funtracks.user_actions import (  # noqa: E402
    UserAddEdge, UserAddNode, UserDeleteEdge, UserDeleteNode, UserSwapPredecessors,
    UserUpdateNodeAttrs, UserUpdateSegmentation,
)

H, Wd = 6, 8  # frame size of generated segmentations


# ----------------------------------------------------------------------------- scenario construction
def random_forest(rng, n_nodes, n_frames):
    nodes, edges = [], []
    for i in range(1, n_nodes + 1):
        nodes.append([i, rng.randrange(n_frames)])
    by_t = sorted(nodes, key=lambda x: (x[1], x[0]))
    outdeg = {n[0]: 0 for n in nodes}
    for n, t in by_t:
        cands = [m for m, tm in nodes if tm < t and outdeg[m] < 2]
        if cands and rng.random() < 0.7:
            # prefer close frames
            cands.sort(key=lambda m: -[x[1] for x in nodes if x[0] == m][0])
            p = cands[0] if rng.random() < 0.7 else rng.choice(cands)
            edges.append([p, n])
            outdeg[p] += 1
    return {"nodes": nodes, "edges": edges}


def build_tracks(spec, seg=False, scale=None):
    g = nx.DiGraph()
    n_frames = max([t for _, t in spec["nodes"]] + [0]) + 3
    arr = np.zeros((n_frames, H, Wd), dtype=np.uint64) if seg else None
    per_frame = {}
    for n, t in spec["nodes"]:
        k = per_frame.get(t, 0)
        per_frame[t] = k + 1
        y, x = (k * 2) % H, ((k * 2) // H) * 3 % Wd
        if seg:
            g.add_node(n, t=t)  # position and area are computed from the mask
            arr[t, y:y + 2, x:x + 2] = n
        else:
            g.add_node(n, t=t, pos=[float(y), float(x)])
    for u, v in spec["edges"]:
        g.add_edge(u, v)
    tr = SolutionTracks(g, segmentation=arr, time_attr="t", pos_attr="pos", ndim=3, scale=scale)
    return tr


# ----------------------------------------------------------------------------- canonical state
def canon(tr):
    feats = list(tr.features.keys())
    nodes = {}
    for n in tr.graph.nodes:
        d = {}
        for k in feats:
            if tr.features[k]["feature_type"] == "node":
                v = tr.graph.nodes[n].get(k)
                d[k] = _c(v)
        nodes[int(n)] = d
    edges = {}
    for u, v in tr.graph.edges:
        d = {}
        for k in feats:
            if tr.features[k]["feature_type"] == "edge":
                d[k] = _c(tr.graph.edges[u, v].get(k))
        edges[f"{int(u)}>{int(v)}"] = d
    seg = None if tr.segmentation is None else tr.segmentation.tobytes().hex()
    ta = tr.track_annotator
    return {
        "nodes": nodes, "edges": edges, "seg": seg,
        "t2n": {int(k): sorted(int(x) for x in v) for k, v in ta.tracklet_id_to_nodes.items() if v},
        "l2n": {int(k): sorted(int(x) for x in v) for k, v in ta.lineage_id_to_nodes.items() if v},
    }


def _c(v):
    if isinstance(v, np.ndarray):
        v = v.tolist()
    if isinstance(v, (list, tuple)):
        return [_c(x) for x in v]
    if isinstance(v, (np.integer,)):
        return int(v)
    if isinstance(v, (np.floating, float)):
        return round(float(v), 9)
    return v


def full_state(tr):
    c = canon(tr)
    c["hist"] = [len(tr.action_history.undo_stack), len(tr.action_history.redo_stack)]
    return c


# ----------------------------------------------------------------------------- step execution
def do_step(tr, step, emits):
    """-> ('ok', action) | ('refused', exc)"""
    kind = step[0]
    try:
        if kind == "add_edge":
            a = UserAddEdge(tr, (step[1], step[2]), force=bool(step[3]))
        elif kind == "del_edge":
            a = UserDeleteEdge(tr, (step[1], step[2]))
        elif kind == "del_node":
            a = UserDeleteNode(tr, step[1])
        elif kind == "add_node":
            attrs = {"t": step[2], "track_id": step[3]}
            if step[4]:
                attrs["pos"] = [1.0, 1.0]
            pixels = None
            if len(step) > 6 and step[6] is not None:
                pixels = tuple(np.array(x) for x in step[6])
            a = UserAddNode(tr, step[1], attrs, pixels=pixels, force=bool(step[5]))
        elif kind == "swap":
            a = UserSwapPredecessors(tr, (step[1], step[2]))
        elif kind == "attrs":
            a = UserUpdateNodeAttrs(tr, step[1], {step[2]: step[3]})
        elif kind == "paint":
            a = paint(tr, step[1], step[2], step[3], step[4], bool(step[5]), step[6] if len(step) > 6 else None,
                      bool(step[7]) if len(step) > 7 else False)
        elif kind == "undo":
            return ("ok", tr.undo())
        elif kind == "redo":
            return ("ok", tr.redo())
        elif kind == "enable":
            tr.enable_features(list(step[1]))
            return ("ok", None)
        elif kind == "disable":
            tr.disable_features(list(step[1]))
            return ("ok", None)
        else:
            raise ValueError(kind)
        return ("ok", a)
    except (InvalidActionError, ValueError, KeyError, AssertionError, nx.NetworkXError, IndexError, StopIteration, TypeError) as e:
        return ("refused", e)


def paint(tr, new_value, t, ys, xs, force, track_id=None, reverse_groups=False):
    """Paint pixels (t, ys, xs) with new_value as a GUI would: write the array first, then group the
    changed pixels by previous label and call UserUpdateSegmentation; restore on refusal."""
    seg = tr.segmentation
    ys, xs = np.array(ys), np.array(xs)
    prev = seg[t, ys, xs].copy()
    changed = prev != new_value
    ys, xs, prev = ys[changed], xs[changed], prev[changed]
    seg[t, ys, xs] = new_value
    groups = []
    for old in np.unique(prev):
        m = prev == old
        groups.append(((np.full(m.sum(), t), ys[m], xs[m]), int(old)))
    tid = track_id if track_id is not None else tr.get_next_track_id()
    if reverse_groups:
        groups.reverse()  # the order of the per-label groups is up to the caller (the GUI)
    try:
        return UserUpdateSegmentation(tr, int(new_value), groups, tid, force=force)
    except Exception:
        seg[t, ys, xs] = prev  # the caller restores the painted pixels
        raise


def random_step(rng, tr, seg):
    nodes = list(tr.graph.nodes)
    nid = (max(nodes) if nodes else 0) + rng.randrange(1, 3)
    r = rng.random()
    pick = lambda: rng.choice(nodes) if nodes else 1
    maxt = max([tr.get_time(n) for n in nodes] + [1]) + 1
    tids = list({tr.get_track_id(n) for n in nodes}) or [1]
    if r < 0.22:
        return ["add_edge", pick(), pick(), rng.random() < 0.4]
    if r < 0.36:
        e = list(tr.graph.edges)
        if e and rng.random() < 0.85:
            u, v = rng.choice(e)
            return ["del_edge", int(u), int(v)]
        return ["del_edge", pick(), pick()]
    if r < 0.48:
        return ["del_node", pick() if rng.random() < 0.9 else nid]
    if r < 0.64:
        tid = rng.choice(tids) if rng.random() < 0.7 else max(tids) + rng.randrange(1, 3)
        if seg:
            t = rng.randrange(min(maxt + 1, tr.segmentation.shape[0]))
            free = np.argwhere(tr.segmentation[t] == 0)
            if len(free) and rng.random() < 0.85:
                k = rng.sample(range(len(free)), min(len(free), rng.randrange(1, 4)))
                px = [[t] * len(k), [int(free[i][0]) for i in k], [int(free[i][1]) for i in k]]
                return ["add_node", nid, t, tid, False, rng.random() < 0.4, px]
            # with a segmentation a node comes with pixels (documented precondition of AddNode);
            # a node given neither position nor pixels is a refused edit (C11)
            return ["add_node", nid, t, tid, False, rng.random() < 0.4, None]
        return ["add_node", nid if rng.random() < 0.9 else pick(), rng.randrange(maxt + 1), tid, rng.random() < 0.85, rng.random() < 0.4]  # noqa
    if r < 0.70:
        return ["swap", pick(), pick()]
    if r < 0.74:
        return ["attrs", pick(), rng.choice(["custom", "t", "track_id", "pos", "area", "lineage_id", "iou", "circularity"]), rng.randrange(5)]
    if getattr(rng, "c10", False) and rng.random() < 0.35:
        # the track id of a SolutionTracks is never switched off ("every node must have a track_id"): with it
        # disabled the TrackAnnotator ignores every edit, lineage bookkeeping included - outside C04/C05/C06's domain
        avail = [k for k in tr.get_available_features().keys() if k != tr.features.tracklet_key]
        ks = rng.sample(avail, rng.randrange(1, min(3, len(avail)) + 1))
        if rng.random() < 0.12:
            ks.append("no_such_feature")
        return [rng.choice(["enable", "disable"]), ks]
    if r < 0.87 or not seg:
        return [rng.choice(["undo", "undo", "redo"])]
    # paint stroke
    t = rng.randrange(min(maxt + 1, tr.segmentation.shape[0]))
    y0, x0 = rng.randrange(H), rng.randrange(Wd)
    cells = [(y, x) for y in range(y0, min(H, y0 + rng.randrange(1, 4))) for x in range(x0, min(Wd, x0 + rng.randrange(1, 4)))]
    labels = [int(v) for v in np.unique(tr.segmentation[t]) if v != 0]
    val = rng.choice([0, nid] + labels) if labels else rng.choice([0, nid])
    ptid = rng.choice(tids) if rng.random() < 0.6 else None
    return ["paint", val, t, [c[0] for c in cells], [c[1] for c in cells], rng.random() < 0.3, ptid, rng.random() < 0.5]


# ----------------------------------------------------------------------------- oracles
def segments(g):
    h = g.copy()
    for n in list(g.nodes):
        if g.out_degree(n) >= 2:
            for c in list(g.successors(n)):
                h.remove_edge(n, c)
    return [set(c) for c in nx.weakly_connected_components(h)]


def check_state(tr, props, where):
    """-> list of (property, message) violated in the current state"""
    out = []
    g = tr.graph
    tk = tr.features.time_key
    if "C03" in props:
        for n in g.nodes:
            if g.in_degree(n) > 1:
                out.append(("C03", f"{where}: node {n} has {g.in_degree(n)} parents"))
            if g.out_degree(n) > 2:
                out.append(("C03", f"{where}: node {n} has {g.out_degree(n)} children"))
        for u, v in g.edges:
            if not g.nodes[u][tk] < g.nodes[v][tk]:
                out.append(("C03", f"{where}: edge {u}->{v} is not forward in time"))
    enabled_now = set(tr.annotators.features.keys())
    if "C04" in props and tr.features.tracklet_key in enabled_now:
        part = {}
        for s in segments(g):
            ids = {tr.get_track_id(n) for n in s}
            if len(ids) != 1:
                out.append(("C04", f"{where}: segment {sorted(s)} carries track ids {sorted(ids)}"))
            for i in ids:
                part.setdefault(i, []).append(sorted(s))
        for i, ss in part.items():
            if len(ss) > 1:
                out.append(("C04", f"{where}: track id {i} labels several segments {ss}"))
    if "C05" in props and tr.features.lineage_key is not None and tr.features.lineage_key in enabled_now and tr.features.tracklet_key in enabled_now:
        part = {}
        for s in nx.weakly_connected_components(g):
            ids = {tr.get_lineage_id(n) for n in s}
            if len(ids) != 1:
                out.append(("C05", f"{where}: component {sorted(s)} carries lineage ids {sorted(ids, key=str)}"))
            for i in ids:
                part.setdefault(i, []).append(sorted(s))
        for i, ss in part.items():
            if len(ss) > 1:
                out.append(("C05", f"{where}: lineage id {i} labels several components {ss}"))
    if "C06" in props and tr.features.tracklet_key in enabled_now:
        ta = tr.track_annotator
        want = {}
        for n in g.nodes:
            want.setdefault(tr.get_track_id(n), []).append(n)
        got = {k: v for k, v in ta.tracklet_id_to_nodes.items() if v}
        if {k: sorted(v) for k, v in want.items()} != {k: sorted(v) for k, v in got.items()}:
            out.append(("C06", f"{where}: track lookup {got} != graph {want}"))
        if g.number_of_nodes() and tr.get_next_track_id() in want:
            out.append(("C06", f"{where}: next track id {tr.get_next_track_id()} is in use"))
        for i in list(want)[:3]:
            for t in range(0, 5):
                ref_p = [n for n in want[i] if tr.get_time(n) < t]
                ref_s = [n for n in want[i] if tr.get_time(n) > t]
                rp = max(ref_p, key=tr.get_time) if ref_p else None
                rs = min(ref_s, key=tr.get_time) if ref_s else None
                p, s = tr.get_track_neighbors(i, t)
                if (p is None) != (rp is None) or (s is None) != (rs is None) or (p is not None and tr.get_time(p) != tr.get_time(rp)) or (s is not None and tr.get_time(s) != tr.get_time(rs)):
                    out.append(("C06", f"{where}: get_track_neighbors({i},{t}) = {(p, s)} but scan gives {(rp, rs)}"))
                if tr.has_track_id_at_time(i, t) != any(tr.get_time(n) == t for n in want[i]):
                    out.append(("C06", f"{where}: has_track_id_at_time({i},{t}) disagrees with the graph"))
    if tr.segmentation is not None:
        seg = tr.segmentation
        if "C07" in props:
            for n in g.nodes:
                t = tr.get_time(n)
                if not (seg[t] == n).any():
                    out.append(("C07", f"{where}: node {n} labels no pixel in its frame {t}"))
                for t2 in range(seg.shape[0]):
                    if t2 != t and (seg[t2] == n).any():
                        out.append(("C07", f"{where}: label {n} occurs in frame {t2}, node time is {t}"))
            for lab in np.unique(seg):
                if lab != 0 and lab not in g.nodes:
                    out.append(("C07", f"{where}: label {lab} has no node"))
        if "C08" in props and ("area" in enabled_now or "pos" in enabled_now):
            sc = tr.scale
            vox = float(np.prod(sc[1:])) if sc is not None else 1.0
            for n in g.nodes:
                t = tr.get_time(n)
                m = seg[t] == n
                if m.any():
                    a = g.nodes[n].get("area")
                    if "area" in enabled_now and (a is None or abs(float(a) - m.sum() * vox) > 1e-6):
                        out.append(("C08", f"{where}: area of node {n} is {a}, mask has {int(m.sum())} pixels x {vox}"))
                    if tr.features.position_key == "pos" and "pos" in enabled_now:
                        c = np.argwhere(m).mean(axis=0) * (np.array(sc[1:]) if sc is not None else 1.0)
                        p = g.nodes[n].get("pos")
                        if p is None or np.abs(np.array(p, dtype=float) - c).max() > 1e-6:
                            out.append(("C08", f"{where}: pos of node {n} is {p}, centroid is {c.tolist()}"))
        if "C09" in props and "iou" in enabled_now:
            for u, v in g.edges:
                a, b = seg[tr.get_time(u)] == u, seg[tr.get_time(v)] == v
                un = (a | b).sum()
                ref = float((a & b).sum() / un) if un else 0.0
                got = g.edges[u, v].get("iou")
                if got is None or abs(float(got) - ref) > 1e-9:
                    out.append(("C09", f"{where}: iou of edge {u}->{v} is {got}, masks give {ref}"))
    return out


def check_c10(tr, where, frozen, step, res):
    """registry = static + enabled; disabled features are frozen; managed keys and time are protected"""
    out = []
    g = tr.graph
    enabled = set(tr.annotators.features.keys())
    avail = set(tr.annotators.all_features.keys())
    reg = set(tr.features.keys())
    static = {tr.features.time_key}
    if tr.segmentation is None:
        pk = tr.features.position_key
        static |= set(pk) if isinstance(pk, list) else {pk}
    if (reg & avail) != enabled or not static <= reg:
        out.append(("C10", f"{where}: registry lists {sorted(reg)} but enabled features are {sorted(enabled)} (static {sorted(static)})"))
    # a disabled feature is no longer changed by edits (values frozen when first seen disabled)
    for k in avail - enabled:
        cur = {int(n): _c(g.nodes[n].get(k)) for n in g.nodes} if tr.annotators.all_features[k][0]["feature_type"] == "node" else \
              {f"{u}>{v}": _c(g.edges[u, v].get(k)) for u, v in g.edges}
        if k in frozen:
            # an element that was deleted and re-created by the edit (value None) is a new element, not a changed value
            changed = {n: (frozen[k][n], cur[n]) for n in cur if n in frozen[k] and frozen[k][n] != cur[n] and cur[n] is not None}
            if changed and step[0] not in ("enable", "disable"):
                out.append(("C10", f"{where}: disabled feature {k!r} was changed by an edit: {changed}"))
        frozen[k] = cur
    for k in list(frozen):
        if k in enabled:
            del frozen[k]
    if step[0] == "attrs" and res[0] == "ok" and (step[2] in avail or step[2] == tr.features.time_key):
        out.append(("C10", f"{where}: attribute update of managed key {step[2]!r} was accepted"))
    return out


def run_scenario(sc, props, stop_at_first=True):
    """Execute a scenario, checking the oracles of `props` after every step. -> list of violations"""
    tr = build_tracks(sc["graph"], seg=sc.get("seg", False), scale=sc.get("scale"))
    if sc.get("enable"):
        tr.enable_features(sc["enable"])
    emits = []
    tr.refresh.connect(lambda *a: emits.append(a))
    viol = check_state(tr, props, "initial")
    viol = [v for v in viol if v[0] in ("C04", "C05", "C06", "C08", "C09")]  # construction-time clauses
    # C02 reference model: timeline of canonical states + cursor
    timeline, cur = [canon(tr)], 0
    frozen = {}
    for i, step in enumerate(sc["steps"]):
        if step[0] == "add_node" and len(step) > 6 and step[6] is not None and tr.segmentation is not None:
            # documented precondition of adding a node with a mask: it paints onto background, inside the array
            # (shrinking a scenario may remove the step that made these pixels free: such a scenario is discarded)
            px = step[6]
            if px[0][0] >= tr.segmentation.shape[0] or (tr.segmentation[tuple(np.array(x) for x in px)] != 0).any():
                return [v for v in viol if v[0] in props]
        before = full_state(tr)
        feats_before = {k: dict(v) for k, v in tr.features.items()}
        n_em = len(emits)
        res = do_step(tr, step, emits)
        after = full_state(tr)
        where = f"after step {i} {step}"
        kind = step[0]
        new_em = emits[n_em:]
        if kind in ("undo", "redo"):
            if res[0] != "ok":
                viol.append(("C02", f"{where}: raised {res[1]!r}"))
            else:
                can = cur > 0 if kind == "undo" else cur < len(timeline) - 1
                if bool(res[1]) != can:
                    viol.append(("C02", f"{where}: returned {res[1]} but the timeline cursor is {cur}/{len(timeline) - 1}"))
                if can:
                    cur += -1 if kind == "undo" else 1
                if canon(tr) != timeline[cur]:
                    viol.append(("C02", f"{where}: state differs from timeline[{cur}]"))
                    viol.append(("C01", f"{where}: state differs from the state before the inverted edit"))
                if len(new_em) != (1 if can else 0):
                    viol.append(("C20", f"{where}: {len(new_em)} refresh emissions, expected {1 if can else 0}"))
        elif kind in ("enable", "disable"):
            if res[0] == "refused":
                if before != after or {k: dict(v) for k, v in tr.features.items()} != feats_before:
                    viol.append(("C10", f"{where}: refused with {type(res[1]).__name__} but the tracks or the registry changed"))
                if not isinstance(res[1], KeyError):
                    viol.append(("C10", f"{where}: unknown feature raised {type(res[1]).__name__} instead of KeyError"))
            elif "no_such_feature" in step[1]:
                viol.append(("C10", f"{where}: unknown feature accepted"))
            timeline, cur = [canon(tr)], 0
            tr.action_history.undo_stack.clear()
            tr.action_history.redo_stack.clear()
            frozen.clear()
        elif res[0] == "refused":
            if before != after:
                diff = [k for k in before if before[k] != after[k]]
                viol.append(("C11", f"{where}: refused with {type(res[1]).__name__}({res[1]}) but {diff} changed"))
                # a half-applied refused edit is C11's violation; what follows is outside the domain
                # of the other properties ("starting from a consistent state")
                return [v for v in viol if v[0] in props]
            if new_em:
                viol.append(("C20", f"{where}: refused action emitted refresh"))
                viol.append(("C11", f"{where}: refused action emitted refresh"))
        else:
            # accepted edit: timeline grows as the property says
            timeline = timeline + list(reversed(timeline[cur:-1])) + [canon(tr)]
            cur = len(timeline) - 1
            if after["hist"][0] - after["hist"][1] != cur:
                viol.append(("C02", f"{where}: history cursor {after['hist']} does not match timeline length {len(timeline)}"))
            if len(new_em) != 1:
                viol.append(("C20", f"{where}: {len(new_em)} refresh emissions for one top-level action"))
            elif kind == "add_node" and (len(new_em[0]) != 1 or new_em[0][0] != step[1]):
                viol.append(("C20", f"{where}: refresh carried {new_em[0]} instead of the new node {step[1]}"))
            # C01: inverse restores, inverse of inverse re-applies (on a deep copy of the world: replay instead)
        if "C10" in props:
            viol += check_c10(tr, where, frozen, step, res)
        viol += check_state(tr, props, where)
        viol = [v for v in viol if v[0] in props]
        if viol and stop_at_first:
            return viol
    return viol


def search(props, seed, budget, seg_choices=(False, True), focus=None, max_steps=10, ignore=()):
    import re
    rng = random.Random(seed)
    rng.c10 = "C10" in props
    t0 = time.time()
    n = 0
    known = []
    while time.time() - t0 < budget:
        n += 1
        seg = rng.choice(seg_choices)
        spec = random_forest(rng, rng.randrange(2, 8), rng.randrange(2, 5))
        sc = {"graph": spec, "seg": seg, "steps": [], "enable": (["iou"] if seg and rng.random() < 0.7 else None)}
        if seg and rng.random() < 0.5:
            # voxel sizes: unit and isotropic non-unit (time scale 1); anisotropic 2D spacings are left out because skimage
            # refuses perimeter / circularity for them (NotImplementedError - a documented limit, not a property violation)
            sc["scale"] = rng.choice([[1, 1, 1], [1, 2, 2], [1, 0.5, 0.5], [1, 3, 3]])
        try:
            tr = build_tracks(spec, seg=seg, scale=sc.get("scale"))
            if sc["enable"]:
                tr.enable_features(sc["enable"])
        except Exception:
            continue
        for _ in range(rng.randrange(1, max_steps)):
            st = random_step(rng, tr, seg)
            if focus and rng.random() < 0.5:
                for _k in range(20):
                    st = random_step(rng, tr, seg)
                    if st[0] in focus:
                        break
            sc["steps"].append(st)
            try:
                do_step(tr, st, [])
            except Exception:
                break
        try:
            v = run_scenario(sc, props)
        except Exception as e:  # a crash of the real code outside the modelled exceptions
            v = [(props[0], f"harness/real code crashed: {type(e).__name__}: {e}")]
        if v:
            if ignore and all(any(re.search(pat, x[1]) for pat in ignore) for x in v):
                # a recorded known finding: note it (once) and keep searching for anything else
                if not known:
                    known.append({"scenario": sc, "violations": [list(x) for x in v[:2]]})
                continue
            sc2 = shrink(sc, props, v[0][0])
            v2 = run_scenario(sc2, props)
            return {"found": True, "scenario": sc2, "violations": [list(x) for x in v2[:3]], "scenarios_tried": n, "known": known}
    return {"found": False, "scenarios_tried": n, "known": known}


def shrink(sc, props, prop):
    best = sc
    changed = True
    while changed:
        changed = False
        for i in range(len(best["steps"]) - 1, -1, -1):
            cand = dict(best, steps=best["steps"][:i] + best["steps"][i + 1:])
            try:
                if any(x[0] == prop for x in run_scenario(cand, props)):
                    best, changed = cand, True
                    break
            except Exception:
                pass
    return best


PAINT_FIXTURES = [
    # division with a frame-skipping edge, an isolated node, a chain
    {"nodes": [[1, 0], [2, 1], [3, 2], [4, 1], [5, 0]], "edges": [[1, 2], [1, 3], [5, 4]]},
    {"nodes": [[1, 0], [2, 1], [3, 2], [4, 2]], "edges": [[1, 2], [2, 3], [2, 4]]},
]


def _paint_part(a):
    props, stride, ignore, part, nparts = a
    return paint_exhaustive(props, stride, ignore, part, nparts)


def paint_exhaustive_par(props, stride, ignore, nproc):
    import multiprocessing as mp
    with mp.Pool(nproc) as pool:
        rs = pool.map(_paint_part, [(props, stride, ignore, i, nproc) for i in range(nproc)])
    out = {"found": False, "scenarios_tried": sum(r["scenarios_tried"] for r in rs), "known": [], "exhaustive": stride == 1}
    for r in rs:
        if r.get("known") and not out["known"]:
            out["known"] = r["known"]
        if r["found"] and not out["found"]:
            out.update(found=True, scenario=r["scenario"], violations=r["violations"])
    return out


def paint_exhaustive(props, stride, ignore=(), part=0, nparts=1):
    """every rectangular stroke (1x1 .. 2x3) at every position of every frame of two small fixtures, with every
    label choice (erase / each label of the frame / a new label), every existing track id or a fresh one, force
    on/off, both orders of the per-label groups - each followed by undo and redo.  `stride` subsamples."""
    import re
    n = k = 0
    known = []
    for fx in PAINT_FIXTURES:
        base = build_tracks(fx, seg=True)
        nframes = base.segmentation.shape[0]
        tids = sorted({base.get_track_id(x) for x in base.graph.nodes})
        for t in range(nframes):
            labels = [int(v) for v in np.unique(base.segmentation[t]) if v != 0]
            for h, w in ((1, 1), (1, 2), (2, 2), (2, 3)):
                for y0 in range(0, H - h + 1):
                    for x0 in range(0, Wd - w + 1, 2):
                        cells = [(y, x) for y in range(y0, y0 + h) for x in range(x0, x0 + w)]
                        for val in [0, 90] + labels:
                            for tid in (tids + [None] if val == 90 else [None]):
                                for force in ((False, True) if val == 90 else (False,)):
                                    for rev in (False, True):
                                        k += 1
                                        if k % stride or (k // stride) % nparts != part:
                                            continue
                                        n += 1
                                        sc = {"graph": fx, "seg": True, "enable": ["iou"],
                                              "steps": [["paint", val, t, [c[0] for c in cells], [c[1] for c in cells], force, tid, rev], ["undo"], ["redo"]]}
                                        try:
                                            v = run_scenario(sc, props)
                                        except Exception as e:
                                            v = [(props[0], f"harness/real code crashed: {type(e).__name__}: {e}")]
                                        if v:
                                            if ignore and all(any(re.search(pat, x[1]) for pat in ignore) for x in v):
                                                if not known:
                                                    known.append({"scenario": sc, "violations": [list(x) for x in v[:2]]})
                                                continue
                                            return {"found": True, "scenario": sc, "violations": [list(x) for x in v[:3]], "scenarios_tried": n, "known": known}
    return {"found": False, "scenarios_tried": n, "known": known, "exhaustive": stride == 1}


def main():
    ap = argparse.ArgumentParser()
    ap.add_argument("--prop", default="C03")
    ap.add_argument("--seed", type=int, default=0)
    ap.add_argument("--budget", type=float, default=20)
    ap.add_argument("--focus", default="")
    ap.add_argument("--replay")
    ap.add_argument("--noseg", action="store_true")
    ap.add_argument("--segonly", action="store_true")
    ap.add_argument("--ignore", action="append", default=[])
    ap.add_argument("--paint-exhaustive", type=int, default=0, help="stride (1 = every stroke)")
    a = ap.parse_args()
    props = a.prop.split(",")
    if a.replay:
        sc = json.load(open(a.replay))
        sc = sc.get("witness", sc).get("scenario", sc)
        v = run_scenario(sc, props, stop_at_first=False)
        print(json.dumps({"violated": bool(v), "violations": [list(x) for x in v[:5]]}))
        return
    if a.paint_exhaustive:
        print(json.dumps(paint_exhaustive_par(props, a.paint_exhaustive, tuple(a.ignore), int(os.environ.get("PYVC_NPROC", "12"))), default=str))
        return
    segs = (False,) if a.noseg else ((True,) if a.segonly else (False, True))
    focus = [f for f in a.focus.split(",") if f]
    print(json.dumps(search(props, a.seed, a.budget, segs, focus or None, ignore=tuple(a.ignore)), default=str))


if __name__ == "__main__":
    main()
