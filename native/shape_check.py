"""Compares the heap shape the proofs declare for a SolutionTracks (pyvc/tracksfactory.make_tracks: which fields each
object has) with really constructed objects.  Input: a JSON file {class name: [field names]} written by the checker
(pyvc/native_bridge.declared_shape).  A declared field that the real object lacks makes the model meaningless."""
from __future__ import annotations

import json
import sys
import warnings

import networkx as nx
import numpy as np

warnings.filterwarnings("ignore")


def real_objects():
    from funtracks.data_model import SolutionTracks
    out = {}
    for with_seg in (False, True):
        g = nx.DiGraph()
        seg = np.zeros((3, 4, 5), dtype=np.uint64) if with_seg else None
        for n, t in ((1, 0), (2, 1), (3, 1)):
            if with_seg:
                g.add_node(n, t=t)
                seg[t, n % 4, n % 5] = n
            else:
                g.add_node(n, t=t, pos=[1.0, float(n)])
        g.add_edge(1, 2)
        g.add_edge(1, 3)
        tr = SolutionTracks(g, segmentation=seg, time_attr="t", pos_attr="pos", ndim=3)
        objs = [tr, tr.features, tr.action_history, tr.annotators] + list(tr.annotators)
        for o in objs:
            out.setdefault(type(o).__name__, []).append(o)
    return out


def main():
    declared = json.load(open(sys.argv[1]))
    real = real_objects()
    bad, n = [], 0
    for cls, fields in declared.items():
        objs = real.get(cls)
        if not objs:
            bad.append(f"declared class {cls} does not occur in a real SolutionTracks")
            continue
        for o in objs:
            for f in fields:
                n += 1
                if not hasattr(o, f):
                    bad.append(f"{cls}.{f} is declared by the model but missing on the real object")
    print(json.dumps({"what": "shape", "cases": n, "nontrivial": n, "violations": [{"what": "shape", "bad": sorted(set(bad))[:8]}] if bad else [], "n_violations": len(bad), "wall": 0}))


if __name__ == "__main__":
    main()
