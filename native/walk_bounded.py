#!/venv/bin/python
"""Bounded stand-ins (NOT proofs) for three functions whose contracts the proofs use at call sites:

  walk      TrackAnnotator._handle_update_track_ids          (contract K1, DESIGN.md 5.3)
  bulk      TrackAnnotator._assign_tracklet_ids / _assign_lineage_ids (construction half of C04/C05)
  queries   SolutionTracks.get_track_neighbors / has_track_id_at_time (query contracts of C06)

Exhaustive over every time-forward forest (in-degree <= 1, out-degree <= 2) with <= N nodes over <= F
frames; for `walk`: every start node and every track-id assignment over a 3-value palette that
satisfies the contract's preconditions P1/P2, lineage on/off.  The real methods are called on a real
SolutionTracks / TrackAnnotator.
"""
from __future__ import annotations

import argparse
import itertools
import json
import multiprocessing as mp
import sys
import time
import warnings
from types import SimpleNamespace

import networkx as nx

warnings.filterwarnings("ignore")
from funtracks.data_model import SolutionTracks  # noqa: E402


def forests(n, frames):
    """all (times, parents) with nodes 1..n, times non-decreasing in node order (canonical up to renaming)"""
    for times in itertools.combinations_with_replacement(range(frames), n):
        nodes = list(range(1, n + 1))
        choices = []
        for i, t in enumerate(times):
            choices.append([0] + [nodes[j] for j in range(n) if times[j] < t])
        for parents in itertools.product(*choices):
            cnt = {}
            ok = True
            for p in parents:
                if p:
                    cnt[p] = cnt.get(p, 0) + 1
                    if cnt[p] > 2:
                        ok = False
                        break
            if ok:
                yield times, parents


def make_tracks(times, parents):
    g = nx.DiGraph()
    for i, t in enumerate(times):
        g.add_node(i + 1, t=t, pos=[0.0, float(i)])
    for i, p in enumerate(parents):
        if p:
            g.add_edge(p, i + 1)
    return SolutionTracks(g, time_attr="t", pos_attr="pos", ndim=3)


def descendants_incl(g, s):
    return {s} | nx.descendants(g, s)


def segments(g):
    h = g.copy()
    for n in list(g.nodes):
        if g.out_degree(n) >= 2:
            for c in list(g.successors(n)):
                h.remove_edge(n, c)
    return [frozenset(c) for c in nx.weakly_connected_components(h)]


def check_forest(args):
    times, parents, what = args
    tr = make_tracks(times, parents)
    g = tr.graph
    ta = tr.track_annotator
    n = len(times)
    cases = nontrivial = 0
    viol = []
    if "bulk" in what:
        cases += 1
        segs = set(segments(g))
        got = {}
        for x in g.nodes:
            got.setdefault(tr.get_track_id(x), set()).add(x)
        if {frozenset(v) for v in got.values()} != segs:
            viol.append({"kind": "bulk-tracklets", "times": times, "parents": parents, "got": {k: sorted(v) for k, v in got.items()}})
        comps = {frozenset(c) for c in nx.weakly_connected_components(g)}
        gotl = {}
        for x in g.nodes:
            gotl.setdefault(tr.get_lineage_id(x), set()).add(x)
        if {frozenset(v) for v in gotl.values()} != comps:
            viol.append({"kind": "bulk-lineages", "times": times, "parents": parents})
        if len(segs) > 1:
            nontrivial += 1
    if "queries" in what:
        # the queries must not depend on node-id order or on the order of the lookup lists: run them on the
        # canonical numbering, on a time-reversed renumbering, and with every lookup list in every order
        variants = [(tr, None)]
        rev = {x: n + 1 - x for x in g.nodes}
        g2 = nx.relabel_nodes(g, {x: 10 + rev[x] for x in g.nodes}, copy=True)
        variants.append((SolutionTracks(g2, time_attr="t", pos_attr="pos", ndim=3), None))
        for base, _ in list(variants):
            lists = {k: list(v) for k, v in base.track_annotator.tracklet_id_to_nodes.items()}
            longest = max(lists, key=lambda k: len(lists[k]))
            if 2 <= len(lists[longest]) <= 4:
                for perm in itertools.permutations(lists[longest]):
                    if list(perm) != lists[longest]:
                        variants.append((base, (longest, list(perm))))
        for trv, shuffle in variants:
          gv = trv.graph
          ids = {trv.get_track_id(x) for x in gv.nodes}
          for i in sorted(ids) + [max(ids) + 1]:
            members = [x for x in gv.nodes if trv.get_track_id(x) == i]
            for t in range(-1, max(times) + 2):
                cases += 1
                if shuffle is not None:
                    trv.track_annotator.tracklet_id_to_nodes[shuffle[0]][:] = shuffle[1]
                tr_, g_ = tr, g
                tr, g = trv, gv
                rp = [x for x in members if tr.get_time(x) < t]
                rs = [x for x in members if tr.get_time(x) > t]
                p, s = tr.get_track_neighbors(i, t)
                okp = (p is None and not rp) or (p is not None and rp and p in rp and tr.get_time(p) == max(tr.get_time(x) for x in rp))
                oks = (s is None and not rs) or (s is not None and rs and s in rs and tr.get_time(s) == min(tr.get_time(x) for x in rs))
                if not (okp and oks):
                    viol.append({"kind": "get_track_neighbors", "times": times, "parents": parents, "id": i, "t": t, "got": [p, s]})
                if tr.has_track_id_at_time(i, t) != any(tr.get_time(x) == t for x in members):
                    viol.append({"kind": "has_track_id_at_time", "times": times, "parents": parents, "id": i, "t": t})
                if rp and rs:
                    nontrivial += 1
                tr, g = tr_, g_
    if "walk" in what:
        trk, lk = tr.features.tracklet_key, tr.features.lineage_key
        nodes = list(g.nodes)
        for assign in itertools.product((1, 2, 3), repeat=n):
            tidmap = dict(zip(nodes, assign))
            for start in nodes:
                below = descendants_incl(g, start)
                old = tidmap[start]
                # preconditions P1, P2 of the contract
                ok = True
                for a in below:
                    for b in g.successors(a):
                        if tidmap[a] == old and tidmap[b] == old and g.out_degree(a) != 1:
                            ok = False
                        if tidmap[a] != old and tidmap[b] == old:
                            ok = False
                if not ok:
                    continue
                for new_tid, new_lid, lin_on in ((4, None, True), (4, 9, True), (old, 9, True), (4, 9, False)):
                    cases += 1
                    # lineage feature switched off: the walk must leave lineage ids alone (C10)
                    (ta.activate_features if lin_on else ta.deactivate_features)([lk])
                    lidmap = {x: (1 + (x % 2)) for x in nodes}
                    for x in nodes:
                        g.nodes[x][trk] = tidmap[x]
                        g.nodes[x][lk] = lidmap[x]
                    m, mp_ = ta._get_max_id_and_map(trk)
                    ta.max_tracklet_id, ta.tracklet_id_to_nodes = m, mp_
                    m, mp_ = ta._get_max_id_and_map(lk)
                    ta.max_lineage_id, ta.lineage_id_to_nodes = m, mp_
                    maxT0 = ta.max_tracklet_id
                    act = SimpleNamespace(start_node=start, old_tracklet_id=old, new_tracklet_id=new_tid,
                                          new_lineage_id=new_lid, old_lineage_id=lidmap[start])
                    ta._handle_update_track_ids(act)
                    exp_t = {x: (new_tid if (x in below and tidmap[x] == old) else tidmap[x]) for x in nodes}
                    exp_l = {x: (new_lid if (new_lid is not None and lin_on and x in below) else lidmap[x]) for x in nodes}
                    got_t = {x: g.nodes[x][trk] for x in nodes}
                    got_l = {x: g.nodes[x][lk] for x in nodes}
                    bad = None
                    if got_t != exp_t:
                        bad = "track ids"
                    elif got_l != exp_l:
                        bad = "lineage ids"
                    else:
                        want = {}
                        for x in nodes:
                            want.setdefault(got_t[x], []).append(x)
                        have = {k: sorted(v) for k, v in ta.tracklet_id_to_nodes.items() if v}
                        if have != {k: sorted(v) for k, v in want.items()}:
                            bad = "track lookup"
                        elif ta.max_tracklet_id != max(maxT0, new_tid):
                            bad = "max track id"
                    ta.activate_features([lk])
                    if bad:
                        viol.append({"kind": "walk:" + bad, "times": times, "parents": parents, "tids": assign, "start": start,
                                     "new": [new_tid, new_lid], "got_t": got_t, "exp_t": exp_t})
                    if len(below) > 1 and any(tidmap[x] != old for x in below):
                        nontrivial += 1
                if len(viol) > 3:
                    return cases, nontrivial, viol
    return cases, nontrivial, viol


def replay(w):
    r = check_forest((tuple(w["times"]), tuple(w["parents"]), [w["kind"].split(":")[0].replace("bulk-tracklets", "bulk").replace("bulk-lineages", "bulk").replace("get_track_neighbors", "queries").replace("has_track_id_at_time", "queries")]))
    return {"violated": bool(r[2]), "violations": r[2][:3]}


def main():
    ap = argparse.ArgumentParser()
    ap.add_argument("--what", default="walk,bulk,queries")
    ap.add_argument("--nodes", type=int, default=4)
    ap.add_argument("--frames", type=int, default=3)
    ap.add_argument("--replay")
    ap.add_argument("--prop", default="")
    a = ap.parse_args()
    if a.replay:
        w = json.load(open(a.replay))
        print(json.dumps(replay(w), default=str))
        return
    what = a.what.split(",")
    t0 = time.time()
    jobs = []
    nforests = 0
    for n in range(1, a.nodes + 1):
        for times, parents in forests(n, a.frames):
            jobs.append((times, parents, what))
            nforests += 1
    cases = nontrivial = 0
    viol = []
    with mp.Pool(16) as pool:
        for c, nt, v in pool.imap_unordered(check_forest, jobs, chunksize=8):
            cases += c
            nontrivial += nt
            viol += v
    print(json.dumps({"forests": nforests, "cases": cases, "nontrivial": nontrivial, "violations": viol[:5],
                      "n_violations": len(viol), "wall": round(time.time() - t0, 1), "nodes": a.nodes, "frames": a.frames}, default=str))


if __name__ == "__main__":
    main()
