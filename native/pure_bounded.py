#!/venv/bin/python
"""Bounded native checks (NOT proofs) of the pure import/export/candidate-graph/label utilities against
brute-force reference semantics taken from the property statements.  Each check enumerates a stated finite
space exhaustively (or samples it with a seed where stated) and returns counts + the first violations.

  --what c13 | c15 | c16 | c17 | c18 | c19rel | c12      [--size quick|thorough] [--seed N]
  --replay file.json   (a witness written by a previous run)
"""
from __future__ import annotations

import argparse
import itertools
import json
import os
import random
import sys
import tempfile
import time
import warnings

import networkx as nx
import numpy as np

warnings.filterwarnings("ignore")
os.environ.setdefault("TQDM_DISABLE", "1")


def jd(x):
    if isinstance(x, np.ndarray):
        return x.tolist()
    if isinstance(x, (np.integer,)):
        return int(x)
    if isinstance(x, (np.floating,)):
        return float(x)
    if isinstance(x, (set, frozenset)):
        return sorted(x)
    return str(x)


# ----------------------------------------------------------------------------- C13 relabel_segmentation
def c13_case(seg, nodes):
    """nodes: list of (node_id, time, seg_id) with distinct (time, seg_id), seg_id != 0"""
    from funtracks.import_export._import_segmentation import relabel_segmentation
    g = nx.DiGraph()
    for nid, t, s in nodes:
        g.add_node(nid, time=t, seg_id=s)
    ids = [n[0] for n in nodes]
    seg_in = seg.copy()
    out = relabel_segmentation(seg_in, g, np.array(ids), np.array([n[2] for n in nodes]), np.array([n[1] for n in nodes]))
    off = 1 if 0 in ids else 0
    exp = np.zeros_like(seg, dtype=np.uint64)
    for nid, t, s in nodes:
        exp[t][seg[t] == s] = nid + off
    bad = []
    if not np.array_equal(out, exp):
        bad.append("segmentation differs from 'source pixels of (time, seg id) relabelled to the node id, background elsewhere'")
    if sorted(g.nodes) != sorted(i + off for i in ids):
        bad.append(f"graph nodes {sorted(g.nodes)} != ids shifted by {off}")
    if not np.array_equal(seg_in, seg):
        bad.append("input segmentation was modified")
    return bad


def c13_builder_case(dets, ids, extra):
    """the builder path: tracks_from_df with a seg_id column (TracksBuilder.handle_segmentation decides how to relabel)"""
    import warnings
    import pandas as pd
    from funtracks.import_export import tracks_from_df
    seg = np.zeros((2, 4, 8), dtype=np.uint16)
    rows = []
    per = {}
    for (t, label), nid in zip(dets, ids):
        k = per.get(t, 0)
        per[t] = k + 1
        seg[t, 1, 1 + 2 * k] = label
        rows.append({"time": t, "y": 1.0, "x": float(1 + 2 * k), "id": nid, "parent_id": -1, "seg_id": label})
    if extra is not None:
        seg[extra[0], 3, 6] = extra[1]
    with warnings.catch_warnings():
        warnings.simplefilter("ignore")
        tr = tracks_from_df(pd.DataFrame(rows), seg.copy())
    off = 1 if 0 in ids else 0
    exp = np.zeros(seg.shape, dtype=np.uint64)
    for (t, label), nid in zip(dets, ids):
        exp[t][seg[t] == label] = nid + off
    bad = []
    if not np.array_equal(np.asarray(tr.segmentation), exp):
        bad.append("imported segmentation differs from 'source pixels of (time, seg id) relabelled to the node id, background elsewhere'")
    if sorted(int(n) for n in tr.graph.nodes) != sorted(i + off for i in ids):
        bad.append(f"graph nodes {sorted(tr.graph.nodes)} != ids shifted by {off}")
    return bad


def c13_builder(size, seed):
    cases = nontrivial = 0
    viol = []
    slots = [(t, lab) for t in (0, 1) for lab in (1, 2, 3)]
    pool = [0, 1, 2, 3, 7]
    rng = random.Random(seed)
    combos = []
    for k in (1, 2, 3):
        for dets in itertools.combinations(slots, k):
            for ids in itertools.permutations(pool, k):
                for extra in (None, (0, 9), (1, 2)):
                    if extra is not None and (extra[0], extra[1]) in dets:
                        continue
                    combos.append((dets, ids, extra))
    if size == "quick":
        # every identity / subset-of-ids case (where a shortcut could skip the relabelling) plus a seeded sample of the rest
        special = [c for c in combos if all(lab in c[1] for (_, lab) in c[0])]
        rest = [c for c in combos if c not in set(special)]
        combos = special + rng.sample(rest, min(250, len(rest)))
    for dets, ids, extra in combos:
        cases += 1
        nontrivial += extra is not None or 0 in ids or any(lab in ids for (_, lab) in dets)
        bad = c13_builder_case(dets, ids, extra)
        if bad:
            viol.append({"what": "c13_builder", "dets": dets, "ids": ids, "extra": extra, "bad": bad})
            if len(viol) > 3:
                break
    return cases, nontrivial, viol


def c13(size, seed):
    frames, cells, labs = (2, 3, 3) if size == "quick" else (2, 3, 4)
    cases = nontrivial = 0
    viol = []
    node_pool = [0, 1, 2, 3, 7]
    for flat in itertools.product(range(labs), repeat=frames * cells):
        seg = np.array(flat, dtype=np.int64).reshape(frames, cells)
        present = [(t, int(s)) for t in range(frames) for s in np.unique(seg[t]) if s != 0]
        # choose up to 3 detections (possibly not all, possibly unlisted labels stay background) and ids
        for k in range(0, min(3, len(present)) + 1):
            for dets in itertools.combinations(present, k):
                for ids in itertools.permutations(node_pool, k):
                    if k == 3 and ids[0] > ids[1]:
                        continue
                    nodes = [(ids[i], dets[i][0], dets[i][1]) for i in range(k)]
                    if k == 0:
                        continue
                    cases += 1
                    chained = any(n[0] != n[2] and any(n[0] == m[2] for m in nodes) for n in nodes)
                    nontrivial += chained or (0 in ids)
                    bad = c13_case(seg, nodes)
                    if bad:
                        viol.append({"what": "c13", "seg": seg.tolist(), "nodes": nodes, "bad": bad})
                        if len(viol) > 3:
                            return cases, nontrivial, viol
    return cases, nontrivial, viol


# ----------------------------------------------------------------------------- C19 relabel by track
def forests(n, frames):
    for times in itertools.combinations_with_replacement(range(frames), n):
        choices = [[0] + [j + 1 for j in range(n) if times[j] < t] for t in times]
        for parents in itertools.product(*choices):
            cnt = {}
            if all(not p or cnt.__setitem__(p, cnt.get(p, 0) + 1) or cnt[p] <= 2 for p in parents):
                yield times, parents


def segments(g):
    h = g.copy()
    for n in list(g.nodes):
        if g.out_degree(n) >= 2:
            h.remove_edges_from(list(g.out_edges(n)))
    return [set(c) for c in nx.weakly_connected_components(h)]


def c19rel_case(times, parents, extra_label, reuse=False):
    from funtracks.utils._segmentation_utils import relabel_segmentation_with_track_id
    n = len(times)
    frames = max(times) + 1
    seg = np.zeros((frames, n + 2), dtype=np.int64)
    g = nx.DiGraph()
    per_frame = {}
    for i, t in enumerate(times):
        # detection i+1 has seg id 10+i in frame t; with `reuse` the label values start again at 10 in every frame
        sid = 10 + per_frame.get(t, 0) if reuse else 10 + i
        per_frame[t] = per_frame.get(t, 0) + 1
        seg[t, i] = sid
        g.add_node(i + 1, time=t, seg_id=sid)
    for i, p in enumerate(parents):
        if p:
            g.add_edge(p, i + 1)
    if extra_label:
        seg[0, n] = 99  # a detection that is not in the solution
        if reuse:
            # ... and one whose label value is some node's seg id in another frame (or unused): frame f's next free value
            for f in range(frames):
                seg[f, n + 1] = 10 + per_frame.get(f, 0)
    out = relabel_segmentation_with_track_id(g, seg)
    lab = {i + 1: int(out[times[i], i]) for i in range(n)}
    bad = []
    segs = segments(g)
    for s in segs:
        if len({lab[x] for x in s}) != 1 or 0 in {lab[x] for x in s}:
            bad.append(f"segment {sorted(s)} got labels {[lab[x] for x in sorted(s)]}")
    if len({lab[next(iter(s))] for s in segs}) != len(segs):
        bad.append("two segments share a label")
    if extra_label and (out[0, n] != 0 or (out[:, n + 1] != 0).any()):
        bad.append("detection not in the solution was kept")
    if (out != 0).sum() != n:
        bad.append("number of labelled pixels changed")
    return bad


def c19rel(size, seed):
    nmax, frames = (4, 3) if size == "quick" else (5, 4)
    cases = nontrivial = 0
    viol = []
    for n in range(1, nmax + 1):
        for times, parents in forests(n, frames):
            for extra in (False, True):
                for reuse in (False, True):
                    cases += 1
                    nontrivial += sum(1 for p in parents if p) >= 2
                    bad = c19rel_case(times, parents, extra, reuse)
                    if bad:
                        viol.append({"what": "c19rel", "times": times, "parents": parents, "extra": extra, "reuse": reuse, "bad": bad})
                        if len(viol) > 3:
                            return cases, nontrivial, viol
    return cases, nontrivial, viol


# ----------------------------------------------------------------------------- C15 / C16
def make_solution(times, parents, seg=False, scale=None, pos_list=False):
    from funtracks.data_model import SolutionTracks
    g = nx.DiGraph()
    frames = max(times) + 1
    arr = np.zeros((frames, 4, 6), dtype=np.uint64) if seg else None
    for i, t in enumerate(times):
        nid = 3 * i + 2  # non-contiguous ids
        if seg:
            g.add_node(nid, t=t)
            arr[t, (i % 2) * 2:(i % 2) * 2 + 2, (i // 2) % 3 * 2:(i // 2) % 3 * 2 + 2] = nid
        elif pos_list:
            g.add_node(nid, t=t, y=float(i), x=float(i) + 0.5)
        else:
            g.add_node(nid, t=t, pos=[float(i), float(i) + 0.5])
    for i, p in enumerate(parents):
        if p:
            g.add_edge(3 * (p - 1) + 2, 3 * i + 2)
    tr = SolutionTracks(g, segmentation=arr, time_attr="t", pos_attr=(["y", "x"] if pos_list and not seg else "pos"), ndim=3, scale=scale)
    return tr


def snapshot(tr):
    g = tr.graph
    ta = tr.track_annotator
    return {
        "nodes": {int(n): {k: jd(v) if isinstance(v, np.ndarray) else v for k, v in d.items()} for n, d in g.nodes(data=True)},
        "edges": {f"{u}>{v}": dict(d) for u, v, d in g.edges(data=True)},
        "seg": None if tr.segmentation is None else tr.segmentation.tobytes().hex(),
        "scale": None if tr.scale is None else list(tr.scale),
        "features": {k: dict(v) for k, v in tr.features.items()},
        "fkeys": [tr.features.time_key, tr.features.position_key if not isinstance(tr.features.position_key, list) else list(tr.features.position_key), tr.features.tracklet_key, tr.features.lineage_key],
        "t2n": {int(k): sorted(int(x) for x in v) for k, v in ta.tracklet_id_to_nodes.items()},
        "l2n": {int(k): sorted(int(x) for x in v) for k, v in ta.lineage_id_to_nodes.items()},
        "hist": [len(tr.action_history.undo_stack), len(tr.action_history.redo_stack)],
        "ndim": tr.ndim, "counter": tr.node_id_counter,
    }


def c15_case(times, parents, subset_idx, with_seg, tmp):
    import pandas as pd
    from funtracks.import_export import export_to_csv
    from funtracks.import_export._utils import filter_graph_with_ancestors
    from funtracks.import_export.export_to_geff import export_to_geff
    tr = make_solution(times, parents, seg=with_seg)
    g = tr.graph
    ids = sorted(g.nodes)
    keep = {ids[i] for i in subset_idx}
    exp = set(keep)
    for k in keep:
        exp |= nx.ancestors(g, k)
    bad = []
    got = set(filter_graph_with_ancestors(g, set(keep)))
    if got != exp:
        bad.append(f"filter_graph_with_ancestors gave {sorted(got)} expected {sorted(exp)}")
    csvp = os.path.join(tmp, "o.csv")
    export_to_csv(tr, csvp, node_ids=set(keep))
    df = pd.read_csv(csvp)
    if sorted(df["id"].tolist()) != sorted(exp):
        bad.append(f"csv rows {sorted(df['id'].tolist())} expected {sorted(exp)}")
    else:
        for _, row in df.iterrows():
            par = list(g.predecessors(int(row["id"])))
            want = par[0] if par else None
            have = None if pd.isna(row["parent_id"]) else int(row["parent_id"])
            if want != have:
                bad.append(f"csv parent of {int(row['id'])} is {have}, graph says {want}")
            if have is not None and have not in exp:
                bad.append("csv row with a missing parent")
    if with_seg or len(times) <= 3:
        import geff
        gp = os.path.join(tmp, "o.zarr")
        import shutil
        shutil.rmtree(gp, ignore_errors=True)
        export_to_geff(tr, __import__("pathlib").Path(gp), node_ids=set(keep))
        g2, _meta = geff.read(os.path.join(gp, "tracks"), backend="networkx") if hasattr(geff, "read") else (None, None)
        if g2 is not None:
            if set(int(x) for x in g2.nodes) != exp:
                bad.append(f"geff nodes {sorted(int(x) for x in g2.nodes)} expected {sorted(exp)}")
            want_e = {(u, v) for u, v in g.edges if u in exp and v in exp}
            if {(int(u), int(v)) for u, v in g2.edges} != want_e:
                bad.append("geff edges differ from the edges among the kept nodes")
        if with_seg:
            import zarr
            z = np.asarray(zarr.open(os.path.join(gp, "segmentation"), mode="r"))
            want = np.where(np.isin(tr.segmentation, sorted(exp)), tr.segmentation, 0)
            if not np.array_equal(z, want):
                bad.append("exported segmentation is not 'masks of exactly the kept nodes, background elsewhere'")
    return bad


def c15(size, seed):
    nmax = 4 if size == "quick" else 5
    cases = nontrivial = 0
    viol = []
    rng = random.Random(seed)
    with tempfile.TemporaryDirectory() as tmp:
        allf = [(t, p) for n in range(1, nmax + 1) for t, p in forests(n, 3)]
        if size == "quick":
            sample = rng.sample([f for f in allf if len(f[0]) <= 3], 14) + rng.sample([f for f in allf if len(f[0]) == 4], 10)
        else:
            # every forest with <= 4 nodes plus a seeded sample of the 5-node ones (each case writes and re-reads files: ~0.15 s)
            small = [f for f in allf if len(f[0]) <= 4]
            big = [f for f in allf if len(f[0]) == 5]
            sample = small + rng.sample(big, min(60, len(big)))
        for times, parents in sample:
            n = len(times)
            subsets = list(itertools.chain.from_iterable(itertools.combinations(range(n), k) for k in range(1, n + 1)))
            if len(subsets) > (3 if size == "quick" else 6):
                subsets = rng.sample(subsets, 3 if size == "quick" else 6)
            for sub in subsets:
                for with_seg in (False, True):
                    cases += 1
                    nontrivial += any(parents[i] for i in sub) and len(sub) < n
                    try:
                        bad = c15_case(times, parents, sub, with_seg, tmp)
                    except Exception as e:
                        bad = [f"crash {type(e).__name__}: {e}"]
                    if bad:
                        viol.append({"what": "c15", "times": times, "parents": parents, "subset": sub, "seg": with_seg, "bad": bad})
                        if len(viol) > 3:
                            return cases, nontrivial, viol
    return cases, nontrivial, viol


def c16_case(times, parents, with_seg, scale, pos_list, tmp):
    from pathlib import Path

    from funtracks.import_export import export_to_csv
    from funtracks.import_export.export_to_geff import export_to_geff
    from funtracks.import_export.internal_format import save_tracks
    tr = make_solution(times, parents, seg=with_seg, scale=scale, pos_list=pos_list)
    ids = sorted(tr.graph.nodes)
    bad = []
    ops = {
        "export_to_csv": lambda: export_to_csv(tr, os.path.join(tmp, "a.csv")),
        "export_to_csv(subset,display)": lambda: export_to_csv(tr, os.path.join(tmp, "b.csv"), node_ids={ids[-1]}, use_display_names=True),
        "export_to_geff": lambda: export_to_geff(tr, Path(tmp) / "g1.zarr", overwrite=True),
        "export_to_geff(subset)": lambda: export_to_geff(tr, Path(tmp) / "g2.zarr", overwrite=True, node_ids={ids[-1]}),
        "save_tracks": lambda: save_tracks(tr, Path(tmp) / "sv"),
        "queries": lambda: (tr.get_track_neighbors(1, 1), tr.has_track_id_at_time(1, 0), tr.get_next_track_id(), tr.get_next_lineage_id(),
                            tr.nodes(), tr.edges(), tr.in_degree(), tr.out_degree(), tr.get_positions(ids), tr.get_times(ids),
                            [tr.get_pixels(n) for n in ids], tr.get_available_features(), tr.predecessors(ids[0]), tr.successors(ids[0]),
                            [tr.get_track_id(n) for n in ids], [tr.get_lineage_id(n) for n in ids]),
    }
    for name, op in ops.items():
        before = snapshot(tr)
        try:
            op()
        except Exception as e:
            if name.startswith("export_to_csv(subset,display)"):
                continue  # display-name export has its own preconditions on feature values
            bad.append(f"{name} raised {type(e).__name__}: {e}")
            continue
        after = snapshot(tr)
        if before != after:
            bad.append(f"{name} changed {[k for k in before if before[k] != after[k]]}")
    return bad


def c16(size, seed):
    cases = nontrivial = 0
    viol = []
    fs = [((0, 1, 2), (0, 1, 2)), ((0, 1, 1, 2), (0, 1, 1, 2)), ((0, 0, 2), (0, 0, 1)), ((0,), (0,))]
    if size != "quick":
        fs += [(t, p) for t, p in forests(4, 3)][::7]
    with tempfile.TemporaryDirectory() as tmp:
        for times, parents in fs:
            for with_seg in (False, True):
                for scale in (None, [1.0, 2.0, 0.5]):
                    for pos_list in ((False, True) if not with_seg else (False,)):
                        cases += 1
                        nontrivial += scale is None or pos_list
                        try:
                            bad = c16_case(times, parents, with_seg, scale, pos_list, tmp)
                        except Exception as e:
                            bad = [f"crash {type(e).__name__}: {e}"]
                        if bad:
                            viol.append({"what": "c16", "times": times, "parents": parents, "seg": with_seg, "scale": scale, "pos_list": pos_list, "bad": bad})
    return cases, nontrivial, viol


# ----------------------------------------------------------------------------- C17
VOCAB = ["t", "time", "Time", "T", "z", "Z", "y", "Y", "x", "X", "id", "ID", "parent_id", "Parent ID", "seg_id", "label",
         "area", "Area", "area2", "track_id", "Tracklet ID", "lineage_id", "iou", "IoU", "circularity", "custom", "pos", "position",
         "Y2", "X2", "yy", "x_", "z_", "major_axis_len", "major_axis_length", "Circularity2", "perimeter_", "Perimeter"]
# column lists in which two columns compete for the same slot (exactly or fuzzily)
COMPETING = [("t", "Y", "X", "Y2", "X2", "id", "parent_id"), ("t", "Y", "yy", "x"), ("X", "x_", "y", "t"), ("z_", "Z", "y", "x", "t"),
             ("t", "y", "x", "major_axis_len", "major_axis_length"), ("Area", "area2", "t"), ("Perimeter", "perimeter_", "t", "y", "x"),
             ("Circularity2", "circularity", "t"), ("T", "Time", "time"), ("ID", "id", "Parent ID", "parent_id")]


def c17_case(cols, required, ndim, edge):
    from funtracks.import_export._name_mapping import infer_edge_name_map, infer_node_name_map
    from funtracks.import_export._utils import get_default_key_to_feature_mapping
    feats = get_default_key_to_feature_mapping(ndim, display_name=False)
    m = infer_edge_name_map(list(cols), feats) if edge else infer_node_name_map(list(cols), list(required), feats)
    used = []
    for k, v in m.items():
        used += list(v) if isinstance(v, list) else [v]
    bad = []
    if sorted(used) != sorted(cols):
        lost = [c for c in cols if c not in used]
        dup = [c for c in set(used) if used.count(c) > 1]
        bad.append(f"columns used {sorted(used)}: lost {lost}, used twice {dup}, invented {[u for u in used if u not in cols]}")
    if not edge:
        for c in cols:
            if (c in required or c == "seg_id") and m.get(c) != c:
                bad.append(f"column {c!r} spelled like a required key is mapped as {m.get(c)!r}")
    return bad, m


def c17(size, seed):
    rng = random.Random(seed)
    cases = nontrivial = 0
    viol = []
    reqs = [["time"], ["time", "id", "parent_id"]]
    k_exh = 3 if size == "quick" else 3
    pool = list(itertools.combinations(VOCAB, k_exh))
    if size == "quick":
        pool = rng.sample(pool, 1200)
    extra = [tuple(rng.sample(VOCAB, rng.randrange(4, 9))) for _ in range(400 if size == "quick" else 4000)]
    extra += [("t", "Z", "y", "x", "id", "parent_id"), ("Area", "area", "area2"), ("z", "Z", "y", "x")] + COMPETING
    extra += [tuple(rng.sample(c, len(c))) for c in COMPETING for _ in range(3)]
    for cols in pool + extra:
        for ndim in (None, 3, 4):
            for req in reqs:
                cases += 1
                nontrivial += len({c.lower() for c in cols}) < len(cols)
                bad, m = c17_case(cols, req, ndim, False)
                if bad:
                    viol.append({"what": "c17", "cols": cols, "required": req, "ndim": ndim, "edge": False, "bad": bad, "map": m})
            cases += 1
            bad, m = c17_case(cols, [], ndim, True)
            if bad:
                viol.append({"what": "c17", "cols": cols, "required": [], "ndim": ndim, "edge": True, "bad": bad, "map": m})
            if len(viol) > 3:
                return cases, nontrivial, viol
    return cases, nontrivial, viol


# ----------------------------------------------------------------------------- C18
def c18_points_case(pts, dmax, scale):
    from funtracks.candidate_graph import compute_graph_from_points_list
    arr = np.array(pts, dtype=float)
    g = compute_graph_from_points_list(arr, dmax, scale=scale)
    sc = np.array(scale) if scale is not None else np.ones(arr.shape[1])
    P = arr * sc
    bad = []
    if sorted(g.nodes) != list(range(len(pts))):
        bad.append("nodes are not one per point")
    for i in range(len(pts)):
        if i in g.nodes and (g.nodes[i]["time"] != P[i, 0] or not np.allclose(g.nodes[i]["pos"], P[i, 1:])):
            bad.append(f"node {i} time/pos wrong")
    want = {(i, j) for i in range(len(pts)) for j in range(len(pts))
            if P[j, 0] == P[i, 0] + 1 and np.linalg.norm(P[i, 1:] - P[j, 1:]) <= dmax + 1e-12}
    if set(g.edges) != want:
        bad.append(f"edges {sorted(g.edges)} expected {sorted(want)}")
    return bad


def c18_seg_case(seg, dmax, iou):
    from funtracks.candidate_graph import compute_graph_from_seg
    g = compute_graph_from_seg(seg, dmax, iou=iou)
    bad = []
    dets = {}
    for t in range(seg.shape[0]):
        for lab in np.unique(seg[t]):
            if lab != 0:
                idx = np.argwhere(seg[t] == lab)
                dets[int(lab)] = (t, idx.mean(axis=0), len(idx))
    if sorted(g.nodes) != sorted(dets):
        bad.append(f"nodes {sorted(g.nodes)} expected {sorted(dets)}")
        return bad
    for n, (t, c, a) in dets.items():
        d = g.nodes[n]
        if d["time"] != t or not np.allclose(d["pos"], c) or d["area"] != a:
            bad.append(f"node {n}: time/pos/area {d} expected {(t, c.tolist(), a)}")
    want = {(a, b) for a in dets for b in dets if dets[b][0] == dets[a][0] + 1 and np.linalg.norm(dets[a][1] - dets[b][1]) <= dmax + 1e-12}
    if set(g.edges) != want:
        bad.append(f"edges {sorted(g.edges)} expected {sorted(want)}")
    if iou:
        for a, b in g.edges:
            A, B = seg[dets[a][0]] == a, seg[dets[b][0]] == b
            ref = (A & B).sum() / (A | B).sum()
            if abs(g.edges[a, b].get("iou", -1) - ref) > 1e-12:
                bad.append(f"iou of {a}->{b} is {g.edges[a, b].get('iou')} expected {ref}")
    return bad


def c18(size, seed):
    cases = nontrivial = 0
    viol = []
    # points: every assignment of <= 4 points to frames 0..3 (so gaps and empty frames occur), 1-D positions from {0,1,3}
    nmax = 4 if size == "quick" else 5
    for n in range(1, nmax + 1):
        for ts in itertools.product(range(4), repeat=n):
            for xs in itertools.product((0.0, 1.0, 3.0), repeat=n):
                if size == "quick" and n == 4 and (hash((ts, xs)) % 5):
                    continue
                pts = [[ts[i], 0.0, xs[i]] for i in range(n)]
                for dmax in (1.0, 2.5):
                    cases += 1
                    frames = sorted(set(ts))
                    nontrivial += any(b - a > 1 for a, b in zip(frames, frames[1:]))
                    try:
                        bad = c18_points_case(pts, dmax, None)
                    except Exception as e:
                        bad = [f"crash {type(e).__name__}: {e}"]
                    if bad:
                        viol.append({"what": "c18p", "pts": pts, "dmax": dmax, "bad": bad})
                        if len(viol) > 3:
                            return cases, nontrivial, viol
    # linked pair, gap, linked pair (and longer): the state carried across a gap must be rebuilt
    for ts in ((0, 1, 3, 4), (0, 1, 1, 3, 4), (0, 1, 3, 3, 4), (0, 1, 3, 4, 4), (0, 1, 3, 4, 6, 7), (1, 2, 4, 5)):
        for xs in itertools.product((0.0, 1.0, 3.0), repeat=len(ts)):
            if len(ts) == 6 and (hash(xs) % 3):
                continue
            pts = [[ts[i], 0.0, xs[i]] for i in range(len(ts))]
            for dmax in (1.0, 2.5):
                cases += 1
                nontrivial += 1
                try:
                    bad = c18_points_case(pts, dmax, None)
                except Exception as e:
                    bad = [f"crash {type(e).__name__}: {e}"]
                if bad:
                    viol.append({"what": "c18p", "pts": pts, "dmax": dmax, "bad": bad})
                    if len(viol) > 3:
                        return cases, nontrivial, viol
    rng = random.Random(seed)
    for _ in range(150 if size == "quick" else 1500):
        frames = rng.randrange(2, 7)
        seg = np.zeros((frames, 4, 5), dtype=np.int64)
        lab = 1
        for t in range(frames):
            if rng.random() < 0.25:
                continue  # empty frame
            for _k in range(rng.randrange(1, 3)):
                y, x = rng.randrange(3), rng.randrange(4)
                if (seg[t, y:y + 2, x:x + 2] == 0).all():
                    seg[t, y:y + 2, x:x + 2] = lab
                    lab += 1
        if lab == 1:
            continue
        cases += 1
        nontrivial += any((seg[t] == 0).all() for t in range(1, frames - 1))
        try:
            bad = c18_seg_case(seg, rng.choice([1.0, 2.0, 10.0]), True)
        except Exception as e:
            bad = [f"crash {type(e).__name__}: {e}"]
        if bad:
            viol.append({"what": "c18s", "seg": seg.tolist(), "bad": bad})
            if len(viol) > 3:
                return cases, nontrivial, viol
    return cases, nontrivial, viol


# ----------------------------------------------------------------------------- C12
def c12_case(times, parents, idkind, ndim3d, extra, rename, parent_enc, malformed):
    import pandas as pd
    from funtracks.import_export.csv._import import tracks_from_df
    n = len(times)
    ids = {"int": [5 * i + 3 for i in range(n)], "str": [f"c{i}" for i in range(n)], "zero": list(range(n))}[idkind]
    none = {"nan": None, "minus1": -1}[parent_enc] if idkind != "str" else None
    par = [ids[p - 1] if p else none for p in parents]
    tcol, idcol = ("frame", "cell") if rename else ("t", "id")
    data = {tcol: list(times), "y": [float(i) for i in range(n)], "x": [float(2 * i) for i in range(n)], idcol: ids, "parent_id": par}
    if ndim3d:
        data["z"] = [float(i) + 0.5 for i in range(n)]
    if extra:
        data["score"] = [0.1 * i for i in range(n)]
    if malformed == "dup" and n >= 2:
        data[idcol][1] = data[idcol][0]
    if malformed == "unknown_parent":
        data["parent_id"][-1] = ("zz" if idkind == "str" else 999)
    if malformed == "self":
        data["parent_id"][-1] = data[idcol][-1]
    if malformed == "missing_col":
        del data[tcol]
    df = pd.DataFrame(data)
    nm = {"time": tcol, "pos": (["z", "y", "x"] if ndim3d else ["y", "x"]), "id": idcol, "parent_id": "parent_id"}
    if extra:
        nm["score"] = "score"
    # a mapping that names a column the table does not have, although a column differing only in letter case exists
    if malformed == "case_time":
        nm["time"] = tcol.upper()
    if malformed == "case_pos":
        nm["pos"] = [c.upper() if c == "y" else c for c in nm["pos"]]
    if malformed == "case_extra":
        nm["score"] = "Score"
        if not extra:
            df["score"] = [0.1 * i for i in range(n)]
    if rename:
        df = df.rename(columns={idcol: "id"}) if False else df
    bad = []
    try:
        if rename:
            # builder requires literal id / parent_id columns for edge extraction: rename only the time column
            df = df.rename(columns={idcol: "id"})
            nm["id"] = "id"
        tr = tracks_from_df(df, node_name_map=nm)
    except ValueError as e:
        if malformed is None or (malformed == "dup" and n < 2):
            bad.append(f"well-formed table rejected: {e}")
        return bad
    except Exception as e:
        if malformed is None:
            bad.append(f"well-formed table crashed: {type(e).__name__}: {e}")
        elif malformed is not None:
            bad.append(f"malformed ({malformed}) table raised {type(e).__name__} instead of ValueError: {e}")
        return bad
    if malformed is not None and not (malformed == "dup" and n < 2):
        bad.append(f"malformed ({malformed}) table was imported")
        return bad
    g = tr.graph
    if idkind == "str":
        m = {s: i + 1 for i, s in enumerate(ids)}
    elif idkind == "zero":
        m = {i: i for i in ids}
    else:
        m = {i: i for i in ids}
    if sorted(g.nodes) != sorted(m.values()):
        bad.append(f"nodes {sorted(g.nodes)} expected {sorted(m.values())}")
        return bad
    want_e = {(m[ids[p - 1]], m[ids[i]]) for i, p in enumerate(parents) if p}
    if set(g.edges) != want_e:
        bad.append(f"edges {sorted(g.edges)} expected {sorted(want_e)}")
    for i in range(n):
        d = g.nodes[m[ids[i]]]
        if int(d[tr.features.time_key]) != times[i]:
            bad.append(f"time of node {ids[i]}")
        pos = list(d[tr.features.position_key])
        want = ([i + 0.5] if ndim3d else []) + [float(i), float(2 * i)]
        if not np.allclose(pos, want):
            bad.append(f"pos of node {ids[i]} is {pos} expected {want}")
        if extra and abs(d.get("score", -1) - 0.1 * i) > 1e-12:
            bad.append(f"custom column of node {ids[i]}")
    return bad


def c12(size, seed):
    cases = nontrivial = 0
    viol = []
    nmax = 3 if size == "quick" else 4
    for n in range(1, nmax + 1):
        for times, parents in forests(n, 3):
            for idkind in ("int", "str", "zero"):
                for ndim3d in (False, True):
                    for malformed in (None, "dup", "unknown_parent", "self", "missing_col", "case_time", "case_pos", "case_extra"):
                        for extra, rename, penc in ((False, False, "nan"), (True, True, "minus1")):
                            if size == "quick" and n == 3 and (hash((times, parents, idkind, ndim3d, malformed, extra)) % 3):
                                continue
                            cases += 1
                            nontrivial += any(parents) and malformed is None
                            try:
                                bad = c12_case(times, parents, idkind, ndim3d, extra, rename, penc, malformed)
                            except Exception as e:
                                bad = [f"harness crash {type(e).__name__}: {e}"]
                            if bad:
                                viol.append({"what": "c12", "times": times, "parents": parents, "idkind": idkind, "ndim3d": ndim3d,
                                             "extra": extra, "rename": rename, "parent_enc": penc, "malformed": malformed, "bad": bad})
                                if len(viol) > 5:
                                    return cases, nontrivial, viol
    return cases, nontrivial, viol


CHECKS = {"c13": c13, "c13b": c13_builder, "c19rel": c19rel, "c15": c15, "c16": c16, "c17": c17, "c18": c18, "c12": c12}


def replay(w):
    k = w["what"]
    if k == "c13":
        bad = c13_case(np.array(w["seg"]), [tuple(x) for x in w["nodes"]])
    elif k == "c13_builder":
        bad = c13_builder_case([tuple(d) for d in w["dets"]], tuple(w["ids"]), tuple(w["extra"]) if w["extra"] else None)
    elif k == "c19rel":
        bad = c19rel_case(tuple(w["times"]), tuple(w["parents"]), w["extra"], w.get("reuse", False))
    elif k == "c15":
        with tempfile.TemporaryDirectory() as tmp:
            bad = c15_case(tuple(w["times"]), tuple(w["parents"]), tuple(w["subset"]), w["seg"], tmp)
    elif k == "c16":
        with tempfile.TemporaryDirectory() as tmp:
            bad = c16_case(tuple(w["times"]), tuple(w["parents"]), w["seg"], w["scale"], w["pos_list"], tmp)
    elif k == "c17":
        bad, _ = c17_case(tuple(w["cols"]), w["required"], w["ndim"], w["edge"])
    elif k == "c18p":
        bad = c18_points_case(w["pts"], w["dmax"], None)
    elif k == "c18s":
        bad = c18_seg_case(np.array(w["seg"]), 2.0, True)
    elif k == "c12":
        bad = c12_case(tuple(w["times"]), tuple(w["parents"]), w["idkind"], w["ndim3d"], w["extra"], w["rename"], w["parent_enc"], w["malformed"])
    else:
        bad = ["unknown witness kind"]
    return {"violated": bool(bad), "violations": bad}


def main():
    ap = argparse.ArgumentParser()
    ap.add_argument("--what", default="c13")
    ap.add_argument("--size", default="quick")
    ap.add_argument("--seed", type=int, default=0)
    ap.add_argument("--replay")
    ap.add_argument("--prop", default="")
    a = ap.parse_args()
    if a.replay:
        w = json.load(open(a.replay))
        print(json.dumps(replay(w), default=jd))
        return
    t0 = time.time()
    cases, nontrivial, viol = CHECKS[a.what](a.size, a.seed)
    print(json.dumps({"what": a.what, "cases": cases, "nontrivial": nontrivial, "violations": viol[:5], "n_violations": len(viol),
                      "wall": round(time.time() - t0, 1)}, default=jd))


if __name__ == "__main__":
    main()
